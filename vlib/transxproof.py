"""Translator: `exec_proof` and `convert_to_implication` (generation/src/proof_generation/metamath/translate.py, Python `ast`)
-> `Pi2/Gen/ExecProof.lean`, regenerated on every run.  `Pi2/XProofTie.lean` proves the generated loop body, branch by branch,
equal to the hand-written model `MM.xstep` (`Pi2/MM/Translate.lean`) and the generated function equal to `MM.execProof`.

The translation is syntax-directed: one Lean line per Python statement (continuation-passing style; the words are those of
`Pi2/XProofSupport.lean`), one Lean definition per closure (`get_delta`, `get_rule_delta`, `do_mp`), per branch of the
if/elif chain of the loop body (`br_<set>` for `elif lemma_label in converter.<set>`, `br_memory` for
`lemma not in exported_proof.labels`, `br_else`), `step` (the loop body), `exec_proof`.

Recognised statements
  X = E, X: T = E, A, B = (E1, E2)            let v_X := ..        (after the binders the expression needs, see below)
  X = [] / X: dict[..] = {}                   let v_X : <type> := []
  (name,) = (K for K, V in D.items() if C)    genKeys D (fun v_K v_V => C) fun l_ => unpack1 l_ fun v_name =>
  D[K] = V                                    let v_D := dictSet v_D K V
  X += c                                      let v_X := v_X + c
  mm_memory.append(E)                         memAppend x E fun x =>
  L.append(E)                                 let v_L := v_L ++ [E]
  assert isinstance(X, T) / assert C          assertThat (..) <| / assertC (..) <|
  assert X is not None                        assertSome v_X fun v_X =>
  [X =] interpreter().M(args)                 icall n x <"M", [args]> fun x =>      / icallRet .. fun x v_X =>
  interpreter().pattern(P)                    ipattern cfg n x P fun x =>
  proofexp.load_axiom(P)(interpreter())       loadAxiom n x P fun x =>
  do_mp()                                     do_mp n x fun x =>
  for T in ITER: ..                           forEach ITER (carried locals) (fun T (carried) kl =>  ..) fun (carried) =>
  if C: .. [elif/else ..]                     if C then .. else ..   /  ifC (C) (..) (..)   /  pyIf C (fun j => ..) (fun j => ..) fun .. =>
  continue / return E / raise / pass
Expressions that need a binder (evaluated left to right, Python's order):
  stack()[I]                                  stackIdx x (I) fun t_ =>
  mm_memory[I]                                memIdx x (I) fun t_ =>
  exported_proof.labels[N]                    labelsGet v_labels N fun t_ =>
  converter.get_axiom_by_name(L)              getAxiom conv L fun t_ =>
  A.antecedents, P.name, V.conclusion         antsOf / attrName / attrConclusion .. fun t_ =>
  get_delta(E), get_rule_delta(L, P)          get_delta conv x E fun t_ =>  ..
  match_single(A, B)                          matchSingle n A B fun t_ =>
  convert_to_implication(A, P)                assertSome (convert_to_implication A P) fun t_ =>
Anything else is a problem; the generated file then says `translated := false`."""
from __future__ import annotations

import ast
import os

from . import core


class TrErr(Exception):
    pass


PROLOGUE = [
    ("if isinstance(interp, InterpreterTransformer):\n"
     "    sub_interp = interp.sub_interpreter\n"
     "    assert isinstance(sub_interp, StatefulInterpreter)\n"
     "    stack = lambda: sub_interp.stack\n"
     "else:\n"
     "    assert isinstance(interp, StatefulInterpreter)\n"
     "    stack = lambda: interp.stack"),
    "interpreter = lambda: interp",
]

# Lean types of the kinds a Python local can have
LEAN_TYPE = {
    'nat': 'Nat', 'lbl': 'Lbl', 'val': 'Val', 'name': 'Arg', 'dict': 'Dict', 'pat': 'NPat', 'pats': 'List NPat',
    'vars': 'List Nat', 'axiom': 'AxiomRec', 'roles': 'NPat.Subst', 'optroles': 'Option NPat.Subst',
    'saved': 'List (Arg × Val)',
}
RET_METHODS = ('prop1', 'prop2')          # methods whose result may be bound: they return the term they push
CONV_SETS = {'pattern_constructors': 'conv.isPatternConstructor', 'exported_axioms': 'conv.isExportedAxiom',
             'proof_rules': 'conv.isProofRule'}


def v(name):
    return 'v_' + name


def is_name(e, name=None):
    return isinstance(e, ast.Name) and (name is None or e.id == name)


def is_call(e, fname, nargs=None):
    return (isinstance(e, ast.Call) and is_name(e.func, fname) and not e.keywords
            and (nargs is None or len(e.args) == nargs))


def is_conv_call(e, method, nargs=None):
    return (isinstance(e, ast.Call) and isinstance(e.func, ast.Attribute) and is_name(e.func.value, 'converter')
            and e.func.attr == method and not e.keywords and (nargs is None or len(e.args) == nargs))


def is_conv_attr(e, attr):
    return isinstance(e, ast.Attribute) and is_name(e.value, 'converter') and e.attr == attr


def is_interp_call(e):
    """interpreter().M(args) -> (M, args)"""
    if (isinstance(e, ast.Call) and isinstance(e.func, ast.Attribute) and is_call(e.func.value, 'interpreter', 0)
            and not e.keywords):
        return e.func.attr, e.args
    return None


def is_labels(e):
    return isinstance(e, ast.Attribute) and is_name(e.value, 'exported_proof') and e.attr == 'labels'


def assigned_names(stmts):
    """names (re)bound or mutated in a statement list, in order of first occurrence"""
    out = []

    def add(n):
        if n not in out:
            out.append(n)

    def tgt(t):
        if isinstance(t, ast.Name):
            add(t.id)
        elif isinstance(t, (ast.Tuple, ast.List)):
            for x in t.elts:
                tgt(x)
        elif isinstance(t, ast.Starred):
            tgt(t.value)
        elif isinstance(t, ast.Subscript) and isinstance(t.value, ast.Name):
            add(t.value.id)

    for st in stmts:
        for node in ast.walk(st):
            if isinstance(node, ast.Assign):
                for t in node.targets:
                    tgt(t)
            elif isinstance(node, (ast.AugAssign, ast.AnnAssign)):
                tgt(node.target)
            elif isinstance(node, ast.For):
                tgt(node.target)
            elif (isinstance(node, ast.Call) and isinstance(node.func, ast.Attribute) and node.func.attr == 'append'
                  and isinstance(node.func.value, ast.Name)):
                add(node.func.value.id)
    return out


def exits(stmts):
    """the statement list always leaves the loop body / function (continue, raise, return)"""
    return bool(stmts) and isinstance(stmts[-1], (ast.Continue, ast.Raise, ast.Return))


def branch_name(test, lab):
    """`<lab> in converter.<set> [and ..]` -> br_<set>: the branches are named after the set of labels they handle"""
    t = test.values[0] if isinstance(test, ast.BoolOp) and isinstance(test.op, ast.And) else test
    if (isinstance(t, ast.Compare) and len(t.ops) == 1 and isinstance(t.ops[0], ast.In) and is_name(t.left, lab)
            and isinstance(t.comparators[0], ast.Attribute) and is_name(t.comparators[0].value, 'converter')):
        return 'br_' + t.comparators[0].attr.lstrip('_')
    return None


class Fn:
    """translation of one function body; `env`: Python local -> kind"""

    def __init__(self, tr, env, ret_with_state):
        self.tr = tr
        self.env = dict(env)
        self.problems = []
        self.tmp = 0
        self.joins = 0
        self.loop_konts = []          # what `continue` means, innermost last
        self.ret_with_state = ret_with_state
        self.fp_guard = set()         # labels L for which `L in converter._fp_label_to_pattern` is known
        self.pending_type = {}        # empty-list locals whose element type is not yet known -> marker

    # ------------------------------------------------------------------ helpers
    def fresh(self, base='t'):
        self.tmp += 1
        return f'{base}{self.tmp}_'

    def kind(self, name):
        k = self.env.get(name)
        if k is None:
            raise TrErr(f'unknown variable {name}')
        return k

    # ------------------------------------------------------------------ integer expressions (Python ints)
    def int_expr(self, e):
        if isinstance(e, ast.Constant) and isinstance(e.value, int) and not isinstance(e.value, bool):
            return f'{e.value}'
        if isinstance(e, ast.Name) and self.kind(e.id) == 'nat':
            return f'({v(e.id)} : Int)'
        if isinstance(e, ast.UnaryOp) and isinstance(e.op, ast.USub):
            return f'-({self.int_expr(e.operand)})'
        if isinstance(e, ast.BinOp) and isinstance(e.op, (ast.Add, ast.Sub)):
            op = '+' if isinstance(e.op, ast.Add) else '-'
            return f'({self.int_expr(e.left)} {op} {self.int_expr(e.right)})'
        raise TrErr('integer expression ' + ast.unparse(e))

    # ------------------------------------------------------------------ expressions
    def ev(self, e, pre):
        """-> (lean expression, kind); binders the expression needs are appended to `pre`"""
        # names
        if isinstance(e, ast.Name):
            return v(e.id), self.kind(e.id)
        if isinstance(e, ast.Constant) and isinstance(e.value, int) and not isinstance(e.value, bool) and e.value >= 0:
            return str(e.value), 'nat'
        if isinstance(e, ast.BinOp) and isinstance(e.op, ast.Add):
            a, ka = self.ev(e.left, pre)
            b, kb = self.ev(e.right, pre)
            if (ka, kb) != ('nat', 'nat'):
                raise TrErr('addition of ' + str(ka) + ', ' + str(kb))
            return f'({a} + {b})', 'nat'
        if isinstance(e, ast.Tuple):
            parts = [self.ev(x, pre) for x in e.elts]
            return '(' + ', '.join(p for p, _ in parts) + ')', ('tuple', tuple(k for _, k in parts))
        # stack()[I]
        if isinstance(e, ast.Subscript) and is_call(e.value, 'stack', 0):
            t = self.fresh()
            pre.append(f'stackIdx x ({self.int_expr(e.slice)}) fun {t} =>')
            return t, 'val'
        # mm_memory[I]
        if isinstance(e, ast.Subscript) and is_name(e.value, 'mm_memory'):
            self.kind('mm_memory')
            t = self.fresh()
            pre.append(f'memIdx x ({self.int_expr(e.slice)}) fun {t} =>')
            return t, 'val'
        # exported_proof.labels[N]
        if isinstance(e, ast.Subscript) and is_labels(e.value):
            self.kind('exported_proof')
            i, k = self.ev(e.slice, pre)
            if k != 'nat':
                raise TrErr('label index ' + ast.unparse(e))
            t = self.fresh()
            pre.append(f'labelsGet v_labels {i} fun {t} =>')
            return t, 'lbl'
        # converter.get_floating_pattern_by_name(L)[0]
        if (isinstance(e, ast.Subscript) and is_conv_call(e.value, 'get_floating_pattern_by_name', 1)
                and isinstance(e.slice, ast.Constant) and e.slice.value == 0):
            l, k = self.ev(e.value.args[0], pre)
            if k != 'lbl' or l not in self.fp_guard:
                raise TrErr('get_floating_pattern_by_name not behind `in converter._fp_label_to_pattern`: ' + ast.unparse(e))
            return f'(fp0 conv {l})', 'pat'
        # str(V)
        if is_call(e, 'str', 1):
            a, k = self.ev(e.args[0], pre)
            if k != 'val':
                raise TrErr('str of ' + k)
            return f'(Arg.str {a})', 'name'
        # len(..)
        if is_call(e, 'len', 1):
            a = e.args[0]
            if is_labels(a):
                self.kind('exported_proof')
                return 'v_labels.length', 'nat'
            x, k = self.ev(a, pre)
            if k in ('vars', 'pats', 'dict', 'saved', 'roles'):
                return f'{x}.length', 'nat'
            raise TrErr('len of ' + str(k))
        if is_call(e, 'tuple', 1) or is_call(e, 'reversed', 1) or is_call(e, 'list', 1):
            a = e.args[0]
            if isinstance(a, ast.GeneratorExp):
                return self.genexp_map(a, pre)
            x, k = self.ev(a, pre)
            if k not in ('vars', 'pats', 'saved', 'dict'):
                raise TrErr(f'{e.func.id} of {k}')
            return (f'{x}.reverse' if e.func.id == 'reversed' else x), k
        # converter queries
        if is_conv_call(e, 'resolve_metavar', 1):
            a, k = self.ev(e.args[0], pre)
            if k != 'nat':
                raise TrErr('resolve_metavar of ' + str(k))
            return f'(conv.resolveMetavar {a})', 'pat'
        if is_conv_call(e, 'get_metavars_in_order', 1):
            a, k = self.ev(e.args[0], pre)
            if k != 'lbl':
                raise TrErr('get_metavars_in_order of ' + str(k))
            return f'(conv.metavarsInOrder {a})', 'vars'
        if is_conv_call(e, 'get_axiom_by_name', 1):
            a, k = self.ev(e.args[0], pre)
            if k != 'lbl':
                raise TrErr('get_axiom_by_name of ' + str(k))
            t = self.fresh()
            pre.append(f'getAxiom conv {a} fun {t} =>')
            return t, 'axiom'
        if (isinstance(e, ast.Attribute) and e.attr == 'pattern' and is_conv_call(e.value, 'get_lemma_by_name', 1)
                and is_name(e.value.args[0], 'target')):
            return 'conv.targetPattern', 'pat'
        # attributes
        if isinstance(e, ast.Attribute) and not is_name(e.value, 'converter') and not is_name(e.value, 'exported_proof'):
            o, k = self.ev(e.value, pre)
            if k == 'axiom' and e.attr == 'pattern':
                return f'{o}.pattern', 'pat'
            if k == 'axiom' and e.attr == 'metavars':
                return f'{o}.metavars', 'vars'
            if k == 'axiom' and e.attr == 'antecedents':
                t = self.fresh()
                pre.append(f'antsOf {o} fun {t} =>')
                return t, 'pats'
            if k == 'pat' and e.attr == 'name':
                t = self.fresh()
                pre.append(f'attrName {o} fun {t} =>')
                return t, 'nat'
            if k == 'val' and e.attr == 'conclusion':
                t = self.fresh()
                pre.append(f'attrConclusion {o} fun {t} =>')
                return t, 'pat'
            raise TrErr(f'attribute .{e.attr} of {k}')
        # D.items()
        if (isinstance(e, ast.Call) and isinstance(e.func, ast.Attribute) and e.func.attr == 'items' and not e.args
                and not e.keywords):
            o, k = self.ev(e.func.value, pre)
            if k in ('dict', 'roles'):
                return o, k + '_items'
            raise TrErr('items of ' + str(k))
        # the closures and module functions
        if is_call(e, 'get_delta', 1) and 'get_delta' in self.tr.closures:
            a, k = self.ev(e.args[0], pre)
            if k != 'vars':
                raise TrErr('get_delta of ' + str(k))
            t = self.fresh()
            pre.append(f'get_delta conv x {a} fun {t} =>')
            return t, 'dict'
        if is_call(e, 'get_rule_delta', 2) and 'get_rule_delta' in self.tr.closures:
            a, ka = self.ev(e.args[0], pre)
            b, kb = self.ev(e.args[1], pre)
            if (ka, kb) != ('lbl', 'pat'):
                raise TrErr(f'get_rule_delta of {ka}, {kb}')
            t = self.fresh()
            pre.append(f'get_rule_delta conv n x {a} {b} fun {t} =>')
            return t, 'dict'
        if is_call(e, 'match_single', 2):
            a, ka = self.ev(e.args[0], pre)
            b, kb = self.ev(e.args[1], pre)
            if (ka, kb) != ('pat', 'pat'):
                raise TrErr(f'match_single of {ka}, {kb}')
            t = self.fresh()
            pre.append(f'matchSingle n {a} {b} fun {t} =>')
            return t, 'optroles'
        if is_call(e, 'convert_to_implication', 2) and self.tr.have_cti:
            a, ka = self.ev(e.args[0], pre)
            b, kb = self.ev(e.args[1], pre)
            if (ka, kb) != ('pats', 'pat'):
                raise TrErr(f'convert_to_implication of {ka}, {kb}')
            t = self.fresh()
            pre.append(f'assertSome (convert_to_implication {a} {b}) fun {t} =>')
            return t, 'pat'
        if is_call(e, 'MetaVar', 1):
            a, k = self.ev(e.args[0], pre)
            if k != 'nat':
                raise TrErr('MetaVar of ' + str(k))
            return f'(mkMetaVar {a})', 'pat'
        raise TrErr('expression ' + ast.unparse(e))

    def genexp_map(self, g, pre):
        """(ELT for V in ITER) with a pure element"""
        if len(g.generators) != 1 or g.generators[0].ifs or g.generators[0].is_async or not is_name(g.generators[0].target):
            raise TrErr('generator ' + ast.unparse(g))
        it, k = self.ev(g.generators[0].iter, pre)
        elk = {'vars': 'nat', 'pats': 'pat'}.get(k)
        if elk is None:
            raise TrErr('generator over ' + str(k))
        name = g.generators[0].target.id
        saved = self.env.get(name)
        self.env[name] = elk
        p2 = []
        el, rk = self.ev(g.elt, p2)
        if saved is None:
            del self.env[name]
        else:
            self.env[name] = saved
        if p2:
            raise TrErr('generator element needs a binder: ' + ast.unparse(g.elt))
        rkinds = {'pat': 'pats', 'nat': 'vars'}
        if rk not in rkinds:
            raise TrErr('generator element of kind ' + str(rk))
        return f'({it}.map fun {v(name)} => {el})', rkinds[rk]

    def opt_pat(self, e):
        """a pattern-valued operand of `==`, as an `Option NPat` (`none` = evaluating it raises); no binders"""
        if (isinstance(e, ast.Attribute) and e.attr == 'pattern' and is_conv_call(e.value, 'get_axiom_by_name', 1)):
            p = []
            a, k = self.ev(e.value.args[0], p)
            if k != 'lbl' or p:
                raise TrErr('operand ' + ast.unparse(e))
            return f'((conv.axiom? {a}).map (·.pattern))'
        if (isinstance(e, ast.Call) and is_name(e.func) and e.func.id in ('App', 'Implies') and len(e.args) == 1
                and isinstance(e.args[0], ast.Starred) and not e.keywords):
            p = []
            a, k = self.ev(e.args[0].value, p)
            if k != 'pats' or p:
                raise TrErr('operand ' + ast.unparse(e))
            return f'(py{e.func.id} {a})'
        p = []
        a, k = self.ev(e, p)
        if k != 'pat' or p:
            raise TrErr('operand ' + ast.unparse(e))
        return f'(some {a})'

    # ------------------------------------------------------------------ conditions
    def cond(self, e):
        """-> (lean, fuelled); fuelled: a `Cond`, else a `Bool`"""
        if isinstance(e, ast.Call) and is_name(e.func, 'isinstance') and len(e.args) == 2 and not e.keywords \
                and is_name(e.args[1]):
            p = []
            a, k = self.ev(e.args[0], p)
            if p:
                raise TrErr('isinstance of an expression that needs a binder: ' + ast.unparse(e))
            t = e.args[1].id
            if k == 'val' and t in ('Proved', 'Pattern'):
                return f'is{t} {a}', False
            if k == 'pat' and t == 'MetaVar':
                return f'isMetaVar {a}', False
            if k == 'axiom' and t == 'AxiomWithAntecedents':
                return f'{a}.antecedents.isSome', False
            raise TrErr('isinstance ' + ast.unparse(e))
        if isinstance(e, ast.UnaryOp) and isinstance(e.op, ast.Not):
            c, f = self.cond(e.operand)
            if f:
                raise TrErr('not of a fuelled condition')
            return f'(!{c})', False
        if isinstance(e, ast.BoolOp) and isinstance(e.op, ast.And):
            cs = []
            added = []
            for x in e.values:
                cs.append(self.cond(x))
                # `L in converter._fp_label_to_pattern and ..`: the later operands are evaluated behind the test
                if (isinstance(x, ast.Compare) and len(x.ops) == 1 and isinstance(x.ops[0], ast.In)
                        and is_conv_attr(x.comparators[0], '_fp_label_to_pattern') and is_name(x.left)):
                    l = v(x.left.id)
                    if l not in self.fp_guard:
                        self.fp_guard.add(l); added.append(l)
            self.last_and_guards = added
            for l in added:
                self.fp_guard.discard(l)
            if not any(f for _, f in cs):
                return '(' + ' && '.join(c for c, _ in cs) + ')', False
            out = None
            for c, f in reversed(cs):
                c = f'({c})' if f else f'(cPure ({c}))'
                out = c if out is None else f'(cAnd {c} {out})'
            return out, True
        if isinstance(e, ast.Compare) and len(e.ops) == 1:
            l, r, op = e.left, e.comparators[0], e.ops[0]
            if isinstance(op, (ast.In, ast.NotIn)):
                p = []
                a, k = self.ev(l, p)
                if p:
                    raise TrErr('membership of an expression that needs a binder')
                c = None
                if is_labels(r) and k == 'nat':
                    self.kind('exported_proof')
                    c = f'labelsHas v_labels {a}'
                elif isinstance(r, ast.Attribute) and is_name(r.value, 'converter') and k == 'lbl':
                    if r.attr in CONV_SETS:
                        c = f'{CONV_SETS[r.attr]} {a}'
                    elif r.attr == '_fp_label_to_pattern':
                        c = f'(conv.floating {a}).isSome'
                if c is None:
                    raise TrErr('membership ' + ast.unparse(e))
                return (f'(!{c})' if isinstance(op, ast.NotIn) else c), False
            if isinstance(op, ast.Eq):
                if isinstance(r, ast.Constant) and isinstance(r.value, str):
                    p = []
                    a, k = self.ev(l, p)
                    if k != 'lbl' or p:
                        raise TrErr('comparison ' + ast.unparse(e))
                    s = r.value.replace('\\', '\\\\').replace('"', '\\"')
                    return f'lblIs "{s}" {a}', False
                if is_call(r, 'Proved', 1):
                    p = []
                    a, k = self.ev(l, p)
                    b, kb = self.ev(r.args[0], p)
                    if (k, kb) != ('val', 'pat') or p:
                        raise TrErr('comparison ' + ast.unparse(e))
                    return f'provedEq n {a} {b}', True
                try:
                    p = []
                    a, ka = self.ev(l, p)
                    b, kb = self.ev(r, p)
                    if (ka, kb) == ('nat', 'nat') and not p:
                        return f'({a} == {b})', False
                except TrErr:
                    pass
                return f'patEq n {self.opt_pat(l)} {self.opt_pat(r)}', True
            if isinstance(op, (ast.Gt, ast.GtE, ast.Lt, ast.LtE)):
                p = []
                a, ka = self.ev(l, p)
                b, kb = self.ev(r, p)
                if (ka, kb) != ('nat', 'nat') or p:
                    raise TrErr('comparison ' + ast.unparse(e))
                sym = {ast.Gt: '>', ast.GtE: '≥', ast.Lt: '<', ast.LtE: '≤'}[type(op)]
                return f'decide ({a} {sym} {b})', False
        # truthiness of a list
        if isinstance(e, ast.Name) and self.kind(e.id) in ('pats', 'vars', 'saved'):
            return f'(!{v(e.id)}.isEmpty)', False
        raise TrErr('condition ' + ast.unparse(e))

    # ------------------------------------------------------------------ statements
    def carried(self, stmts, has_state):
        """the tuple of locals a loop / join carries: the state `x` and the already-known locals the statements assign"""
        names = [n for n in assigned_names(stmts) if n in self.env and n != 'mm_memory']
        parts = (['x'] if has_state else []) + [v(n) for n in names]
        if not parts:
            parts = ['()']
        return parts[0] if len(parts) == 1 else '(' + ', '.join(parts) + ')'

    def block(self, stmts, ind, kont):
        pad = '  ' * ind
        stmts = [s for s in stmts if not (isinstance(s, ast.Expr) and isinstance(s.value, ast.Constant))]
        if not stmts:
            return [pad + kont]
        st, rest = stmts[0], stmts[1:]
        try:
            return self.stmt(st, rest, ind, kont)
        except TrErr as ex:
            self.problems.append(f'{ex} (line {getattr(st, "lineno", "?")})')
            return [pad + f'raise /- UNTRANSLATED: {ast.unparse(st).splitlines()[0][:80]} -/']

    def arg(self, e, pre):
        a, k = self.ev(e, pre)
        if k == 'val':
            return f'.val {a}'
        if k == 'name':
            return a
        if k == 'dict':
            return f'.dict {a}'
        if k == 'nat':
            return f'.nat {a}'
        raise TrErr(f'argument of kind {k}: ' + ast.unparse(e))

    def bind(self, name, expr, kind, pad):
        """let v_name := expr"""
        if isinstance(kind, tuple):
            raise TrErr('a tuple is bound to one name')
        self.env[name] = kind
        return [pad + f'let {v(name)} : {LEAN_TYPE[kind]} := {expr}']

    def stmt(self, st, rest, ind, kont):
        pad = '  ' * ind
        u = ast.unparse(st).splitlines()[0][:90]
        if isinstance(st, ast.Pass):
            return self.block(rest, ind, kont)
        if isinstance(st, ast.Continue):
            if rest or not self.loop_konts:
                raise TrErr('continue')
            return [pad + self.loop_konts[-1]]
        if isinstance(st, ast.Raise):
            if rest:
                raise TrErr('statements after raise')
            return [pad + 'raise']
        if isinstance(st, ast.Return):
            if rest or self.loop_konts or st.value is None:
                raise TrErr('return')
            pre = []
            a, k = self.ev(st.value, pre)
            self.ret_kind = k
            return [pad + p for p in pre] + [pad + (f'k x {a}' if self.ret_with_state else f'k {a}')]
        if isinstance(st, ast.Assert):
            t = st.test
            if (isinstance(t, ast.Compare) and len(t.ops) == 1 and isinstance(t.ops[0], ast.IsNot) and is_name(t.left)
                    and isinstance(t.comparators[0], ast.Constant) and t.comparators[0].value is None):
                if self.kind(t.left.id) != 'optroles':
                    raise TrErr('assert .. is not None on ' + self.kind(t.left.id))
                self.env[t.left.id] = 'roles'
                return [pad + f'assertSome {v(t.left.id)} fun {v(t.left.id)} =>'] + self.block(rest, ind, kont)
            c, f = self.cond(t)
            return [pad + (f'assertC ({c}) <|' if f else f'assertThat ({c}) <|')] + self.block(rest, ind, kont)
        if isinstance(st, ast.For):
            return self.for_stmt(st, rest, ind, kont)
        if isinstance(st, ast.If):
            return self.if_stmt(st, rest, ind, kont)
        if isinstance(st, ast.AugAssign):
            if is_name(st.target) and isinstance(st.op, ast.Add) and self.kind(st.target.id) == 'nat' \
                    and isinstance(st.value, ast.Constant) and isinstance(st.value.value, int) and st.value.value >= 0:
                x = v(st.target.id)
                return [pad + f'let {x} : Nat := {x} + {st.value.value}'] + self.block(rest, ind, kont)
            raise TrErr('statement ' + u)
        if isinstance(st, ast.AnnAssign):
            if st.value is None or not is_name(st.target):
                raise TrErr('statement ' + u)
            st = ast.copy_location(ast.Assign([st.target], st.value), st)
            ann = True
        else:
            ann = False
        if isinstance(st, ast.Expr):
            e = st.value
            ic = is_interp_call(e)
            if ic:
                return self.interp_call(ic, None, rest, ind, kont)
            # proofexp.load_axiom(P)(interpreter())
            if (isinstance(e, ast.Call) and len(e.args) == 1 and is_call(e.args[0], 'interpreter', 0) and not e.keywords
                    and isinstance(e.func, ast.Call) and isinstance(e.func.func, ast.Attribute)
                    and is_name(e.func.func.value, 'proofexp') and e.func.func.attr == 'load_axiom'
                    and len(e.func.args) == 1 and not e.func.keywords):
                pre = []
                a, k = self.ev(e.func.args[0], pre)
                if k != 'pat':
                    raise TrErr('load_axiom of ' + str(k))
                return [pad + p for p in pre] + [pad + f'loadAxiom n x {a} fun x =>'] + self.block(rest, ind, kont)
            if is_call(e, 'do_mp', 0) and 'do_mp' in self.tr.closures:
                return [pad + 'do_mp n x fun x =>'] + self.block(rest, ind, kont)
            # X.append(E)
            if (isinstance(e, ast.Call) and isinstance(e.func, ast.Attribute) and e.func.attr == 'append'
                    and is_name(e.func.value) and len(e.args) == 1 and not e.keywords):
                lst = e.func.value.id
                pre = []
                a, k = self.ev(e.args[0], pre)
                if lst == 'mm_memory':
                    self.kind('mm_memory')
                    if k != 'val':
                        raise TrErr('mm_memory.append of ' + str(k))
                    return [pad + p for p in pre] + [pad + f'memAppend x {a} fun x =>'] + self.block(rest, ind, kont)
                lk = self.kind(lst)
                if lk == 'emptylist':
                    if k != ('tuple', ('name', 'val')):
                        raise TrErr(f'append of {k} to {lst}')
                    lk = 'saved'
                    self.tr.resolve_type(self.pending_type.pop(lst), LEAN_TYPE['saved'])
                    self.env[lst] = lk
                if lk == 'saved' and k == ('tuple', ('name', 'val')):
                    return [pad + p for p in pre] + [pad + f'let {v(lst)} : {LEAN_TYPE[lk]} := {v(lst)} ++ [{a}]'] \
                        + self.block(rest, ind, kont)
                raise TrErr(f'append of {k} to {lst} ({lk})')
            raise TrErr('statement ' + u)
        if not isinstance(st, ast.Assign) or len(st.targets) != 1:
            raise TrErr('statement ' + u)
        tgt, val = st.targets[0], st.value
        # D[K] = V
        if isinstance(tgt, ast.Subscript) and is_name(tgt.value) and self.kind(tgt.value.id) == 'dict':
            pre = []
            kx, kk = self.ev(tgt.slice, pre)
            a, k = self.ev(val, pre)
            if (kk, k) != ('nat', 'val'):
                raise TrErr('dict assignment ' + u)
            d = v(tgt.value.id)
            return [pad + p for p in pre] + [pad + f'let {d} : Dict := dictSet {d} {kx} {a}'] + self.block(rest, ind, kont)
        # (name,) = (K for K, V in D.items() if C)
        if isinstance(tgt, ast.Tuple) and len(tgt.elts) == 1 and is_name(tgt.elts[0]) and isinstance(val, ast.GeneratorExp):
            g = val
            if (len(g.generators) == 1 and not g.generators[0].is_async and len(g.generators[0].ifs) == 1
                    and isinstance(g.generators[0].target, ast.Tuple) and len(g.generators[0].target.elts) == 2
                    and all(is_name(x) for x in g.generators[0].target.elts) and is_name(g.elt)
                    and g.elt.id == g.generators[0].target.elts[0].id):
                pre = []
                it, k = self.ev(g.generators[0].iter, pre)
                if k != 'roles_items':
                    raise TrErr('generator over ' + str(k))
                kn, vn = (x.id for x in g.generators[0].target.elts)
                old = {n: self.env.get(n) for n in (kn, vn)}
                self.env[kn], self.env[vn] = 'nat', 'pat'
                c, f = self.cond(g.generators[0].ifs[0])
                for n, o in old.items():
                    if o is None:
                        del self.env[n]
                    else:
                        self.env[n] = o
                c = c if f else f'cPure ({c})'
                l = self.fresh('l')
                name = tgt.elts[0].id
                self.env[name] = 'nat'
                return [pad + p for p in pre] + [pad + f'genKeys {it} (fun {v(kn)} {v(vn)} => {c}) fun {l} =>',
                                                 pad + f'unpack1 {l} fun {v(name)} =>'] + self.block(rest, ind, kont)
            raise TrErr('statement ' + u)
        # A, B = (E1, E2)
        if isinstance(tgt, ast.Tuple) and all(is_name(x) for x in tgt.elts):
            pre = []
            a, k = self.ev(val, pre)
            if not (isinstance(k, tuple) and k[0] == 'tuple' and len(k[1]) == len(tgt.elts)):
                raise TrErr('tuple assignment ' + u)
            for x, kk in zip(tgt.elts, k[1]):
                if isinstance(kk, tuple):
                    raise TrErr('nested tuple ' + u)
                self.env[x.id] = kk
            names = ', '.join(v(x.id) for x in tgt.elts)
            return [pad + p for p in pre] + [pad + f'let ({names}) := {a}'] + self.block(rest, ind, kont)
        if not is_name(tgt):
            raise TrErr('assignment target ' + u)
        x = tgt.id
        # X = interpreter().M()
        ic = is_interp_call(val)
        if ic:
            return self.interp_call(ic, x, rest, ind, kont)
        # X = [] / X = {}
        if isinstance(val, ast.List) and not val.elts:
            if x == 'mm_memory':
                # the model's state starts with an empty mm_memory (`exec_proof` of the generated file)
                if not self.tr.at_top or 'mm_memory' in self.env:
                    raise TrErr('mm_memory = [] not at the top of exec_proof')
                self.env['mm_memory'] = 'mem'
                return [pad + 'let x : XSt := { x with mem := [] }'] + self.block(rest, ind, kont)
            marker = self.tr.new_marker()
            self.env[x] = 'emptylist'
            self.pending_type[x] = marker
            return [pad + f'let {v(x)} : {marker} := []'] + self.block(rest, ind, kont)
        if isinstance(val, ast.Dict) and not val.keys:
            return self.bind(x, '[]', 'dict', pad) + self.block(rest, ind, kont)
        # exported_proof = converter.get_lemma_by_name(target).proof
        if (x == 'exported_proof' and isinstance(val, ast.Attribute) and val.attr == 'proof'
                and is_conv_call(val.value, 'get_lemma_by_name', 1) and is_name(val.value.args[0], 'target')):
            if not self.tr.at_top:
                raise TrErr('exported_proof assigned inside the loop')
            self.env['exported_proof'] = 'proof'
            return self.block(rest, ind, kont)
        pre = []
        a, k = self.ev(val, pre)
        if isinstance(k, tuple) or k not in LEAN_TYPE:
            raise TrErr(f'assignment of kind {k}: ' + u)
        return [pad + p for p in pre] + self.bind(x, a, k, pad) + self.block(rest, ind, kont)

    def interp_call(self, ic, target, rest, ind, kont):
        pad = '  ' * ind
        m, args = ic
        pre = []
        if m == 'pattern':
            if target is not None or len(args) != 1:
                raise TrErr('interpreter().pattern')
            a, k = self.ev(args[0], pre)
            if k != 'pat':
                raise TrErr('pattern of ' + str(k))
            return [pad + p for p in pre] + [pad + f'ipattern cfg n x {a} fun x =>'] + self.block(rest, ind, kont)
        la = ', '.join(self.arg(a, pre) for a in args)
        if target is None:
            line = f'icall n x ⟨"{m}", [{la}]⟩ fun x =>'
        else:
            if m not in RET_METHODS or target == '_':
                raise TrErr(f'result of interpreter().{m} is used')
            self.env[target] = 'val'
            line = f'icallRet n x ⟨"{m}", [{la}]⟩ fun x {v(target)} =>'
        return [pad + p for p in pre] + [pad + line] + self.block(rest, ind, kont)

    def for_stmt(self, st, rest, ind, kont):
        pad = '  ' * ind
        if st.orelse:
            raise TrErr('for-else')
        pre = []
        it, k = self.ev(st.iter, pre)
        elem = {'vars': ['nat'], 'pats': ['pat'], 'dict_items': ['nat', 'val'], 'saved': ['name', 'val']}.get(k)
        if elem is None:
            raise TrErr('loop over ' + str(k))
        tgt = st.target
        if is_name(tgt) and len(elem) == 1:
            names = [tgt.id]
        elif isinstance(tgt, ast.Tuple) and all(is_name(x) for x in tgt.elts) and len(tgt.elts) == len(elem) and len(elem) > 1:
            names = [x.id for x in tgt.elts]
        else:
            raise TrErr('loop target ' + ast.unparse(tgt))
        has_state = self.has_calls(st.body)
        car = self.carried(st.body, has_state)
        old = {n: self.env.get(n) for n in names}
        for n, kk in zip(names, elem):
            self.env[n] = kk
        self.joins += 1
        kl = f'kl{self.joins}'
        self.loop_konts.append(f'{kl} {car}')
        body = self.block(st.body, ind + 1, f'{kl} {car}')
        self.loop_konts.pop()
        for n, o in old.items():
            if n == '_':
                self.env.pop(n, None)
        pat = v(names[0]) if len(names) == 1 else '(' + ', '.join(v(n) for n in names) + ')'
        body[-1] += f') fun {car} =>'
        return ([pad + p for p in pre] + [pad + f'forEach {it} {car} (fun {pat} {car} {kl} =>'] + body
                + self.block(rest, ind, kont))

    def restore(self, env0):
        """leave a nested block: its new locals go out of scope; an empty list whose element type it determined keeps it"""
        for n, k in env0.items():
            if k == 'emptylist' and self.env.get(n) not in (None, 'emptylist'):
                env0[n] = self.env[n]
        self.env = env0

    def has_calls(self, stmts):
        for s in stmts:
            for node in ast.walk(s):
                if is_interp_call(node) or is_call(node, 'do_mp', 0) or \
                        (isinstance(node, ast.Attribute) and node.attr == 'load_axiom') or \
                        (isinstance(node, ast.Attribute) and node.attr == 'append' and is_name(node.value, 'mm_memory')):
                    return True
        return False

    def if_stmt(self, st, rest, ind, kont):
        pad = '  ' * ind
        self.last_and_guards = []
        c, fuelled = self.cond(st.test)
        guards = list(getattr(self, 'last_and_guards', []))
        # `L in converter._fp_label_to_pattern [and ..]` as the test: the body runs behind it
        t = st.test
        if (isinstance(t, ast.Compare) and len(t.ops) == 1 and isinstance(t.ops[0], ast.In)
                and is_conv_attr(t.comparators[0], '_fp_label_to_pattern') and is_name(t.left)):
            guards.append(v(t.left.id))

        def body_block(k2, i2):
            added = [g for g in guards if g not in self.fp_guard]
            self.fp_guard.update(added)
            env0 = dict(self.env)
            b = self.block(st.body, i2, k2)
            self.restore(env0)
            for g in added:
                self.fp_guard.discard(g)
            return b

        def else_block(stmts, k2, i2):
            env0 = dict(self.env)
            b = self.block(stmts, i2, k2)
            self.restore(env0)
            return b

        def paren(b, i2):
            b[0] = '  ' * i2 + '(' + b[0].lstrip()
            b[-1] += ')'
            return b

        if not rest or (exits(st.body) and not st.orelse):
            # no join needed: the statements after the `if` (if any) are the else branch
            a = body_block(kont, ind + 1)
            if rest:
                b = self.block(rest, ind + 1, kont)
            else:
                b = else_block(st.orelse, kont, ind + 1)
            if fuelled:
                return [pad + f'ifC {c}'] + paren(a, ind + 1) + paren(b, ind + 1)
            return [pad + f'if {c} then'] + paren(a, ind + 1) + [pad + 'else'] + paren(b, ind + 1)
        if fuelled:
            raise TrErr('a fuelled condition on an if-statement that needs a join')
        both = list(st.body) + list(st.orelse)
        car = self.carried(both, True)
        self.joins += 1
        j = f'j{self.joins}'
        aa = body_block(f'{j} {car}', ind + 2)
        bb = else_block(st.orelse, f'{j} {car}', ind + 2)
        out = [pad + f'pyIf ({c})', '  ' * (ind + 1) + f'(fun {j} =>'] + aa
        out[-1] += ')'
        out += ['  ' * (ind + 1) + f'(fun {j} =>'] + bb
        out[-1] += f') fun {car} =>'
        return out + self.block(rest, ind, kont)


class Translator:
    def __init__(self):
        self.problems = []
        self.closures = {}
        self.have_cti = False
        self.at_top = False
        self.markers = {}

    def new_marker(self):
        m = f'/-TYPE{len(self.markers)}-/_'
        self.markers[m] = None
        return m

    def resolve_type(self, marker, ty):
        self.markers[marker] = ty

    def finish_markers(self, lines):
        out = []
        for l in lines:
            for m, ty in self.markers.items():
                if m in l:
                    if ty is None:
                        self.problems.append('XProof: the element type of an empty list is never determined')
                        ty = 'List Unit'
                    l = l.replace(m, ty)
            out.append(l)
        return out

    # ------------------------------------------------------------------ convert_to_implication
    def cti(self, fn):
        """the pure recursive function `convert_to_implication`, in the `Option` monad (`none` = an exception)"""
        if [a.arg for a in fn.args.args] != ['antecedents', 'conclusion']:
            raise TrErr('parameters of convert_to_implication')
        body = [s for s in fn.body if not (isinstance(s, ast.Expr) and isinstance(s.value, ast.Constant))]
        if not body:
            raise TrErr('empty body')
        st = body[0]
        if not (isinstance(st, ast.Assign) and len(st.targets) == 1 and isinstance(st.targets[0], ast.Tuple)
                and len(st.targets[0].elts) == 2 and is_name(st.targets[0].elts[0])
                and isinstance(st.targets[0].elts[1], ast.Starred) and is_name(st.targets[0].elts[1].value)
                and is_name(st.value, 'antecedents')):
            raise TrErr('first statement is not `(a, *rest) = antecedents`')
        head, tail = st.targets[0].elts[0].id, st.targets[0].elts[1].value.id
        env = {head: 'pat', tail: 'pats', 'conclusion': 'pat'}
        cnt = [0]

        def oexp(e):
            if is_name(e) and env.get(e.id) == 'pat':
                return f'(some {v(e.id)})'
            if isinstance(e, ast.Call) and is_name(e.func, 'Implies') and len(e.args) == 2 and not e.keywords:
                a, b = oexp(e.args[0]), oexp(e.args[1])
                cnt[0] += 2
                x, y = f'a{cnt[0] - 1}_', f'a{cnt[0]}_'
                return f'({a}.bind fun {x} => {b}.bind fun {y} => some (NPat.imp {x} {y}))'
            if is_call(e, 'convert_to_implication', 2):
                return f'(convert_to_implication {lexp(e.args[0])} {pexp(e.args[1])})'
            raise TrErr('expression ' + ast.unparse(e))

        def lexp(e):
            if is_call(e, 'tuple', 1):
                return lexp(e.args[0])
            if is_name(e) and env.get(e.id) == 'pats':
                return v(e.id)
            raise TrErr('list expression ' + ast.unparse(e))

        def pexp(e):
            if is_name(e) and env.get(e.id) == 'pat':
                return v(e.id)
            raise TrErr('pattern expression ' + ast.unparse(e))

        def blk(stmts, ind):
            pad = '  ' * ind
            if not stmts:
                raise TrErr('a path without return')
            s, r = stmts[0], stmts[1:]
            if isinstance(s, ast.Return) and s.value is not None and not r:
                return [pad + oexp(s.value)]
            if isinstance(s, ast.If) and is_name(s.test) and env.get(s.test.id) == 'pats' and exits(s.body) and not s.orelse:
                return [pad + f'if !{v(s.test.id)}.isEmpty then'] + blk(s.body, ind + 1) + [pad + 'else'] + blk(r, ind + 1)
            raise TrErr('statement ' + ast.unparse(s).splitlines()[0][:80])

        lines = [f'/-- `convert_to_implication` (translate.py line {fn.lineno}) -/',
                 'def convert_to_implication : List NPat → NPat → Option NPat',
                 '  | [], _ => none',
                 f'  | {v(head)} :: {v(tail)}, v_conclusion =>']
        return lines + blk(body[1:], 2)

    # ------------------------------------------------------------------ closures
    def closure(self, fn):
        params = [a.arg for a in fn.args.args]
        sigs = {'get_delta': (['metavars'], ['vars']), 'get_rule_delta': (['rule_label', 'schema'], ['lbl', 'pat']),
                'do_mp': ([], [])}
        if fn.name not in sigs or params != sigs[fn.name][0]:
            raise TrErr(f'unexpected closure {fn.name}({", ".join(params)})')
        kinds = sigs[fn.name][1]
        env = dict(zip(params, kinds))
        f = Fn(self, env, ret_with_state=False)
        has_state = f.has_calls(fn.body)
        needs_n = fn.name != 'get_delta'
        returns = any(isinstance(n, ast.Return) and n.value is not None for n in ast.walk(fn))
        if has_state and returns:
            raise TrErr(f'closure {fn.name} both calls the interpreter and returns a value')
        body = f.block(fn.body, 1, 'k x' if not returns else 'raise /- no return -/')
        for p in f.problems:
            self.problems.append(f'XProof: {fn.name}: {p}')
        rk = getattr(f, 'ret_kind', None)
        if returns and rk != 'dict':
            self.problems.append(f'XProof: {fn.name}: returns {rk}')
        kty = 'XSt → R' if not returns else 'Dict → R'
        ps = ''.join(f' ({v(p)} : {LEAN_TYPE[k]})' for p, k in zip(params, kinds))
        head = f'def {fn.name} (conv : Conv)' + (' (n : Nat)' if needs_n else '') + f' (x : XSt){ps} (k : {kty}) : R :='
        if fn.name == 'do_mp':
            head = f'def do_mp (n : Nat) (x : XSt) (k : XSt → R) : R :='
        self.closures[fn.name] = True
        return [f'/-- the closure `{fn.name}` (translate.py line {fn.lineno}) -/', head] + body

    # ------------------------------------------------------------------ exec_proof
    def exec_proof(self, fn):
        lines = []
        if [a.arg for a in fn.args.args] != ['converter', 'target', 'proofexp', 'interp']:
            self.problems.append('XProof: parameters of exec_proof are not (converter, target, proofexp, interp)')
        body = [s for s in fn.body if not (isinstance(s, ast.Expr) and isinstance(s.value, ast.Constant))]
        for i, want in enumerate(PROLOGUE):
            if i >= len(body) or ast.unparse(body[i]) != want:
                self.problems.append(f'XProof: statement {i + 1} of exec_proof is not the expected\n{want}')
        body = body[len(PROLOGUE):]
        while body and isinstance(body[0], ast.FunctionDef):
            c = body.pop(0)
            try:
                lines += self.closure(c)
            except TrErr as ex:
                self.problems.append(f'XProof: closure {c.name}: {ex}')
        for want in ('get_delta', 'get_rule_delta', 'do_mp'):
            if want not in self.closures:
                self.problems.append(f'XProof: closure {want} not found (or not translated)')
        # the statements before the loop, the loop, the statements after it
        loops = [i for i, s in enumerate(body) if isinstance(s, ast.For)]
        if len(loops) != 1:
            self.problems.append('XProof: expected exactly one top-level for loop in exec_proof')
            return lines
        li = loops[0]
        loop = body[li]
        if loop.orelse or ast.unparse(loop.iter) != 'exported_proof.applied_lemmas' or not is_name(loop.target):
            self.problems.append('XProof: the loop is not `for <name> in exported_proof.applied_lemmas:` ' + ast.unparse(loop.iter))
            return lines
        lem = loop.target.id
        # -- prefix (evaluated once): only lets
        top = Fn(self, {}, ret_with_state=False)
        self.at_top = True
        prefix = top.block(body[:li], 1, '@@LOOP@@')
        self.at_top = False
        for want in ('exported_proof', 'mm_memory'):
            if want not in top.env:
                self.problems.append(f'XProof: `{want}` is not set before the loop')
        loop_env = dict(top.env)
        pre_names = [n for n, k in top.env.items() if k in LEAN_TYPE]
        # -- loop body: `if lemma not in labels: ..; continue`, `lemma_label = labels[lemma]`, the chain
        params = ''.join(f' ({v(n)} : {LEAN_TYPE[top.env[n]]})' for n in pre_names)
        pargs = ''.join(f' {v(n)}' for n in pre_names)
        common = f'(conv : Conv) (cfg : Cfg) (n : Nat) (v_labels : List Lbl){params} (x : XSt) ({v(lem)} : Nat)'
        cargs = f'conv cfg n v_labels{pargs} x {v(lem)}'
        lb = [s for s in loop.body if not (isinstance(s, ast.Expr) and isinstance(s.value, ast.Constant))]
        step = []
        env = dict(loop_env)
        env[lem] = 'nat'
        ok = True
        if (len(lb) >= 1 and isinstance(lb[0], ast.If) and not lb[0].orelse and exits(lb[0].body)):
            f = Fn(self, env, False)
            f.loop_konts.append('k x')
            try:
                c, fu = f.cond(lb[0].test)
                if fu:
                    raise TrErr('fuelled test')
                blk = f.block(lb[0].body, 1, 'k x')
                lines += [f'/-- `{ast.unparse(lb[0].test)}` (translate.py line {lb[0].lineno}) -/',
                          f'def br_memory {common} (k : XSt → R) : R :='] + blk
                step.append(f'  if {c} then br_memory {cargs} k else')
            except TrErr as ex:
                f.problems.append(str(ex)); ok = False
            for p in f.problems:
                self.problems.append(f'XProof: memory branch: {p}')
            lb = lb[1:]
        else:
            self.problems.append('XProof: the loop body does not start with `if lemma not in exported_proof.labels: ..; continue`')
            ok = False
        # lemma_label = exported_proof.labels[lemma]
        f = Fn(self, env, False)
        lab = None
        if lb and isinstance(lb[0], ast.Assign) and len(lb[0].targets) == 1 and is_name(lb[0].targets[0]):
            try:
                pre = []
                a, k = f.ev(lb[0].value, pre)
                if k != 'lbl' or len(pre) != 1:
                    raise TrErr('not a label lookup: ' + ast.unparse(lb[0]))
                lab = lb[0].targets[0].id
                step.append('  ' + pre[0].replace(f'fun {a} =>', f'fun {v(lab)} =>'))
            except TrErr as ex:
                self.problems.append(f'XProof: {ex}')
            lb = lb[1:]
        if lab is None:
            self.problems.append('XProof: expected `lemma_label = exported_proof.labels[lemma]` after the memory branch')
            return lines
        env[lab] = 'lbl'
        if len(lb) != 1 or not isinstance(lb[0], ast.If):
            self.problems.append('XProof: expected exactly one if/elif chain after the label lookup')
            return lines
        node = lb[0]
        i = 0
        used = set()
        bcommon = common + f' ({v(lab)} : Lbl)'
        bargs = cargs + f' {v(lab)}'
        final = None
        while node is not None:
            i += 1
            f = Fn(self, env, False)
            f.loop_konts.append('k x')
            try:
                f.last_and_guards = []
                c, fu = f.cond(node.test)
                if fu:
                    raise TrErr('fuelled test in the chain')
                guards = list(f.last_and_guards)
                f.fp_guard.update(guards)
                blk = f.block(node.body, 1, 'k x')
            except TrErr as ex:
                f.problems.append(str(ex))
                c, blk = 'false /- UNTRANSLATED test -/', ['  raise']
            for p in f.problems:
                self.problems.append(f'XProof: branch {i} (line {node.lineno}): {p}')
            test_txt = ast.unparse(node.test).replace('\n', ' ')
            bname = branch_name(node.test, lab) or f'br_{i}'
            if bname in used:
                bname = f'{bname}_{i}'
            used.add(bname)
            lines += [f'/-- `{test_txt}` (translate.py line {node.lineno}) -/',
                      f'def {bname} {bcommon} (k : XSt → R) : R :='] + blk
            step.append(f'  if {c} then {bname} {bargs} k else')
            if len(node.orelse) == 1 and isinstance(node.orelse[0], ast.If):
                node = node.orelse[0]
            else:
                final = node.orelse
                node = None
        f = Fn(self, env, False)
        f.loop_konts.append('k x')
        blk = f.block(final or [], 1, 'k x')
        for p in f.problems:
            self.problems.append(f'XProof: final else: {p}')
        lines += ['/-- the final `else:` of the chain -/', f'def br_else {bcommon} (k : XSt → R) : R :='] + blk
        step.append(f'  br_else {bargs} k')
        lines += [f'/-- the body of `for {lem} in exported_proof.applied_lemmas:` (translate.py line {loop.lineno}) -/',
                  f'def step {common} (k : XSt → R) : R :='] + step
        # -- the statements after the loop
        ep = Fn(self, loop_env, False)
        epi = ep.block(body[li + 1:], 1, 'some (some x)')
        for p in ep.problems + top.problems:
            self.problems.append(f'XProof: exec_proof: {p}')
        loop_line = f'  forEach v_applied_lemmas x (fun {v(lem)} x kl => step conv cfg n v_labels{pargs} x {v(lem)} kl) fun x =>'
        lines += ['/-- `exec_proof` on the tracker state `s` with the calls `acc` made before it; `v_labels`, `v_applied_lemmas` =',
                  '`converter.get_lemma_by_name(target).proof` -/',
                  'def exec_proof (conv : Conv) (cfg : Cfg) (n : Nat) (v_labels : List Lbl) (v_applied_lemmas : List Nat)',
                  '    (s : PySt) (acc : List Call) : R :=',
                  '  let x : XSt := ⟨s, acc, []⟩']
        for l in prefix:
            if l.strip() == '@@LOOP@@':
                lines.append(loop_line)
            else:
                lines.append(l)
        lines += epi
        return lines


def translate_source(src):
    tr = Translator()
    tree = ast.parse(src)
    fns = {n.name: n for n in tree.body if isinstance(n, ast.FunctionDef)}
    lines = []
    if 'convert_to_implication' in fns:
        try:
            lines += tr.cti(fns['convert_to_implication'])
            tr.have_cti = True
        except TrErr as ex:
            tr.problems.append(f'XProof: convert_to_implication: {ex}')
    else:
        tr.problems.append('XProof: function convert_to_implication not found')
    if 'exec_proof' in fns:
        lines += tr.exec_proof(fns['exec_proof'])
    else:
        tr.problems.append('XProof: function exec_proof not found')
    lines = tr.finish_markers(lines)
    return lines, tr.problems


STUBS = {
    'convert_to_implication': 'def convert_to_implication : List NPat → NPat → Option NPat := fun _ _ => none',
    'get_delta': 'def get_delta (conv : Conv) (x : XSt) (v_metavars : List Nat) (k : Dict → R) : R := raise',
    'get_rule_delta': 'def get_rule_delta (conv : Conv) (n : Nat) (x : XSt) (v_rule_label : Lbl) (v_schema : NPat) (k : Dict → R) : R := raise',
    'do_mp': 'def do_mp (n : Nat) (x : XSt) (k : XSt → R) : R := raise',
}


def gen_exec_proof(src_path=None, out_dir=None):
    """regenerate Pi2/Gen/ExecProof.lean; `src_path` / `out_dir` override the source file and the output directory"""
    src_path = src_path or os.path.join(core.PYSRC, 'proof_generation/metamath/translate.py')
    src = open(src_path).read()
    try:
        body, problems = translate_source(src)
    except SyntaxError as ex:
        body, problems = [], [f'XProof: cannot parse: {ex}']
    except TrErr as ex:
        body, problems = [], [f'XProof: {ex}']
    lines = ['import Pi2.XProofSupport',
             '/-! GENERATED by /verif/vlib/transxproof.py from `exec_proof` and `convert_to_implication`',
             '(generation/src/proof_generation/metamath/translate.py): the closures, the loop body branch by branch, every stack index',
             'and every interpreter call with where its arguments come from — do not edit.  `Pi2/XProofTie.lean` proves `step` equal to',
             '`MM.xstep` and `exec_proof` equal to `MM.execProof` (the hand-written model, `Pi2/MM/Translate.lean`). -/',
             'set_option linter.unusedVariables false',
             'namespace Gen.XProof',
             'open MM PyXProof PySt']
    # a definition the tie needs but the translator could not produce: a stub, so that the failure is `translated = false`
    defined = {l.split()[1] for l in body if l.startswith('def ')}
    for name, stub in STUBS.items():
        if name not in defined:
            # stubs go first: later definitions may refer to them
            lines.append(stub)
    lines += body
    lines.append(f'def translated : Bool := {"true" if not problems else "false"}')
    lines.append('end Gen.XProof')
    from .translate import _write_if_changed, GEN
    _write_if_changed(os.path.join(out_dir or GEN, 'ExecProof.lean'), '\n'.join(lines) + '\n')
    return problems


if __name__ == '__main__':
    print(gen_exec_proof())
