"""Translator: the proof generator proper — `ProofThunk` / `ProofExp` (generation/src/proof_generation/proof.py),
`Interpreter.pattern` and the phase changes (interpreter.py), `InterpreterTransformer` (interpreter_transformer.py),
`InstantiationOptimizer` / `MemoizingInterpreter` (optimizing_interpreters.py) — Python `ast` -> Lean functions
(`Pi2/Gen/PyProof.lean`), statement by statement, regenerated on every run.  `Pi2/ProofTie.lean` proves them equal to
(resp. mutual refinements of) the hand-written model `Pi2/Proof.lean`: `patternF`, `concF`, `runBasicF`, `runF`,
`executeFull`.

Target language: the continuation-passing combinators of `Pi2/InterpSupport.lean` (`Py α = Option (Option α)`) plus
`Pi2/ProofSupport.lean`: an interpreter is an object `I : Interp σ` (one field per abstract method, `pattern`, `phase`)
with a mutable state `s : σ`; `obj.m(args)` becomes `call (I.m s args) fun (s, v) => …`.  `self.pattern(..)` inside
`Interpreter.pattern` is a virtual call through the object (`Interp.close` ties the knot); a transformer's state is
`TrSt σ` (its own `phase` + the state of `self.sub_interpreter`).  A function that evaluates `==` / `in` /
`Implies.extract` / `.instantiate` on patterns, or applies a `ProofThunk`, takes fuel `n`; a `lambda interpreter: …` /
nested `def proved_exp(interpreter)` becomes `fun n I s => …` (the fuel of the call).

Accepted statements:
  `x = e`, `x: T = e`, `a, b = Implies.extract(e)`, `d[k] = e` (a dict known to hold `k`), `assert e[, msg]`,
  `return e`, `if c: … return …` (+ `elif` / `else`, every branch returning; or followed by the rest of the block),
  `if c: <calls>` (joined on the interpreter state), `for x in l: …`, `for k, v in d.items(): …`,
  `match p: case C(a, b): …` (class patterns of the eleven `Pattern` classes, every case returning),
  nested `def f(interpreter): …`, `raise NotImplementedError(..)` after a `match`, calls for their effect on an
  interpreter, `self.check_interpreting(interpreter)` (diagnostics: its body must only print), docstrings.
Accepted expressions: parameters, locals, `phi0/phi1/phi2`, `bot()`, the pattern constructors, `EVar(k)`, `x.name`,
  `Proved(e)`, `ProofThunk(f, c)`, `lambda interpreter: e`, `t.conc`, `p.conclusion`, `self._axioms / _claims /
  _proof_expressions / _submodules`, `interpreter.phase`, `self.phase`, `ExecutionPhase.X`, `True / False`, `not d`,
  `len(d)`, `dict(d)`, `d.items()`, `d.values()`, `reversed(l)`, `a == b`, `a in l`, `a and b`,
  `isinstance(x, C | D)`, `Implies.extract(e)`, `e.instantiate(d)`, `str(e)` / `repr(e)` / f-strings (not modelled:
  `noStr`), `BasicInterpreter(phase)` and its `instantiate / instantiate_pattern` (the translated
  `Gen.PyInterp.Basic`), method calls on an interpreter, `t(interpreter)`, `self.<rule>(..)`, `super().m(..)`.
Not modelled (stated in the generated header): the dict that `dynamic_inst` closes over is *rebound*, not mutated in
  place (Python keeps the written values for a later run of the same thunk; `interpreter.pattern(p)` returns a pattern
  structurally equal to `p`); `_notations`; the file handling of `serialize` (the interpreter classes it instantiates are
  parameters).
Everything else is reported as a problem and makes the generated file define `translated := false`."""
from __future__ import annotations

import ast
import os

from . import core

KEYWORDS = {'exists'}
PHASES = {'Gamma': 'Phase.gamma', 'Claim': 'Phase.claim', 'Proof': 'Phase.proof'}
LEAN_TY = {'Pat': 'NPat', 'Proved': 'Proved', 'Term': 'TTerm', 'Nat': 'Nat', 'Str': 'Nat', 'EVarO': 'VId', 'SVarO': 'VId',
           'Vars': 'List VId', 'Delta': 'List (Nat × NPat)', 'Bool': 'Bool', 'Phase': 'Phase', 'Thunk': 'ProofThunk σ',
           'Exp': 'ProofExp σ', 'PatList': 'List NPat', 'ThunkList': 'List (ProofThunk σ)', 'ExpList': 'List (ProofExp σ)',
           'Unit': 'Unit', 'Fn': 'Nat → Interp σ → σ → Py (σ × Proved)', 'MemoSet': 'List NPat',
           'OptMemoSet': 'Option (List NPat)', 'ClaimList': 'List Claim'}
ANN = {'Pattern': 'Pat', 'Proved': 'Proved', 'Pattern | Proved': 'Term', 'int': 'Nat', 'str': 'Str', 'EVar': 'EVarO',
       'SVar': 'SVarO', 'MetaVar | ESubst | SSubst': 'Pat', 'tuple[EVar, ...]': 'Vars', 'tuple[SVar, ...]': 'Vars',
       'dict[int, Pattern]': 'Delta', 'Mapping[int, Pattern]': 'Delta', 'None': 'Unit', 'bool': 'Bool',
       'ProofThunk': 'Thunk', 'Interpreter': 'ITP', 'ExecutionPhase': 'Phase', 'set[Pattern] | None': 'OptMemoSet'}
# constructor -> (Lean constructor, field kinds, dataclass field names); P pattern, N number, E EVar object, S SVar object,
# V tuple of variable objects, D instantiation dict
CTORS = {'EVar': ('evar', 'N', ['name']), 'SVar': ('svar', 'N', ['name']), 'Symbol': ('sym', 'N', ['name']),
         'Implies': ('imp', 'PP', ['left', 'right']), 'App': ('app', 'PP', ['left', 'right']),
         'Exists': ('ex', 'NP', ['var', 'subpattern']), 'Mu': ('mu', 'NP', ['var', 'subpattern']),
         'MetaVar': ('mv', 'NVVVVV', ['name', 'e_fresh', 's_fresh', 'positive', 'negative', 'app_ctx_holes']),
         'ESubst': ('esub', 'PEP', ['pattern', 'var', 'plug']), 'SSubst': ('ssub', 'PSP', ['pattern', 'var', 'plug']),
         'Instantiate': ('inst', 'PD', ['pattern', 'inst'])}
KIND_TY = {'P': 'Pat', 'N': 'Nat', 'E': 'EVarO', 'S': 'SVarO', 'V': 'Vars', 'D': 'Delta'}
CHECK_INTERPRETING = ("if not interpreter.safe_interpreting:\n"
                      "    print(f'Proof generation during {interpreter.phase.name} phase is potentially unsafe!')\n"
                      "    for warning in interpreter.interpreting_warnings:\n"
                      "        print(warning)")
PHASE_METHODS = [('into_claim_phase', [], 'Unit'), ('into_proof_phase', [], 'Unit')]


class TrErr(Exception):
    pass


class NeedEff(Exception):
    pass


def lname(n):
    return f'«{n}»' if n in KEYWORDS else n


def ann_ty(node):
    if node is None:
        raise TrErr('missing type annotation')
    u = ast.unparse(node)
    if u not in ANN:
        raise TrErr(f'type annotation {u}')
    return ANN[u]


class Recv:
    """an interpreter object: `obj` the Lean term of the `Interp` record, `st` the Lean term of its state; `field` = None:
    the state is the variable `st` itself (rebound after a call), otherwise the field of `s` that holds it"""
    def __init__(self, obj, st, field=None):
        self.obj, self.st, self.field = obj, st, field


class Sig:
    def __init__(self, lean, params, ret, fuel, self_ty, interp, eff, extra=()):
        self.lean, self.params, self.ret = lean, params, ret     # params: [(name, type, default lean or None)]
        self.fuel, self.self_ty, self.interp, self.eff, self.extra = fuel, self_ty, interp, eff, list(extra)


class Tr:
    """translation of one function body.  `mode`: 'base' (class Interpreter, state = its `phase`), 'itp' (a method of
    class Interpreter that calls other methods: `self` is the object), 'tr' (a transformer class: `sub`, `s : TrSt σ`),
    'thunk', 'exp', 'lambda' (inside a closure: `I`, `s`)"""

    def __init__(self, g, mode, eff, ret, stateful, self_ty=None):
        self.g, self.mode, self.eff, self.ret, self.stateful, self.self_ty = g, mode, eff, ret, stateful, self_ty
        self.fuel = self.uses_self = self.uses_selfobj = False
        self.tmp = 0
        self.env = {}
        self.recv = {}          # python name -> Recv
        self.attr_params = {}   # self.<attr> -> (lean, type) for immutable attributes of the object

    # ---- helpers -----------------------------------------------------------------------------
    def fresh(self):
        self.tmp += 1
        return f't{self.tmp}'

    def need_eff(self):
        if not self.eff:
            raise NeedEff()

    def co(self, lean, ty, want):
        if ty == want or (ty, want) in (('Str', 'Nat'), ('Nat', 'Str'), ('EVarO', 'Nat'), ('SVarO', 'Nat')):
            return lean
        if ty == 'EVarO' and want in ('Pat', 'Term'):
            return self.co(f'(NPat.evar {lean})', 'Pat', want)
        if ty == 'SVarO' and want in ('Pat', 'Term'):
            return self.co(f'(NPat.svar {lean})', 'Pat', want)
        if ty == 'Pat' and want == 'Term':
            return f'(TTerm.pat {lean})'
        if ty == 'Proved' and want == 'Term':
            return f'(ofProved {lean})'
        raise TrErr(f'a value of type {ty} where {want} is expected: {lean}')

    def is_name(self, x, n):
        return isinstance(x, ast.Name) and x.id == n

    def is_self_attr(self, x, attr=None):
        return isinstance(x, ast.Attribute) and self.is_name(x.value, 'self') and (attr is None or x.attr == attr)

    def receiver(self, x):
        """the interpreter object an expression denotes, or None"""
        if isinstance(x, ast.Name) and x.id in self.recv:
            return self.recv[x.id]
        if self.mode == 'tr' and self.is_self_attr(x, 'sub_interpreter'):
            return Recv('sub', 's.sub', 'sub')
        return None

    # ---- calls on interpreter objects ----------------------------------------------------------
    def itp_call(self, r, name, args, pre):
        """`obj.name(args)`: returns (value, type)"""
        iface = self.g.iface
        if name not in iface:
            raise TrErr(f'{name} is not a method of the interpreter interface')
        params, ret = iface[name]
        if len(args) != len(params):
            raise TrErr(f'{name}: {len(args)} arguments for {len(params)} parameters')
        parts = [f'{r.obj}.{lname(name)}', r.st]
        for a, (_, pty) in zip(args, params):
            v, ty = self.e(a, pre)
            parts.append(self.co(v, ty, pty))
        self.need_eff()
        head = ' '.join(parts)
        if r is self.recv.get('self'):
            self.uses_selfobj = True
        if r.field is None:
            if ret == 'Unit':
                pre.append(f'call ({head}) fun {r.st} =>')
                return '()', 'Unit'
            t = self.fresh()
            pre.append(f'call ({head}) fun ({r.st}, {t}) =>')
            return t, ret
        t1 = self.fresh()
        if ret == 'Unit':
            pre.append(f'call ({head}) fun {t1} =>')
            pre.append(f'let s := {{ s with {r.field} := {t1} }}')
            return '()', 'Unit'
        t2 = self.fresh()
        pre.append(f'call ({head}) fun ({t1}, {t2}) =>')
        pre.append(f'let s := {{ s with {r.field} := {t1} }}')
        return t2, ret

    def apply_thunk(self, tv, arg, pre):
        r = self.receiver(arg)
        if r is None or r.field is not None:
            raise TrErr('a proof thunk applied to something that is not an interpreter: ' + ast.unparse(arg))
        self.need_eff()
        self.fuel = True
        t = self.fresh()
        pre.append(f'call (ProofThunk.__call__ n {tv} {r.obj} {r.st}) fun ({r.st}, {t}) =>')
        return t, 'Proved'

    def sig_call(self, sig, recv_self, args, keywords, pre, src):
        """a call of an already translated function of proof.py"""
        names = [p for p, _, _ in sig.params]
        if len(args) > len(names):
            raise TrErr('too many arguments: ' + src)
        got = dict(zip(names, args))
        for kw in keywords:
            if kw.arg is None or kw.arg not in names or kw.arg in got:
                raise TrErr('keyword argument: ' + src)
            got[kw.arg] = kw.value
        parts = [sig.lean]
        if sig.fuel:
            self.fuel = True
            parts.append('n')
        if sig.self_ty:
            parts.append(recv_self)
        r = None
        for p, pty, dflt in sig.params:
            if pty == 'ITP':
                if p not in got:
                    raise TrErr('missing interpreter argument: ' + src)
                r = self.receiver(got[p])
                if r is None or r.field is not None:
                    raise TrErr('not an interpreter: ' + ast.unparse(got[p]))
                parts += [r.obj, r.st]
            elif p in got:
                v, ty = self.e(got[p], pre)
                parts.append(self.co(v, ty, pty))
            elif dflt is not None:
                parts.append(dflt)
            else:
                raise TrErr(f'missing argument {p}: ' + src)
        head = ' '.join(parts)
        if sig.interp:
            self.need_eff()
            if sig.ret == 'Unit':
                pre.append(f'call ({head}) fun {r.st} =>')
                return '()', 'Unit'
            t = self.fresh()
            pre.append(f'call ({head}) fun ({r.st}, {t}) =>')
            return t, sig.ret
        if sig.eff:
            self.need_eff()
            t = self.fresh()
            pre.append(f'call ({head}) fun {t} =>')
            return t, sig.ret
        return f'({head})', sig.ret

    # ---- expressions -----------------------------------------------------------------------------
    def e(self, x, pre):
        g = self.g
        if isinstance(x, ast.Name):
            if x.id in self.env:
                return self.env[x.id]
            if x.id in g.globals:
                return g.globals[x.id]
            raise TrErr(f'unknown name {x.id}')
        if isinstance(x, ast.Constant):
            if isinstance(x.value, bool):
                return ('true' if x.value else 'false'), 'Bool'
            if isinstance(x.value, int):
                return str(x.value), 'Nat'
            if isinstance(x.value, str):
                return 'noStr', 'Str'
            raise TrErr('constant ' + ast.unparse(x))
        if isinstance(x, ast.JoinedStr):
            return 'noStr', 'Str'
        if isinstance(x, ast.Lambda):
            return self.closure(x.args, [ast.Return(value=x.body)], 'Proved'), 'Fn'
        if isinstance(x, ast.Attribute):
            return self.attribute(x, pre)
        if isinstance(x, ast.UnaryOp) and isinstance(x.op, ast.Not):
            v, ty = self.e(x.operand, pre)
            if ty == 'Delta':
                return f'{v}.isEmpty', 'Bool'
            return f'(!{self.truth(v, ty)})', 'Bool'
        if isinstance(x, ast.BoolOp) and isinstance(x.op, ast.And) and len(x.values) == 2:
            a, aty = self.e(x.values[0], pre)
            a = self.truth(a, aty)
            pre2 = []
            b, bty = self.e(x.values[1], pre2)
            b = self.truth(b, bty)
            if not pre2:
                return f'({a} && {b})', 'Bool'
            # the right operand is evaluated only if the left one holds
            self.need_eff()
            t = self.fresh()
            pre.append(f'andAlso {a} (fun k =>')
            pre.extend('  ' + l for l in pre2)
            pre.append(f'  k {b}) fun {t} =>')
            return t, 'Bool'
        if isinstance(x, ast.Compare) and len(x.ops) == 1:
            return self.compare(x, pre)
        if isinstance(x, ast.Call):
            return self.call(x, pre)
        raise TrErr('expression ' + ast.unparse(x))

    def truth(self, v, ty):
        if ty == 'Bool':
            return v
        if ty == 'Nat':
            return f'({v} != 0)'
        if ty == 'Delta':
            return f'(!{v}.isEmpty)'
        raise TrErr(f'truth value of a {ty}')

    def attribute(self, x, pre):
        if self.is_name(x.value, 'self'):
            if x.attr in self.attr_params:
                return self.attr_params[x.attr]
            if x.attr == 'phase' and self.mode == 'base':
                return 's', 'Phase'
            if x.attr == 'phase' and self.mode == 'tr':
                return 's.phase', 'Phase'
            if self.self_ty == 'Thunk' and x.attr in ('conc', '_expr'):
                self.uses_self = True
                return (f'(ProofThunk.{x.attr} self)', 'Pat' if x.attr == 'conc' else 'Fn')
            if self.self_ty == 'Exp' and x.attr in g_exp_attrs:
                self.uses_self = True
                return f'(ProofExp.{x.attr} self)', g_exp_attrs[x.attr]
            raise TrErr('attribute ' + ast.unparse(x))
        if self.is_name(x.value, 'ExecutionPhase') and x.attr in PHASES:
            return PHASES[x.attr], 'Phase'
        r = self.receiver(x.value)
        if r is not None:
            if x.attr == 'phase':
                return f'({r.obj}.phase {r.st})', 'Phase'
            if x.attr == 'memory':
                return f'({r.obj}.memory {r.st})', 'Mem'
            raise TrErr('attribute ' + ast.unparse(x))
        v, ty = self.e(x.value, pre)
        if x.attr == 'conclusion' and ty == 'Proved':
            return f'(Proved.conclusion {v})', 'Pat'
        if x.attr == 'conc' and ty == 'Thunk':
            return f'(ProofThunk.conc {v})', 'Pat'
        if x.attr == 'name' and ty in ('EVarO', 'SVarO'):
            return v, 'Nat'
        raise TrErr('attribute ' + ast.unparse(x))

    def compare(self, x, pre):
        op = x.ops[0]
        rhs = x.comparators[0]
        if isinstance(op, ast.In):
            l, lt = self.e(x.left, pre)
            if self.is_self_attr(rhs) and rhs.attr in self.attr_params and self.attr_params[rhs.attr][1] == 'MemoSet':
                return f'(inSet {self.co(l, lt, "Pat")} {self.attr_params[rhs.attr][0]})', 'Bool'
            r, rt = self.e(rhs, pre)
            self.fuel = True
            self.need_eff()
            t = self.fresh()
            if rt == 'Mem':
                pre.append(f'fuel (memF n {self.co(l, lt, "Term")} {r}) fun {t} =>')
                return t, 'Bool'
            if rt == 'PatList':
                pre.append(f'fuel (patMemF n {self.co(l, lt, "Pat")} {r}) fun {t} =>')
                return t, 'Bool'
            raise TrErr('membership in a ' + rt)
        l, lt = self.e(x.left, pre)
        r, rt = self.e(rhs, pre)
        if isinstance(op, ast.Eq):
            if lt == 'Phase' and rt == 'Phase':
                return f'(decide ({l} = {r}))', 'Bool'
            pats = ('Pat', 'EVarO', 'SVarO')
            if lt in pats and rt in pats:
                self.fuel = True
                self.need_eff()
                t = self.fresh()
                pre.append(f'fuel (NPat.peqF n {self.co(l, lt, "Pat")} {self.co(r, rt, "Pat")}) fun {t} =>')
                return t, 'Bool'
            raise TrErr(f'comparison of a {lt} with a {rt}: ' + ast.unparse(x))
        raise TrErr('comparison ' + ast.unparse(x))

    def isinstance_(self, x, pre):
        if len(x.args) != 2 or x.keywords:
            raise TrErr('call ' + ast.unparse(x))
        classes = ast.unparse(x.args[1])
        r = self.receiver(x.args[0])
        if r is not None:
            if classes == 'StatefulInterpreter':
                return f'{r.obj}.isStateful', 'Bool'
            raise TrErr('call ' + ast.unparse(x))
        v, ty = self.e(x.args[0], pre)
        if ty == 'EVarO' and classes == 'EVar' or ty == 'SVarO' and classes == 'SVar':
            return 'true', 'Bool'          # the `var` field of a substitution is its variable: holds by typing
        if ty == 'Pat' and classes == 'MetaVar | ESubst | SSubst':
            return f'(NPat.isMetaHead {v})', 'Bool'
        raise TrErr('call ' + ast.unparse(x))

    def call(self, x, pre):
        f = x.func
        src = ast.unparse(x)
        g = self.g
        if isinstance(f, ast.Name):
            if f.id == 'isinstance':
                return self.isinstance_(x, pre)
            if f.id in ('str', 'repr') and len(x.args) == 1 and not x.keywords:
                return 'noStr', 'Str'
            if f.id in ('EVar', 'SVar') and len(x.args) == 1 and not x.keywords:
                v, ty = self.e(x.args[0], pre)
                return self.co(v, ty, 'Nat'), ('EVarO' if f.id == 'EVar' else 'SVarO')
            if f.id in CTORS and f.id != 'Instantiate':
                con, kinds, _ = CTORS[f.id]
                if x.keywords or len(x.args) > len(kinds):
                    raise TrErr('constructor call ' + src)
                parts = []
                for i, k in enumerate(kinds):
                    if i < len(x.args):
                        v, ty = self.e(x.args[i], pre)
                        parts.append(self.co(v, ty, KIND_TY[k]))
                    elif f.id == 'MetaVar' and k == 'V':
                        parts.append('[]')          # dataclass default `()`, checked against pattern.py
                    else:
                        raise TrErr('constructor call ' + src)
                return f'(NPat.{con} {" ".join(parts)})', 'Pat'
            if f.id == 'Proved' and len(x.args) == 1 and not x.keywords:
                v, ty = self.e(x.args[0], pre)
                return f'(Proved.mk {self.co(v, ty, "Pat")})', 'Proved'
            if f.id == 'ProofThunk' and len(x.args) == 2 and not x.keywords:
                fv, fty = self.e(x.args[0], pre)
                cv, cty = self.e(x.args[1], pre)
                if fty != 'Fn':
                    raise TrErr('ProofThunk of a ' + fty)
                return f'(ProofThunk.mk {fv} {self.co(cv, cty, "Pat")})', 'Thunk'
            if f.id == 'bot' and not x.args and not x.keywords:
                if not g.bot_ok:
                    raise TrErr('bot() but the notation `bot` of pattern.py could not be translated')
                return 'Gen.PyInterp.bot', 'Pat'
            if f.id == 'len' and len(x.args) == 1:
                v, ty = self.e(x.args[0], pre)
                if ty == 'Delta':
                    return f'{v}.length', 'Nat'
            if f.id == 'dict' and len(x.args) == 1 and not x.keywords:
                v, ty = self.e(x.args[0], pre)
                if ty == 'Delta':
                    return f'(dictCopy {v})', 'Delta'
            if f.id == 'reversed' and len(x.args) == 1 and not x.keywords:
                v, ty = self.e(x.args[0], pre)
                if ty in ('PatList', 'ThunkList', 'ExpList'):
                    return f'(pyReversed {v})', ty
            if f.id == 'BasicInterpreter' and len(x.args) == 1 and not x.keywords:
                v, ty = self.e(x.args[0], pre)
                if ty == 'Phase':
                    return v, 'Basic'
            if isinstance(f, ast.Name) and f.id in self.env and self.env[f.id][1] == 'Thunk' and len(x.args) == 1 and not x.keywords:
                return self.apply_thunk(self.env[f.id][0], x.args[0], pre)
            raise TrErr('call ' + src)
        if isinstance(f, ast.Call):
            # e(...)(interpreter): the application of a thunk-valued expression
            tv, tty = self.e(f, pre)
            if tty == 'Thunk' and len(x.args) == 1 and not x.keywords:
                return self.apply_thunk(tv, x.args[0], pre)
            raise TrErr('call ' + src)
        if isinstance(f, ast.Attribute):
            # Implies.extract(e)
            if self.is_name(f.value, 'Implies') and f.attr == 'extract' and len(x.args) == 1:
                v, ty = self.e(x.args[0], pre)
                self.fuel = True
                self.need_eff()
                a, b = self.fresh(), self.fresh()
                pre.append(f'extractImplies n {self.co(v, ty, "Pat")} fun {a} {b} =>')
                return f'({a}, {b})', 'PatPair'
            # super().m(...)
            if isinstance(f.value, ast.Call) and self.is_name(f.value.func, 'super') and not f.value.args:
                return self.super_call(x, f.attr, pre)
            # interpreter.m(...)
            r = self.receiver(f.value)
            if r is not None:
                if x.keywords:
                    raise TrErr('keyword argument: ' + src)
                if f.attr == 'finalize' and not x.args and r.obj in g.finalizable:
                    return f'(finalize {r.st})', 'MemoSet'
                return self.itp_call(r, f.attr, x.args, pre)
            # self.<function of the same class>(...)
            if self.is_name(f.value, 'self'):
                if f.attr == 'check_interpreting':
                    if not g.check_interpreting_ok:
                        raise TrErr('check_interpreting does more than printing')
                    return '()', 'Diag'
                key = (self.g.cur_class, f.attr)
                if key in g.sigs:
                    self.uses_self = self.uses_self or bool(g.sigs[key].self_ty)
                    return self.sig_call(g.sigs[key], 'self', x.args, x.keywords, pre, src)
                raise TrErr(f'self.{f.attr}: not (yet) translated')
            if f.attr in ('items', 'values') and not x.args:
                v, ty = self.e(f.value, pre)
                if ty == 'Delta':
                    return (f'(deltaItems {v})', 'Items') if f.attr == 'items' else (f'(deltaValues {v})', 'PatList')
            if f.attr == 'instantiate' and len(x.args) == 1 and not x.keywords:
                v, ty = self.e(f.value, pre)
                if ty == 'Pat':
                    a, aty = self.e(x.args[0], pre)
                    if aty == 'Delta':
                        self.fuel = True
                        self.need_eff()
                        t = self.fresh()
                        pre.append(f'fuel (NPat.instF n {a} {v}) fun {t} =>')
                        return t, 'Pat'
            if f.attr in ('instantiate', 'instantiate_pattern') and len(x.args) == 2 and not x.keywords:
                v, ty = self.e(f.value, pre)
                if ty == 'Basic':
                    a, aty = self.e(x.args[0], pre)
                    d, dty = self.e(x.args[1], pre)
                    if dty == 'Delta' and f.attr == 'instantiate' and aty == 'Proved':
                        self.fuel = True
                        self.need_eff()
                        t = self.fresh()
                        pre.append(f'call (Gen.PyInterp.Basic.instantiate n {a} {d}) fun {t} =>')
                        return t, 'Proved'
                    if dty == 'Delta' and f.attr == 'instantiate_pattern' and aty == 'Pat':
                        return f'(Gen.PyInterp.Basic.instantiate_pattern {a} {d})', 'Pat'
            # <module>.<function of ProofExp>(...)
            v, ty = self.e(f.value, pre)
            if ty == 'Exp' and ('ProofExp', f.attr) in g.sigs:
                return self.sig_call(g.sigs[('ProofExp', f.attr)], v, x.args, x.keywords, pre, src)
            if ty == 'Exp' and f.attr == g.cur_fn:
                return self.sig_call(g.rec_sig, v, x.args, x.keywords, pre, src)
        raise TrErr('call ' + src)

    def super_call(self, x, name, pre):
        g = self.g
        if x.keywords:
            raise TrErr('keyword argument: ' + ast.unparse(x))
        if self.mode == 'tr' and g.cur_class == 'InterpreterTransformer' and name in ('into_claim_phase', 'into_proof_phase') and not x.args:
            # the base class `Interpreter`: its state is the attribute `phase`
            if ('Interpreter', name) not in g.sigs:
                raise TrErr(f'super().{name}: not translated')
            self.need_eff()
            t = self.fresh()
            pre.append(f'call (Interpreter.{name} s.phase) fun {t} =>')
            pre.append(f'let s := {{ s with phase := {t} }}')
            return '()', 'Unit'
        if self.mode == 'tr' and g.cur_class == 'MemoizingInterpreter' and name == 'pattern' and len(x.args) == 1:
            # `InterpreterTransformer` does not define `pattern`: the next class in the MRO is `Interpreter`
            if 'pattern' in g.class_methods.get('InterpreterTransformer', []) or ('Interpreter', 'pattern') not in g.sigs:
                raise TrErr('super().pattern: method resolution')
            v, ty = self.e(x.args[0], pre)
            self.need_eff()
            self.uses_selfobj = True
            t = self.fresh()
            pre.append(f'call (Interpreter.pattern self s {self.co(v, ty, "Pat")}) fun (s, {t}) =>')
            return t, 'Pat'
        raise TrErr(f'super().{name}')

    # ---- closures ----------------------------------------------------------------------------------
    def closure(self, args, body, ret):
        """`lambda interpreter: e` / `def f(interpreter): …` -> `(fun n I s => …)`"""
        if args.vararg or args.kwarg or args.kwonlyargs or args.posonlyargs or args.defaults or len(args.args) != 1:
            raise TrErr('parameter list of a closure')
        p = args.args[0]
        if p.annotation is not None and ast.unparse(p.annotation) != 'Interpreter':
            raise TrErr('parameter of a closure: ' + ast.unparse(p.annotation))
        sub = Tr(self.g, 'lambda', True, ret, True, self.self_ty)
        sub.env = dict(self.env)
        sub.attr_params = dict(self.attr_params)
        sub.recv = {p.arg: Recv('I', 's')}
        sub.tmp = self.tmp
        lines = sub.block(body, None)
        self.tmp = sub.tmp
        self.uses_self = self.uses_self or sub.uses_self
        return '(fun n I s =>\n' + '\n'.join('    ' + l for l in lines) + ')'

    # ---- statements ----------------------------------------------------------------------------------
    loop_state = None

    def final(self, v):
        if self.loop_state is not None:
            return f'ret {self.loop_state}'
        if self.stateful:
            return 'ret s' if self.ret == 'Unit' else f'ret (s, {v})'
        if self.ret == 'Unit':
            v = '()'
        return f'ret {v}' if self.eff else v

    def bind(self, out, name, v, ty):
        if ty in ('PatPair', 'Diag', 'Unit', 'Items', 'ITP'):
            raise TrErr(f'a {ty} assigned to a name')
        if ty in ('Basic', 'Mem'):
            self.env[name] = (v, ty)
            return
        if ty == 'Fn':
            out.append(f'let v_{name} : Nat → Interp σ → σ → Py (σ × Proved) := {v}')
        else:
            if ty not in LEAN_TY:
                raise TrErr(f'a local of type {ty}')
            out.append(f'let v_{name} : {LEAN_TY[ty]} := {v}')
        self.env[name] = ('v_' + name, ty)

    def stmt(self, st, rest, out):
        """translate one statement; returns True if it consumed `rest`"""
        src = ast.unparse(st).split('\n')
        if isinstance(st, ast.Expr) and isinstance(st.value, ast.Constant) and (st.value.value is Ellipsis or isinstance(st.value.value, str)):
            return False
        out.append('-- ' + src[0] + (' …' if len(src) > 1 else ''))
        pre = []
        if isinstance(st, ast.AnnAssign) and isinstance(st.target, ast.Name) and st.value is not None:
            want = ann_ty(st.annotation)
            v, ty = self.e(st.value, pre)
            out += pre
            self.bind(out, st.target.id, self.co(v, ty, want), want)
            return False
        if isinstance(st, ast.Assign) and len(st.targets) == 1:
            tg = st.targets[0]
            if isinstance(tg, ast.Name):
                v, ty = self.e(st.value, pre)
                out += pre
                self.bind(out, tg.id, v, ty)
                return False
            if isinstance(tg, ast.Tuple) and len(tg.elts) == 2 and all(isinstance(t, ast.Name) for t in tg.elts):
                v, ty = self.e(st.value, pre)
                out += pre
                if ty != 'PatPair':
                    raise TrErr('unpacking of a ' + ty)
                out.append(f'let (v_{tg.elts[0].id}, v_{tg.elts[1].id}) := {v}')
                for t in tg.elts:
                    self.env[t.id] = ('v_' + t.id, 'Pat')
                return False
            if isinstance(tg, ast.Subscript) and isinstance(tg.value, ast.Name) and tg.value.id in self.env:
                d, dty = self.env[tg.value.id]
                k, kty = self.e(tg.slice, pre)
                v, ty = self.e(st.value, pre)
                out += pre
                if dty != 'Delta' or kty != 'Nat' or tg.value.id not in self.dict_keys.get(ast.unparse(tg.slice), ()):
                    raise TrErr('item assignment ' + src[0])
                out.append(f'let {d} : {LEAN_TY["Delta"]} := dictSet {d} {k} {self.co(v, ty, "Pat")}')
                return False
            if self.mode == 'base' and self.is_self_attr(tg, 'phase'):
                v, ty = self.e(st.value, pre)
                out += pre
                if ty != 'Phase':
                    raise TrErr('assignment ' + src[0])
                out.append(f'let s : Phase := {v}')
                return False
            raise TrErr('assignment target ' + ast.unparse(tg))
        if isinstance(st, ast.Assert):
            v, ty = self.e(st.test, pre)
            out += pre
            self.need_eff()
            out.append(f'assert_ {self.truth(v, ty)} <|')
            return False
        if isinstance(st, ast.Return):
            if st.value is None:
                out.append(self.final(None))
            else:
                v, ty = self.e(st.value, pre)
                out += pre
                out.append(self.final(self.co(v, ty, self.ret)))
            return False
        if isinstance(st, ast.Raise):
            self.need_eff()
            out.append('raise')
            return False
        if isinstance(st, ast.Expr) and isinstance(st.value, ast.Call):
            v, ty = self.e(st.value, pre)
            if not pre and ty != 'Diag':
                raise TrErr('a call without effect: ' + src[0])
            out += pre
            if ty == 'Diag':
                out.append('-- (diagnostics only: prints the warnings of the interpreter)')
            return False
        if isinstance(st, ast.FunctionDef):
            if st.decorator_list or (st.returns is not None and ast.unparse(st.returns) != 'Proved'):
                raise TrErr('nested function ' + st.name)
            self.check_capture(st, rest)
            v = self.closure(st.args, st.body, 'Proved')
            self.bind(out, st.name, v, 'Fn')
            return False
        if isinstance(st, ast.If):
            return self.if_stmt(st, rest, out)
        if isinstance(st, ast.For):
            return self.for_stmt(st, out)
        if isinstance(st, ast.Match):
            return self.match_stmt(st, rest, out)
        raise TrErr('statement ' + src[0])

    dict_keys = {}

    def check_capture(self, fn, rest):
        """a closure captures variables, Lean captures values: no captured name may be assigned after the closure was made"""
        free = {n.id for n in ast.walk(fn) if isinstance(n, ast.Name)}
        for st in rest:
            for n in ast.walk(st):
                if isinstance(n, ast.Name) and isinstance(n.ctx, ast.Store) and n.id in free:
                    raise TrErr(f'`{n.id}` is assigned after the closure `{fn.name}` captured it')

    def returns(self, stmts):
        if not stmts:
            return False
        last = stmts[-1]
        if isinstance(last, (ast.Return, ast.Raise)):
            return True
        if isinstance(last, ast.If) and last.orelse:
            return self.returns(last.body) and self.returns(last.orelse)
        return False

    def if_stmt(self, st, rest, out):
        pre = []
        c, cty = self.e(st.test, pre)
        out += pre
        c = self.truth(c, cty)
        if self.returns(st.body):
            env, recv = dict(self.env), dict(self.recv)
            out.append(f'if {c} then')
            out += ['  ' + l for l in self.block(st.body, None)]
            self.env, self.recv = dict(env), dict(recv)
            out.append('else')
            if st.orelse:
                if not self.returns(st.orelse):
                    raise TrErr('if/else: only one branch returns')
                if rest:
                    raise TrErr('statement after return')
                out += ['  ' + l for l in self.block(st.orelse, None)]
            else:
                out += ['  ' + l for l in self.block(rest, 'fall')]
            self.env, self.recv = env, recv
            return True
        if st.orelse and self.returns(st.orelse):
            raise TrErr('if/else: only one branch returns')
        # joined on the interpreter state: the branches only call
        if not self.stateful:
            raise TrErr('`if` without a state to join')
        for b in (st.body, st.orelse):
            for s_ in b:
                for n in ast.walk(s_):
                    if isinstance(n, ast.Name) and isinstance(n.ctx, ast.Store):
                        raise TrErr(f'`{n.id}` is assigned in a joined `if` branch')
        self.need_eff()
        env = dict(self.env)
        save = (self.ret, self.loop_state)
        self.ret = 'Unit'
        self.loop_state = None
        try:
            out.append(f'call (if {c} then')
            out += ['    ' + l for l in self.block(st.body, 'fall')]
            out.append('  else')
            out += ['    ' + l for l in (self.block(st.orelse, 'fall') if st.orelse else [self.final(None)])]
            out.append('  ) fun s =>')
        finally:
            self.ret, self.loop_state = save
        self.env = env
        return False

    def for_stmt(self, st, out):
        if st.orelse:
            raise TrErr('for/else')
        if not self.stateful:
            raise TrErr('a loop without an interpreter state')
        pre = []
        it, ity = self.e(st.iter, pre)
        out += pre
        tg = st.target
        env = dict(self.env)
        if ity == 'Items' and isinstance(tg, ast.Tuple) and len(tg.elts) == 2 and all(isinstance(t, ast.Name) for t in tg.elts):
            binder = f'(v_{tg.elts[0].id}, v_{tg.elts[1].id})'
            self.env[tg.elts[0].id] = ('v_' + tg.elts[0].id, 'Nat')
            self.env[tg.elts[1].id] = ('v_' + tg.elts[1].id, 'Pat')
            # `d[k] = …` inside the loop is an update of a present key if `k` is the loop's key variable over `d.items()`
            d = st.iter.func.value
            if isinstance(d, ast.Name):
                self.dict_keys = {tg.elts[0].id: (d.id,)}
        elif isinstance(tg, ast.Name) and ity in ('PatList', 'ThunkList', 'ExpList'):
            binder = 'v_' + tg.id
            self.env[tg.id] = ('v_' + tg.id, {'PatList': 'Pat', 'ThunkList': 'Thunk', 'ExpList': 'Exp'}[ity])
        else:
            raise TrErr('loop ' + ast.unparse(st).split('\n')[0])
        # loop-carried variables: locals of the enclosing function that the body assigns
        carried = []
        for s_ in st.body:
            for n in ast.walk(s_):
                nm = None
                if isinstance(n, ast.Name) and isinstance(n.ctx, ast.Store):
                    nm = n.id
                if isinstance(n, ast.Subscript) and isinstance(n.ctx, ast.Store) and isinstance(n.value, ast.Name):
                    nm = n.value.id
                if nm is not None and nm in env and nm not in carried:
                    carried.append(nm)
                elif nm is not None and nm not in env and not (isinstance(tg, ast.Name) and nm == tg.id):
                    if not (isinstance(tg, ast.Tuple) and nm in [t.id for t in tg.elts]):
                        raise TrErr(f'`{nm}` is first assigned inside a loop')
        for nm in carried:
            if env[nm][1] not in LEAN_TY:
                raise TrErr(f'loop-carried `{nm}`')
        state = 's' if not carried else '(s, ' + ', '.join(env[nm][0] for nm in carried) + ')'
        self.need_eff()
        if any(isinstance(n, (ast.Return, ast.Break, ast.Continue)) for s_ in st.body for n in ast.walk(s_)):
            raise TrErr('return / break / continue inside a loop')
        saved = (self.ret, self.loop_state)
        self.ret = 'Unit'
        self.loop_state = state
        try:
            out.append(f'forEach {it} {state} (fun {binder} {state} =>')
            out += ['    ' + l for l in self.block(st.body, 'fall')]
            out.append(f'  ) fun {state} =>')
        finally:
            self.ret, self.loop_state = saved
        self.dict_keys = {}
        self.env = env
        return False

    def match_stmt(self, st, rest, out):
        """`match p: case C(a, b): … return …`; `rest` (the code after the match) is what runs when no case matches"""
        subj, sty = self.e(st.subject, [])
        if sty != 'Pat':
            raise TrErr('match on a ' + sty)
        out.append(f'match {subj} with')
        seen = []
        for case in st.cases:
            pt = case.pattern
            if case.guard is not None or not isinstance(pt, ast.MatchClass) or pt.kwd_attrs or not isinstance(pt.cls, ast.Name) \
                    or pt.cls.id not in CTORS:
                raise TrErr('case ' + ast.unparse(pt))
            cname = pt.cls.id
            con, kinds, _ = CTORS[cname]
            if cname in seen:
                raise TrErr(f'two cases for {cname}')
            seen.append(cname)
            if len(pt.patterns) != len(kinds) or not all(isinstance(q, ast.MatchAs) and q.pattern is None and q.name for q in pt.patterns):
                raise TrErr('case ' + ast.unparse(pt))
            env = dict(self.env)
            names = []
            for q, k in zip(pt.patterns, kinds):
                self.env[q.name] = ('v_' + q.name, KIND_TY[k])
                names.append('v_' + q.name)
            out.append(f'| NPat.{con} {" ".join(names)} =>')
            out.append('  -- case ' + ast.unparse(pt) + ':')
            if not self.returns(case.body):
                raise TrErr(f'case {cname} can fall through')
            out += ['  ' + l for l in self.block(case.body, None)]
            self.env = env
        if len(seen) < len(CTORS):
            out.append('| _ =>')
            out += ['  ' + l for l in self.block(rest, 'fall')]
        else:
            # every class of `Pattern` has a case: the code after the match is unreachable; it must be a `raise`
            if not (len(rest) == 1 and isinstance(rest[0], ast.Raise)):
                raise TrErr('code after an exhaustive match')
            out.append('-- (unreachable: every class of Pattern has a case)  ' + ast.unparse(rest[0]))
        return True

    def block(self, stmts, tail):
        out = []
        done = False
        for i, st in enumerate(stmts):
            if done:
                raise TrErr('statement after return')
            if self.stmt(st, stmts[i + 1:], out):
                return out
            done = isinstance(st, (ast.Return, ast.Raise))
        if not done:
            if tail != 'fall':
                raise TrErr('a block that has to return does not')
            if self.ret != 'Unit':
                raise TrErr('the function can end without `return`')
            out.append(self.final(None))
        return out


g_exp_attrs = {'_axioms': 'PatList', '_claims': 'PatList', '_proof_expressions': 'ThunkList', '_submodules': 'ExpList'}


class Gen:
    def __init__(self, srcdir):
        self.srcdir = srcdir
        self.default = os.path.join(core.PYSRC, 'proof_generation')
        self.problems = []
        self.ok = True
        self.lines = []
        self.sigs = {}
        self.iface = {}
        self.globals = {}
        self.class_methods = {}
        self.bot_ok = False
        self.check_interpreting_ok = False
        self.finalizable = set()
        self.cur_class = self.cur_fn = None
        self.rec_sig = None

    def problem(self, msg):
        self.problems.append('PyProof: ' + msg)
        self.ok = False

    def source(self, f):
        p = os.path.join(self.srcdir, f) if self.srcdir and os.path.exists(os.path.join(self.srcdir, f)) else os.path.join(self.default, f)
        return ast.parse(open(p, encoding='utf-8').read())

    def cls(self, tree, name, fname, bases):
        c = next((n for n in tree.body if isinstance(n, ast.ClassDef) and n.name == name), None)
        if c is None:
            self.problem(f'class {name} not found in {fname}')
            return None
        got = [ast.unparse(b) for b in c.bases]
        if got != bases:
            self.problem(f'{name} has base classes {got}, expected {bases}')
        self.class_methods[name] = [n.name for n in c.body if isinstance(n, ast.FunctionDef)]
        return c

    def method(self, c, name):
        m = next((n for n in c.body if isinstance(n, ast.FunctionDef) and n.name == name), None)
        if m is None:
            self.problem(f'{c.name}.{name} not found')
        return m

    # ---- one function ---------------------------------------------------------------------------------
    def emit(self, cname, fn, mode, self_ty=None, attr_params=None, extra_binders='', lean_name=None, doc=None):
        """translate `fn` and append it; returns its Sig or None"""
        lean_name = lean_name or f'{cname}.{lname(fn.name)}'
        self.cur_class, self.cur_fn = cname, fn.name
        try:
            sig, text = self.translate(cname, fn, mode, self_ty, attr_params or {}, extra_binders, lean_name)
        except TrErr as ex:
            self.problem(f'{cname}.{fn.name}: {ex}')
            self.lines.append(f'-- NOT TRANSLATED: {cname}.{fn.name}: {ex}')
            return None
        self.lines.append(f'/-- `{cname}.{fn.name}` (line {fn.lineno}){doc or ""} -/')
        self.lines += text
        self.sigs[(cname, fn.name)] = sig
        return sig

    def translate(self, cname, fn, mode, self_ty, attr_params, extra_binders, lean_name):
        a = fn.args
        if a.vararg or a.kwarg or a.kwonlyargs or a.posonlyargs or fn.decorator_list:
            raise TrErr('parameter list / decorators')
        if not a.args or a.args[0].arg != 'self':
            raise TrErr('no self parameter')
        ps = a.args[1:]
        defaults = [None] * (len(ps) - len(a.defaults)) + list(a.defaults)
        params = []
        for p, d in zip(ps, defaults):
            ty = ann_ty(p.annotation)
            dl = None
            if d is not None:
                if isinstance(d, ast.Constant) and isinstance(d.value, bool) and ty == 'Bool':
                    dl = 'true' if d.value else 'false'
                elif isinstance(d, ast.Constant) and d.value is None and ty == 'OptMemoSet':
                    dl = 'none'
                elif isinstance(d, ast.Tuple) and not d.elts and ty == 'Vars':
                    dl = '[]'
                else:
                    raise TrErr('default value ' + ast.unparse(d))
            params.append((p.arg, ty, dl))
        ret = ann_ty(fn.returns)
        interp = any(ty == 'ITP' for _, ty, _ in params)
        stateful = interp or mode in ('base', 'itp', 'tr')
        not_modules = {'self'} | {p for p, ty, _ in params if ty == 'ITP'}
        for n in ast.walk(fn):
            if isinstance(n, (ast.Lambda, ast.FunctionDef)) and n is not fn:
                not_modules |= {p.arg for p in n.args.args}
        recursive = mode == 'exp' and any(
            isinstance(n, ast.Call) and isinstance(n.func, ast.Attribute) and n.func.attr == fn.name
            and isinstance(n.func.value, ast.Name) and n.func.value.id not in not_modules for n in ast.walk(fn))
        for eff in ((True,) if stateful else (False, True)):
            tr = Tr(self, mode, eff, ret, stateful, self_ty)
            tr.attr_params = dict(attr_params)
            for p, ty, _ in params:
                if ty == 'ITP':
                    tr.recv[p] = Recv('I', 's')
                else:
                    tr.env[p] = ('a_' + p, ty)
            if mode == 'itp':
                tr.recv['self'] = Recv('self', 's')
            if mode == 'tr':
                tr.recv['self'] = Recv('self', 's')
            if recursive:
                self.rec_sig = Sig(lean_name, params, ret, True, 'Exp', interp, True)
            try:
                body = tr.block(fn.body, 'fall')
            except NeedEff:
                continue
            finally:
                self.rec_sig = None
            fuel = tr.fuel or recursive
            uses_self = tr.uses_self or recursive
            sig = Sig(lean_name, params, ret, fuel, self_ty if (self_ty and uses_self) else None, interp, eff)
            if stateful:
                sty = {'base': 'Phase', 'tr': 'TrSt σ'}.get(mode, 'σ')
                rty = f'Py ({sty})' if ret == 'Unit' else f'Py ({sty} × {LEAN_TY[ret]})'
            else:
                rty = f'Py ({LEAN_TY[ret]})' if eff else LEAN_TY[ret]
            binders = []          # (binder text, type text, pattern name)
            if fuel:
                binders.append(('n', 'Nat'))
            if mode == 'tr':
                binders.append(('sub', 'Interp σ'))
            for _, (lean, aty) in attr_params.items():
                binders.append((lean, LEAN_TY[aty]))
            if mode == 'itp' or (mode == 'tr' and tr.uses_selfobj):
                binders.append(('self', 'Interp σ' if mode == 'itp' else 'Interp (TrSt σ)'))
            if sig.self_ty:
                binders.append(('self', LEAN_TY[self_ty]))
            if mode in ('base', 'itp', 'tr'):
                binders.append(('s', {'base': 'Phase', 'itp': 'σ', 'tr': 'TrSt σ'}[mode]))
            for p, ty, _ in params:
                if ty == 'ITP':
                    binders += [('I', 'Interp σ'), ('s', 'σ')]
                else:
                    binders.append(('a_' + p, LEAN_TY[ty]))
            sig.selfobj = mode == 'tr' and tr.uses_selfobj
            if recursive:
                lines = [f'def {lean_name} : ' + ' → '.join(t for _, t in binders) + f' → {rty}',
                         '  | 0' + ', _' * (len(binders) - 1) + ' => none',
                         '  | n + 1, ' + ', '.join(b for b, _ in binders[1:]) + ' =>']
                lines += ['    ' + l for l in body]
            else:
                lines = [f'def {lean_name}' + ''.join(f' ({b} : {t})' for b, t in binders) + f' : {rty} :=']
                lines += ['  ' + l for l in body]
            return sig, lines
        raise TrErr('internal: effect analysis')

    # ---- the files ---------------------------------------------------------------------------------------
    def run(self):
        L = self.lines
        L += ['import Pi2.ProofSupport',
              'import Pi2.Gen.PyInterp',
              '/-! GENERATED by /verif/vlib/transproof.py from `ProofThunk` / `ProofExp` (proof.py), `Interpreter.pattern` and the',
              'phase changes (interpreter.py), `InterpreterTransformer` (interpreter_transformer.py), `InstantiationOptimizer` /',
              '`MemoizingInterpreter` (optimizing_interpreters.py) of generation/src/proof_generation, function by function,',
              'statement by statement — do not edit.  `Pi2/ProofTie.lean` ties these to the hand-written `patternF`, `concF`,',
              '`runBasicF`, `runF`, `executeFull` of `Pi2/Proof.lean`.',
              'Not modelled: the dict a `dynamic_inst` thunk closes over is rebound, not mutated in place; `_notations`; the files',
              '`serialize` opens (the interpreter classes it instantiates are parameters). -/',
              'open PyI',
              'set_option linter.unusedVariables false',
              'namespace Gen.PyProof',
              'variable {σ : Type}']
        self.pattern_py()
        self.interpreter_py()
        self.transformer_py()
        self.optimizing_py()
        self.proof_py()
        L.append(f'def translated : Bool := {"true" if self.ok else "false"}')
        L.append('end Gen.PyProof')
        return '\n'.join(L) + '\n'

    def pattern_py(self):
        from . import transinterp
        try:
            tree = self.source('pattern.py')
        except (OSError, SyntaxError) as ex:
            self.problem(f'pattern.py: {ex}')
            return
        self.lines.append('/-! ## pattern.py: the field order of the `Pattern` classes (class patterns bind positionally), `phi0 … phi2` -/')
        try:
            transinterp.check_metavar_defaults(tree)
            transinterp.translate_bot(tree)
            self.bot_ok = True
        except transinterp.TrErr as ex:
            self.problem(f'pattern.py: {ex}')
        for cname, (_, _, fields) in CTORS.items():
            c = next((n for n in tree.body if isinstance(n, ast.ClassDef) and n.name == cname), None)
            got = None if c is None else [n.target.id for n in c.body if isinstance(n, ast.AnnAssign) and isinstance(n.target, ast.Name)]
            if got != fields:
                self.problem(f'pattern.py: fields of {cname}: {got}, expected {fields}')
            if c is not None and any(isinstance(n, ast.Assign) and any(isinstance(t, ast.Name) and t.id == '__match_args__' for t in n.targets)
                                     for n in c.body):
                self.problem(f'pattern.py: {cname} defines __match_args__')
        tr = Tr(self, 'exp', False, 'Pat', False)
        for name in ('phi0', 'phi1', 'phi2'):
            st = next((n for n in tree.body if isinstance(n, ast.Assign) and len(n.targets) == 1 and isinstance(n.targets[0], ast.Name)
                       and n.targets[0].id == name), None)
            try:
                if st is None:
                    raise TrErr('no assignment')
                pre = []
                v, ty = tr.e(st.value, pre)
                if pre or ty != 'Pat':
                    raise TrErr(ast.unparse(st.value))
                self.lines.append(f'-- {ast.unparse(st)}')
                self.lines.append(f'def {name} : NPat := {v}')
                self.globals[name] = (f'Gen.PyProof.{name}', 'Pat')
            except TrErr as ex:
                self.problem(f'pattern.py: {name}: {ex}')

    def interpreter_py(self):
        try:
            tree = self.source('interpreter.py')
        except (OSError, SyntaxError) as ex:
            self.problem(f'interpreter.py: {ex}')
            return
        c = self.cls(tree, 'Interpreter', 'interpreter.py', ['ABC'])
        if c is None:
            return
        L = self.lines
        L.append('/-! ## class Interpreter (interpreter.py) -/')
        # the abstract methods: the interface `Interp`
        table = []
        for n in c.body:
            if isinstance(n, ast.FunctionDef) and any(ast.unparse(d) == 'abstractmethod' for d in n.decorator_list):
                if [ast.unparse(d) for d in n.decorator_list] != ['abstractmethod'] or ast.unparse(ast.Module(body=n.body, type_ignores=[])) != 'pass':
                    self.problem(f'Interpreter.{n.name}: not a plain abstract method')
                ps = [(p.arg, ast.unparse(p.annotation) if p.annotation else '?') for p in n.args.args[1:]]
                rt = ast.unparse(n.returns) if n.returns else '?'
                table.append((n.name, ps, rt))
                try:
                    self.iface[n.name] = ([(p, ANN[t]) for p, t in ps], ANN[rt])
                except KeyError as ex:
                    self.problem(f'Interpreter.{n.name}: type annotation {ex}')
        def q(s):
            return '"' + s + '"'
        L.append('/-- the `@abstractmethod`s of `Interpreter` in source order: name, parameters with annotations, result -/')
        L.append('def abstractMethods : List (String × List (String × String) × String) := [')
        L.append(',\n'.join('  (%s, [%s], %s)' % (q(n), ', '.join(f'({q(p)}, {q(t)})' for p, t in ps), q(rt)) for n, ps, rt in table))
        L.append(']')
        self.iface['pattern'] = ([('p', 'Pat')], 'Pat')
        for name, ps, rt in PHASE_METHODS:
            self.iface[name] = (ps, rt)
        # __init__
        init = self.method(c, '__init__')
        if init is not None:
            want = ['self.phase = phase', 'self._interpreting_warnings: set[str] = set()']
            if [ast.unparse(s) for s in init.body] != want or [p.arg for p in init.args.args] != ['self', 'phase']:
                self.problem('Interpreter.__init__: expected ' + '; '.join(want))
            L += ['/-- `Interpreter.__init__` (line %d): the modelled state of the base class is the attribute `phase`' % init.lineno,
                  '(`_interpreting_warnings` is diagnostics) -/',
                  'def Interpreter.init (a_phase : Phase) : Phase :=',
                  '  -- self.phase = phase',
                  '  a_phase']
        for name in ('into_claim_phase', 'into_proof_phase'):
            m = self.method(c, name)
            if m is not None:
                self.emit('Interpreter', m, 'base')
        m = self.method(c, 'pattern')
        if m is not None:
            self.emit('Interpreter', m, 'itp')
        # anything else in the class must be known
        known = {'__init__', 'safe_interpreting', 'interpreting_warnings', 'into_claim_phase', 'into_proof_phase', 'pattern'} | {n for n, _, _ in table}
        for n in c.body:
            if isinstance(n, ast.FunctionDef) and n.name not in known:
                self.problem(f'Interpreter.{n.name}: a method the translator does not know')

    def transformer_py(self):
        try:
            tree = self.source('interpreter_transformer.py')
        except (OSError, SyntaxError) as ex:
            self.problem(f'interpreter_transformer.py: {ex}')
            return
        c = self.cls(tree, 'InterpreterTransformer', 'interpreter_transformer.py', ['Interpreter'])
        if c is None:
            return
        L = self.lines
        L.append('/-! ## class InterpreterTransformer (interpreter_transformer.py) -/')
        init = self.method(c, '__init__')
        if init is not None:
            want = ['super().__init__(sub_interpreter.phase)', 'self.sub_interpreter = sub_interpreter']
            if [ast.unparse(s) for s in init.body] != want or [p.arg for p in init.args.args] != ['self', 'sub_interpreter']:
                self.problem('InterpreterTransformer.__init__: expected ' + '; '.join(want))
            L += ['/-- `InterpreterTransformer.__init__` (line %d): the initial state, from the state of the sub-interpreter -/' % init.lineno,
                  'def InterpreterTransformer.init (sub : Interp σ) (s_sub : σ) : TrSt σ :=',
                  '  -- super().__init__(sub_interpreter.phase)',
                  '  let v_phase : Phase := Interpreter.init (sub.phase s_sub)',
                  '  -- self.sub_interpreter = sub_interpreter',
                  '  { phase := v_phase, sub := s_sub }']
        defined = []
        for n in c.body:
            if isinstance(n, ast.Expr) and isinstance(n.value, ast.Constant) and isinstance(n.value.value, str):
                continue
            if not isinstance(n, ast.FunctionDef):
                self.problem(f'InterpreterTransformer: unexpected class member {ast.unparse(n)[:60]}')
                continue
            if n.name == '__init__':
                continue
            if n.name not in self.iface or n.name == 'pattern':
                self.problem(f'InterpreterTransformer.{n.name}: not a method of the interpreter interface')
                continue
            # the parameter list has to be the interface's
            ps, rt = self.iface[n.name]
            try:
                got = [(p.arg, ann_ty(p.annotation)) for p in n.args.args[1:]]
                if got != ps or ann_ty(n.returns) != rt:
                    raise TrErr(f'signature {got} -> {ast.unparse(n.returns)} differs from the interface')
            except TrErr as ex:
                self.problem(f'InterpreterTransformer.{n.name}: {ex}')
                continue
            if self.emit('InterpreterTransformer', n, 'tr') is not None:
                defined.append(n.name)
        missing = [m for m in self.iface if m != 'pattern' and m not in defined]
        if missing:
            self.problem(f'InterpreterTransformer: methods of the interface not defined / not translated: {missing}')
            return
        L += ['/-- an object of class `InterpreterTransformer` (or of a subclass that overrides nothing but `pattern`): its methods;',
              '`pattern` is filled in by `Interp.close`.  The class derives from `Interpreter`, not from `StatefulInterpreter`, and',
              'has no `memory` -/',
              'def InterpreterTransformer.obj (sub : Interp σ) : Interp (TrSt σ) where',
              '  phase s := s.phase',
              '  isStateful := false',
              '  memory _ := []',
              '  pattern _ _ := none']
        for m in self.iface:
            if m != 'pattern':
                L.append(f'  {lname(m)} := InterpreterTransformer.{lname(m)} sub')

    def optimizing_py(self):
        try:
            tree = self.source('optimizing_interpreters.py')
        except (OSError, SyntaxError) as ex:
            self.problem(f'optimizing_interpreters.py: {ex}')
            return
        L = self.lines
        c = self.cls(tree, 'InstantiationOptimizer', 'optimizing_interpreters.py', ['InterpreterTransformer'])
        if c is not None:
            L.append('/-! ## class InstantiationOptimizer (optimizing_interpreters.py) -/')
            init = self.method(c, '__init__')
            if init is not None and [ast.unparse(s) for s in init.body] != ['super().__init__(sub_interpreter)']:
                self.problem('InstantiationOptimizer.__init__: expected super().__init__(sub_interpreter)')
            for n in c.body:
                if isinstance(n, ast.FunctionDef) and n.name != '__init__':
                    if n.name not in ('instantiate', 'instantiate_pattern'):
                        self.problem(f'InstantiationOptimizer.{n.name}: a method the translator does not know')
                        continue
                    self.emit('InstantiationOptimizer', n, 'tr')
            for m in ('instantiate', 'instantiate_pattern'):
                if ('InstantiationOptimizer', m) not in self.sigs:
                    self.problem(f'InstantiationOptimizer.{m} not found or not translated')
            if all(('InstantiationOptimizer', m) in self.sigs for m in ('instantiate', 'instantiate_pattern')):
                if ('InterpreterTransformer', 'evar') in self.sigs:
                    L += ['/-- an object of class `InstantiationOptimizer` -/',
                          'def InstantiationOptimizer.obj (n : Nat) (sub : Interp σ) : Interp (TrSt σ) :=',
                          '  { InterpreterTransformer.obj sub with',
                          '    instantiate := InstantiationOptimizer.instantiate%s sub' % (' n' if self.sigs[('InstantiationOptimizer', 'instantiate')].fuel else ''),
                          '    instantiate_pattern := InstantiationOptimizer.instantiate_pattern%s sub }' % (' n' if self.sigs[('InstantiationOptimizer', 'instantiate_pattern')].fuel else '')]
        c = self.cls(tree, 'MemoizingInterpreter', 'optimizing_interpreters.py', ['InterpreterTransformer'])
        if c is None:
            return
        L.append('/-! ## class MemoizingInterpreter (optimizing_interpreters.py) -/')
        init = self.method(c, '__init__')
        if init is not None:
            want = ['super().__init__(sub_interpreter)', 'self._patterns_for_memoization: set[Pattern]',
                    'if patterns_for_memoization is None:\n    self._patterns_for_memoization = set()\nelse:\n'
                    '    self._patterns_for_memoization = patterns_for_memoization']
            args_ok = [p.arg for p in init.args.args] == ['self', 'sub_interpreter', 'patterns_for_memoization'] \
                and [ast.unparse(d) for d in init.args.defaults] == ['None']
            if [ast.unparse(s) for s in init.body] != want or not args_ok:
                self.problem('MemoizingInterpreter.__init__: unexpected body / parameters')
            L += ['/-- `MemoizingInterpreter.__init__` (line %d): the attribute `_patterns_for_memoization` -/' % init.lineno,
                  'def MemoizingInterpreter.init_memo (a_patterns_for_memoization : Option (List NPat) := none) : List NPat :=',
                  '  -- if patterns_for_memoization is None: …',
                  '  match a_patterns_for_memoization with',
                  '  -- self._patterns_for_memoization = set()',
                  '  | none => []',
                  '  -- self._patterns_for_memoization = patterns_for_memoization',
                  '  | some v => v']
        for n in c.body:
            if isinstance(n, ast.FunctionDef) and n.name not in ('__init__', 'pattern'):
                self.problem(f'MemoizingInterpreter.{n.name}: a method the translator does not know')
        m = self.method(c, 'pattern')
        sig = None
        if m is not None:
            sig = self.emit('MemoizingInterpreter', m, 'tr', attr_params={'_patterns_for_memoization': ('memo', 'MemoSet')})
        if sig is not None and ('InterpreterTransformer', 'evar') in self.sigs:
            L += ['/-- `MemoizingInterpreter(sub_interpreter, patterns_for_memoization)`: the object (`self.pattern` resolves to',
                  '`MemoizingInterpreter.pattern`; everything else is inherited from `InterpreterTransformer`) and its initial state;',
                  '`n` = the fuel / recursion depth available to the object -/',
                  'def MemoizingInterpreter.new (n : Nat) (sub : Interp σ) (s_sub : σ) (a_patterns_for_memoization : Option (List NPat) := none) :',
                  '    Interp (TrSt σ) × TrSt σ :=',
                  '  (Interp.close (MemoizingInterpreter.pattern%s sub (MemoizingInterpreter.init_memo a_patterns_for_memoization))' % (' n' if sig.fuel else ''),
                  '     (InterpreterTransformer.obj sub) n,',
                  '   InterpreterTransformer.init sub s_sub)']

    def proof_py(self):
        try:
            tree = self.source('proof.py')
        except (OSError, SyntaxError) as ex:
            self.problem(f'proof.py: {ex}')
            return
        L = self.lines
        c = self.cls(tree, 'ProofThunk', 'proof.py', [])
        if c is not None:
            L.append('/-! ## class ProofThunk (proof.py) -/')
            fields = [(n.target.id, ast.unparse(n.annotation)) for n in c.body if isinstance(n, ast.AnnAssign)]
            if fields != [('_expr', 'Callable[[Interpreter], Proved]'), ('conc', 'Pattern')]:
                self.problem(f'ProofThunk: fields {fields}')
            init = self.method(c, '__init__')
            if init is not None and ([ast.unparse(s) for s in init.body] != ['self._expr = expr', 'self.conc = conc']
                                     or [p.arg for p in init.args.args] != ['self', 'expr', 'conc']):
                self.problem('ProofThunk.__init__: expected self._expr = expr; self.conc = conc')
            m = self.method(c, '__call__')
            if m is not None:
                # self._expr(interpreter) is the application of the stored closure
                self.emit_call(m)
            for n in c.body:
                if isinstance(n, ast.FunctionDef) and n.name not in ('__init__', '__call__'):
                    self.problem(f'ProofThunk.{n.name}: a method the translator does not know')
        c = self.cls(tree, 'ProofExp', 'proof.py', [])
        if c is None:
            return
        L.append('/-! ## class ProofExp (proof.py) -/')
        ci = self.method(c, 'check_interpreting')
        if ci is not None:
            self.check_interpreting_ok = ast.unparse(ast.Module(body=ci.body, type_ignores=[])) == CHECK_INTERPRETING
            if not self.check_interpreting_ok:
                self.problem('ProofExp.check_interpreting: does more than printing the warnings')
        init = self.method(c, '__init__')
        if init is not None:
            want = ['self._axioms = [] if axioms is None else axioms', 'self._notations = [] if notations is None else notations',
                    'self._claims = [] if claims is None else claims',
                    'self._proof_expressions = [] if proof_expressions is None else proof_expressions', 'self._submodules = []']
            if [ast.unparse(s) for s in init.body] != want:
                self.problem('ProofExp.__init__: unexpected body')
        rules = ['dynamic_inst', 'prop1', 'prop2', 'prop3', 'modus_ponens', 'exists_quantifier', 'exists_generalization', 'instantiate',
                 'load_axiom', 'publish_proof', 'execute_gamma_phase', 'execute_claims_phase', 'execute_proofs_phase', 'execute_full']
        for n in c.body:
            if isinstance(n, ast.FunctionDef) and n.name in rules:
                self.emit('ProofExp', n, 'exp', self_ty='Exp')
        for r in rules:
            if ('ProofExp', r) not in self.sigs:
                self.problem(f'ProofExp.{r} not found or not translated')
        m = self.method(c, 'serialize')
        if m is not None:
            try:
                self.serialize(m)
            except TrErr as ex:
                self.problem(f'ProofExp.serialize: {ex}')
                L.append(f'-- NOT TRANSLATED: ProofExp.serialize: {ex}')

    def emit_call(self, m):
        """`ProofThunk.__call__`: `self._expr(interpreter)` applies the stored closure with the fuel of the call"""
        self.cur_class, self.cur_fn = 'ProofThunk', '__call__'
        try:
            if [p.arg for p in m.args.args] != ['self', 'interpreter'] or ann_ty(m.args.args[1].annotation) != 'ITP' or ann_ty(m.returns) != 'Proved':
                raise TrErr('signature')
            tr = Tr(self, 'thunk', True, 'Proved', True, 'Thunk')
            tr.recv['interpreter'] = Recv('I', 's')
            orig_call = tr.call

            def call(x, pre):
                if isinstance(x.func, ast.Attribute) and tr.is_self_attr(x.func, '_expr') and len(x.args) == 1 and not x.keywords:
                    r = tr.receiver(x.args[0])
                    if r is None:
                        raise TrErr('self._expr applied to ' + ast.unparse(x.args[0]))
                    t = tr.fresh()
                    pre.append(f'call (ProofThunk._expr self n {r.obj} {r.st}) fun ({r.st}, {t}) =>')
                    return t, 'Proved'
                return orig_call(x, pre)
            tr.call = call
            body = tr.block(m.body, None)
        except TrErr as ex:
            self.problem(f'ProofThunk.__call__: {ex}')
            self.lines.append(f'-- NOT TRANSLATED: ProofThunk.__call__: {ex}')
            return
        self.lines.append(f'/-- `ProofThunk.__call__` (line {m.lineno}) -/')
        self.lines.append('def ProofThunk.__call__ (n : Nat) (self : ProofThunk σ) (I : Interp σ) (s : σ) : Py (σ × Proved) :=')
        self.lines += ['  ' + l for l in body]
        self.sigs[('ProofThunk', '__call__')] = Sig('ProofThunk.__call__', [('interpreter', 'ITP', None)], 'Proved', True, 'Thunk', True, True)

    def serialize(self, m):
        """the shape of `ProofExp.serialize`: which interpreters run the module.  The classes it instantiates are parameters."""
        want = ["claims = [Claim(claim) for claim in self._claims]",
                "serializer = self.get_serializing_interpreter(output_format, ExecutionPhase.Gamma, claims, file_path)"]
        body = [s for s in m.body if not (isinstance(s, ast.Expr) and isinstance(s.value, ast.Constant))]
        if [p.arg for p in m.args.args] != ['self', 'file_path', 'output_format', 'optimize'] or len(body) != 3 \
                or [ast.unparse(s) for s in body[:2]] != want or not isinstance(body[2], ast.If):
            raise TrErr('unexpected parameters / first statements')
        if ('ProofExp', 'execute_full') not in self.sigs or ('MemoizingInterpreter', 'pattern') not in self.sigs:
            raise TrErr('execute_full / MemoizingInterpreter not translated')
        efull = self.sigs[('ProofExp', 'execute_full')]
        iff = body[2]
        if ast.unparse(iff.test) != 'optimize':
            raise TrErr('condition ' + ast.unparse(iff.test))
        objs = {'serializer': ('v_serializer', 's_serializer', 'σ')}
        tmp = [0]

        def run_on(x, out, where):
            """self.execute_full(<interpreter expression>)"""
            if not (isinstance(x, ast.Expr) and isinstance(x.value, ast.Call) and ast.unparse(x.value.func) == 'self.execute_full'
                    and len(x.value.args) == 1 and not x.value.keywords):
                raise TrErr('statement ' + ast.unparse(x))
            a = x.value.args[0]
            head = 'ProofExp.execute_full' + (' n' if efull.fuel else '')
            if isinstance(a, ast.Name) and a.id in objs:
                o, s, ty = objs[a.id]
                out.append(f'call ({head} (self {ty}) {o} {s}) fun {s} =>')
                return
            if isinstance(a, ast.Call) and ast.unparse(a.func) == 'MemoizingInterpreter' and len(a.args) == 2 and not a.keywords \
                    and isinstance(a.args[0], ast.Name) and a.args[0].id in objs and objs[a.args[0].id][2] == 'σ':
                o, s, _ = objs[a.args[0].id]
                f = a.args[1]
                if not (isinstance(f, ast.Call) and isinstance(f.func, ast.Attribute) and f.func.attr == 'finalize' and not f.args
                        and isinstance(f.func.value, ast.Name) and f.func.value.id in objs):
                    raise TrErr('second argument of MemoizingInterpreter: ' + ast.unparse(f))
                _, fs, _ = objs[f.func.value.id]
                tmp[0] += 1
                t = f't{tmp[0]}'
                out.append(f'let ({t}, s_{t}) := MemoizingInterpreter.new n {o} {s} (some (finalize {fs}))')
                out.append(f'call ({head} (self (TrSt σ)) {t} s_{t}) fun s_{t} =>')
                out.append(f'-- (the transformer holds the sub-interpreter by reference: its state is the state of `{a.args[0].id}`)')
                out.append(f'let {s} : σ := s_{t}.sub')
                return
            raise TrErr('interpreter expression ' + ast.unparse(a))

        def branch(stmts, where):
            out = []
            for x in stmts:
                out.append('-- ' + ast.unparse(x).split('\n')[0])
                if isinstance(x, ast.Assign) and len(x.targets) == 1 and isinstance(x.targets[0], ast.Name) \
                        and ast.unparse(x.value) == 'CountingInterpreter(ExecutionPhase.Gamma, claims)':
                    nm = x.targets[0].id
                    objs[nm] = ('v_' + nm, 's_' + nm, 'σ')
                    out.append(f'let (v_{nm}, s_{nm}) := CountingInterpreter Phase.gamma v_claims')
                    continue
                run_on(x, out, where)
            out.append('ret s_serializer')
            return out
        L = self.lines
        L += [f'/-- `ProofExp.serialize` (line {m.lineno}): which interpreters run the module.  The module is used with two kinds of',
              'interpreter state (`σ`, and `TrSt σ` under the transformer): `self τ` is the module for state type `τ`.  Parameters:',
              '`get_serializing_interpreter phase claims` = `self.get_serializing_interpreter(output_format, phase, claims, file_path)`',
              'and `CountingInterpreter phase claims`: the object and its initial state; `finalize` = `CountingInterpreter.finalize`.',
              'The result is the final state of the serializer (what was written). -/',
              'def ProofExp.serialize (n : Nat) (self : (τ : Type) → ProofExp τ)',
              '    (get_serializing_interpreter CountingInterpreter : Phase → List Claim → Interp σ × σ) (finalize : σ → List NPat)',
              '    (a_optimize : Bool) : Py σ :=',
              '  -- ' + want[0],
              '  let v_claims : List Claim := ProofExp._claims (self σ)',
              '  -- ' + want[1],
              '  let (v_serializer, s_serializer) := get_serializing_interpreter Phase.gamma v_claims',
              '  -- if optimize: …',
              '  if a_optimize then']
        L += ['    ' + l for l in branch(iff.body, 'then')]
        L.append('  else')
        objs_else = dict(objs)
        L += ['    ' + l for l in branch(iff.orelse, 'else')]
        self.sigs[('ProofExp', 'serialize')] = True


def gen_py_proof(srcdir=None, outdir=None):
    """srcdir: directory holding proof.py / interpreter.py / interpreter_transformer.py / optimizing_interpreters.py /
    pattern.py (default: /repo's proof_generation); outdir: where PyProof.lean is written (default: lean/Pi2/Gen)"""
    g = Gen(srcdir)
    try:
        text = g.run()
    except Exception as ex:   # noqa
        g.problem(f'internal error: {type(ex).__name__}: {ex}')
        text = ('import Pi2.ProofSupport\nimport Pi2.Gen.PyInterp\n/-! GENERATED by /verif/vlib/transproof.py — the translator failed:\n'
                f'{type(ex).__name__}: {ex} -/\nnamespace Gen.PyProof\ndef translated : Bool := false\nend Gen.PyProof\n')
    from .translate import _write_if_changed, GEN
    _write_if_changed(os.path.join(outdir or GEN, 'PyProof.lean'), text)
    return g.problems


if __name__ == '__main__':
    print(gen_py_proof())
