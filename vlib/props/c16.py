"""C16 — valid Metamath proofs translate to checkable proofs of the same statement."""
from __future__ import annotations

import glob
import json
import os
import random

from .. import core, mm, mmgen3, pymach as pm, sx
from .c03 import unify_syms

THEOREMS = ['C16.translation_succeeds', 'C16.translation_accepted', 'C16.layout_independent',
            'C16.exec_proof_translated', 'C16.exec_proof_step_text_is_the_model', 'C16.exec_proof_text_is_the_model',
            'C16.converter_translated', 'C16.converter_text_state', 'C16.converter_text_is_the_model',
            'C16.translation_text_is_the_model',
            'C16.spec_coherent_of_shape', 'C16.in_fragment_of_shape', 'C16.converter_text_is_the_model_of_shape',
            'C16.translation_text_is_the_model_of_shape', 'C16.fragment_shape_example', 'C16.notation_example',
            'C16.notation_axiom_is_body_image', 'C16.image_without_notations',
            # `#Notation` statements in the specification dbOfMDb / the shape FragmentShape (Pi2/MM/ConvSpec, ConvShape, ConvSugar)
            'C16.spec_without_notations', 'C16.core_shape_of_sugarFree', 'C16.fragment_shape_of_core_shape', 'C16.sugarFree_of_spec_core', 'C16.fragment_shape_notation_example',
            'C16.spec_notation_example', 'C16.forward_notation_not_in_shape', 'C16.ExampleCanon.dbN_shape', 'C16.ExampleCanon.dbN_check',
            # accepted by the checker TEXT (Props/C16b.lean): bytes of the translated serializer methods for the translation's calls are
            # accepted by the translated lib.rs verify, the target's image is valid; from the text side for FragmentShape databases
            'C16.translation_bytes_accepted_by_rust_text', 'C16.accepted_translation_bytes', 'C16.translation_u8_accepted',
            'C16.translation_full_text_is_the_model', 'C16.translation_text_bytes_accepted_by_rust_text', 'C16.translation_text_run_accepted',
            'C16.translation_text_sound', 'C16.exDB_accepted', 'C16.ExampleCanon.db_text_accepted', 'C16.ExampleCanon.db_text_sound',
            # the specification on databases WITH notations is well formed (Props/C16c.lean, ConvSugar*.lean): FragmentShape + no notation
            # for \\imp / \\app ⇒ dbOfMDb answers, db.wf, coherence of goal / proof / table; then the translation theorems apply
            'C16.notation_for_imp_rejected', 'C16.headsPlain_of_shape', 'C16.spec_of_shape_with_notations', 'C16.spec_wf_of_shape_with_notations',
            'C16.spec_coherent_with_notations', 'C16.translation_of_shaped_notation_database', 'C16.translation_notation_example']


def image(t, float_order):
    """the structural image of a Metamath term as a matching-logic pattern (symbols by name)"""
    if isinstance(t, str):
        if t in float_order:
            return pm.phi(float_order.index(t))
        return ('sym', t)
    h = t[0]
    if h == '\\imp':
        return ('imp', image(t[1], float_order), image(t[2], float_order))
    if h == '\\app':
        return ('app', image(t[1], float_order), image(t[2], float_order))
    p = ('sym', h)
    for a in t[1:]:
        p = ('app', p, image(a, float_order))
    return p


def term_sx(db, t):
    if isinstance(t, str):
        if t in db.vars:
            return '(v %d)' % db.vars.index(t)
        return '(con %d)' % sym_id(db, t)
    h = t[0]
    if h == '\\imp':
        return '(imp %s %s)' % (term_sx(db, t[1]), term_sx(db, t[2]))
    if h == '\\app':
        return '(app %s %s)' % (term_sx(db, t[1]), term_sx(db, t[2]))
    return '(con %d %s)' % (sym_id(db, h), ' '.join(term_sx(db, a) for a in t[1:]))


def sym_id(db, name):
    # constants / constructors are s<k>; declared notations (mmgen3.NotDB) are n<k>: numbered apart from the symbols
    return 1000 + int(name[1:]) if name[0] == 'n' else int(name[1:])


def model_spec(db, goal, table, steps):
    """the database, target and decoded proof in the protocol of the Lean model (`mmverify`, `mmxlate`)"""
    vi = db.vars.index
    ctors = [(c, [], None) for c in db.consts] + [(f, db.ctor_vars[f], None) for f in db.ctors]
    # declared notations, in database order: `(sym (args) (body TERM))`
    ctors += [(n, args, body) for n, (args, body) in getattr(db, 'notations', {}).items()]
    rules = [([], t) for _, t in db.axioms] + [(h, c) for _, h, c in db.rules]
    rule_labels = [lab for lab, _ in db.axioms] + [lab for lab, _, _ in db.rules]
    dbs = '(db (%s) (imp %d %d) (app %d %d) (ctors %s) (rules %s) (p1 %d %d) (p2 %d %d %d) (mp %d %d))' % (
        ' '.join(str(vi(v)) for v in db.float_order), vi(db.imp_vars[0]), vi(db.imp_vars[1]), vi(db.app_vars[0]), vi(db.app_vars[1]),
        ' '.join('(%d (%s)%s)' % (sym_id(db, c), ' '.join(str(vi(a)) for a in args), '' if body is None else ' (body %s)' % term_sx(db, body))
                 for c, args, body in ctors),
        ' '.join('((%s) %s)' % (' '.join(term_sx(db, h) for h in hs), term_sx(db, c)) for hs, c in rules),
        vi(db.p1_vars[0]), vi(db.p1_vars[1]), vi(db.p2_vars[0]), vi(db.p2_vars[1]), vi(db.p2_vars[2]), vi(db.mp_vars[0]), vi(db.mp_vars[1]))

    def lbl(lab):
        if lab.endswith('-is-pattern'):
            x = lab[:-len('-is-pattern')]
            if x in db.vars:
                return '(f %d)' % vi(x)
            if x in ('imp', 'app'):
                return x
            return '(ctor %d)' % [c for c, _, _ in ctors].index(x)
        if lab in rule_labels:
            return '(rule %d)' % rule_labels.index(lab)
        return {'proof-rule-prop-1': 'p1', 'proof-rule-prop-2': 'p2', 'proof-rule-mp': 'mp'}[lab]
    return '%s %s (%s) (%s)' % (dbs, term_sx(db, goal), ' '.join(lbl(l) for l in table), ' '.join(str(0 if x == 'Z' else x) for x in steps))


def make_case(rng, quick):
    db = mm.GenDB(rng, nv=rng.choice((3, 3, 4)), n_consts=rng.randint(1, 3), n_ctors=rng.randint(0, 2), n_axioms=rng.randint(0, 3),
                  n_rules=rng.randint(0, 2), with_app=rng.random() < 0.8, shuffle_floats=rng.random() < 0.6,
                  shuffle_roles=rng.random() < 0.5)
    st = db.header()
    v = mm.verify(st)
    tv = db.vars[:rng.randint(0, 3)]
    goal, build = mm.gen_tree(rng, db, rng.randint(1, 3 if quick else 5), tv)
    steps = build(mm.ProofBuilder(db, v))
    gv = [x for x in mm.term_toks(goal) if x in db.vars]
    mand = [f'{x}-is-pattern' for x in db.float_order if x in gv]
    arity = {lab: (0 if e[0] in ('f', 'e') else len(e[2]) + len(e[3])) for lab, e in v.labels.items()}
    variants = {'plain': mm.compress(steps, mand)[0]}
    variants['reuse'] = mm.compress_with_reuse(rng, steps, arity, mand)[0]
    out, specs, proofs = {}, {}, {}
    for name, proof in variants.items():
        full = st + [('p', 'goal', ['|-'] + mm.term_toks(goal), proof)]
        mm.verify(full)      # the generator's proofs are valid by the independent verifier (else: generator bug -> exception)
        out[name] = mm.print_db(full)
        labels, nums = mm.split_compressed(proof)
        specs[name] = model_spec(db, goal, mand + labels, nums)
        proofs[name] = (labels, nums)
    axioms = [image(t, db.float_order) for _, t in db.axioms]
    for _, hyps, concl in db.rules:
        p = image(concl, db.float_order)
        for h in reversed(hyps):
            p = ('imp', image(h, db.float_order), p)
        axioms.append(p)
    return {'sources': out, 'specs': specs, 'proofs': proofs, 'mand': mand, 'header': st, 'db': db, 'goal': goal, 'claim': image(goal, db.float_order), 'axioms': axioms, 'n_vars': len(set(gv))}


def make_ncase(rng, quick):
    """a database WITH declared notations (`$a #Notation`): real pipeline vs the Lean model (`Ctor.body`, byte for byte) and vs
    the independent structural image (notations expanded at the term level, `mmgen3.image`), checker, layouts"""
    db = mmgen3.NotDB(rng, nv=rng.choice((3, 3, 4)), n_consts=rng.randint(1, 3), n_ctors=rng.randint(1, 2), n_axioms=rng.randint(1, 3),
                      n_rules=rng.randint(0, 2), with_app=rng.random() < 0.8, shuffle_floats=rng.random() < 0.6,
                      shuffle_roles=rng.random() < 0.5)
    st = db.header()
    v = mm.verify(st)
    tv = db.vars[:rng.randint(0, 3)]
    goal, build = mm.gen_tree(rng, db, rng.randint(1, 3 if quick else 4), tv)
    steps = build(mm.ProofBuilder(db, v))
    gv = [x for x in mm.term_toks(goal) if x in db.vars]
    mand = [f'{x}-is-pattern' for x in db.float_order if x in gv]
    arity = {lab: (0 if e[0] in ('f', 'e') else len(e[2]) + len(e[3])) for lab, e in v.labels.items()}
    variants = {'plain': mm.compress(steps, mand)[0], 'reuse': mm.compress_with_reuse(rng, steps, arity, mand)[0]}
    out, specs, proofs = {}, {}, {}
    for name, proof in variants.items():
        full = st + [('p', 'goal', ['|-'] + mm.term_toks(goal), proof)]
        mm.verify(full)
        out[name] = mm.print_db(full)
        labels, nums = mm.split_compressed(proof)
        specs[name] = model_spec(db, goal, mand + labels, nums)
        proofs[name] = (labels, nums)
    axioms = [mmgen3.image(db, t) for _, t in db.axioms]
    for _, hyps, concl in db.rules:
        p = mmgen3.image(db, concl)
        for h in reversed(hyps):
            p = ('imp', mmgen3.image(db, h), p)
        axioms.append(p)
    return {'sources': out, 'specs': specs, 'proofs': proofs, 'mand': mand, 'header': st, 'db': db, 'goal': goal,
            'claim': mmgen3.image(db, goal), 'axioms': axioms, 'n_vars': len(set(gv)), 'notations': True}


def nested_notation(db, t, under=False):
    """a declared notation applied (directly or deeper) to a term that uses a declared notation"""
    if isinstance(t, str):
        return under and t in db.notations
    here = t[0] in db.notations
    if under and here:
        return True
    return any(nested_notation(db, a, under or here) for a in t[1:])


def forward_notation_case():
    """`n0 x := n1 x x` declared BEFORE `n1 x y := s2 y x`; axiom `|- ph0`; target `|- ( \\imp ( n0 s0 ) ( n1 s0 s0 ) )` (both sides denote `s2 s0 s0`)"""
    rng = random.Random(7)
    db = mmgen3.NotDB(rng, nv=3, n_consts=1, n_ctors=0, n_axioms=0, n_rules=0, with_app=False, shuffle_floats=False, shuffle_roles=False)
    db.consts = ['s0']
    db.ctors = {'s2': 2}
    db.ctor_vars = {'s2': ['ph0', 'ph1']}
    db.notations = {'n0': (['ph0'], ('n1', 'ph0', 'ph0')), 'n1': (['ph0', 'ph1'], ('s2', 'ph1', 'ph0'))}
    db.axioms = [('ax0', 'ph0')]
    db.rules = []
    st = db.header()
    v = mm.verify(st)
    goal = ('\\imp', ('n0', 's0'), ('n1', 's0', 's0'))
    steps = mm.ProofBuilder(db, v).assertion_steps('ax0', {'ph0': goal}, [])
    proof = mm.compress(steps, [])[0]
    full = st + [('p', 'goal', ['|-'] + mm.term_toks(goal), proof)]
    mm.verify(full)
    return {'source': mm.print_db(full), 'claim': mmgen3.image(db, goal)}


def encode_steps(nums):
    return ''.join('Z' if x == 'Z' else mm.enc_num(x) for x in nums)


def mutate_case(rng, c):
    """an (almost always) invalid proof: one step of the compressed proof changed, dropped, doubled or swapped"""
    name = rng.choice(('plain', 'reuse'))
    labels, nums = c['proofs'][name]
    nums = list(nums)
    k = rng.random()
    if not nums:
        return None
    i = rng.randrange(len(nums))
    hi = len(c['mand']) + len(labels) + 3
    if k < 0.4:
        nums[i] = rng.randint(1, hi)
    elif k < 0.6:
        del nums[i]
    elif k < 0.75:
        nums.insert(i, nums[i])
    elif k < 0.9 and len(nums) > 1:
        j = rng.randrange(len(nums))
        nums[i], nums[j] = nums[j], nums[i]
    else:
        nums.insert(i, 'Z')
    if not nums:
        return None
    proof = ['('] + labels + [')', encode_steps(nums)]
    full = c['header'] + [('p', 'goal', ['|-'] + mm.term_toks(c['goal']), proof)]
    try:
        mm.verify(full)
        valid = True
    except mm.VerifyError:
        valid = False
    except Exception:   # noqa  (IndexError etc. inside the independent verifier = invalid)
        valid = False
    return {'source': mm.print_db(full), 'spec': model_spec(c['db'], c['goal'], c['mand'] + labels, nums), 'valid': valid}


def chain_case(rng, n_mp):
    """a long valid proof: n_mp nested applications of proof-rule-mp (each costs the translator one memory slot)"""
    db = mm.GenDB(rng, nv=3, n_consts=1, n_ctors=0, n_axioms=1, n_rules=0, with_app=False, shuffle_floats=False)
    st = db.header()
    v = mm.verify(st)
    pb = mm.ProofBuilder(db, v)
    c = db.consts[0]
    A = ('\\imp', c, ('\\imp', c, c))
    steps = pb.assertion_steps('proof-rule-prop-1', {db.p1_vars[0]: c, db.p1_vars[1]: c}, [])
    for _ in range(n_mp):
        concl = ('\\imp', c, A)
        p1 = pb.assertion_steps('proof-rule-prop-1', {db.p1_vars[0]: A, db.p1_vars[1]: c}, [])
        steps = pb.assertion_steps('proof-rule-mp', {db.mp_vars[0]: A, db.mp_vars[1]: concl}, [p1, steps])
        A = concl
    arity = {lab: (0 if e[0] in ('f', 'e') else len(e[2]) + len(e[3])) for lab, e in v.labels.items()}
    proof = mm.compress_with_reuse(rng, steps, arity, [])[0]
    full = st + [('p', 'goal', ['|-'] + mm.term_toks(A), proof)]
    mm.verify(full)
    labels, nums = mm.split_compressed(proof)
    return {'source': mm.print_db(full), 'n_mp': n_mp, 'n_saves': n_mp + sum(1 for x in nums if x == 'Z') + len(db.axioms)}


def unhex(h):
    return [] if h == '-' else list(bytes.fromhex(h))


def run(rep):
    rng = random.Random(rep.seed * 1000003 + 16)
    ok, detail = core.proof_gate(rep, 'Pi2.Props.C16c', THEOREMS)
    core.rust_build()
    quick = rep.tier == 'quick'
    cases = [make_case(rng, quick) for _ in range(50 if quick else 1000)]
    ncases = [make_ncase(rng, quick) for _ in range(40 if quick else 600)]
    allcases = cases + ncases
    findings = []

    # ---- 1. the real translator: valid proofs, both layouts, several hash seeds; plain and optimised pipelines
    lines, idx = [], []
    for i, c in enumerate(cases):
        for name, src in c['sources'].items():
            hx = src.encode().hex()
            for mode in ('opt', 'plain', 'memo'):
                lines.append(f'mmtranslate {hx} goal {mode}'); idx.append((i, name, mode))
    for j, c in enumerate(ncases):       # declared notations: the same three runs
        for name, src in c['sources'].items():
            for mode in ('opt', 'plain', 'memo'):
                lines.append(f'mmtranslate {src.encode().hex()} goal {mode}'); idx.append((len(cases) + j, name, mode))
    seeds = (0, 3) if quick else (0, 1, 2, 3, 4, 5)
    per_seed = {sd: core.py_h(lines, hashseed=sd) for sd in seeds}
    pa = per_seed[seeds[0]]
    for sd in seeds[1:]:
        for a, b, (i, name, mode) in zip(pa, per_seed[sd], idx):
            if a != b and mode != 'memo':
                findings.append({'key': 'hashseed', 'database': allcases[i]['sources'][name][-1500:], 'seed_a': seeds[0], 'seed_b': sd, 'mode': mode,
                                 'out_a': a[:300], 'out_b': b[:300], 'what': f'translation depends on PYTHONHASHSEED ({seeds[0]} vs {sd})'})
                break
    real = {k: a for k, a in zip(idx, pa)}

    # ---- 2. the Lean model on the same inputs: verifier verdict, hypothesis `wf`, bytes of both pipelines
    ml, mi = [], []
    for i, c in enumerate(allcases):     # notation-free databases and databases with declared notations alike
        for name in c['sources']:
            ml.append('mmverify ' + c['specs'][name]); mi.append((i, name, 'verify'))
            ml.append('mmxlate (memo) ' + c['specs'][name]); mi.append((i, name, 'plain'))
            memo = real[(i, name, 'memo')]
            if memo.startswith('(memo'):
                ml.append(f'mmxlate {memo} ' + c['specs'][name]); mi.append((i, name, 'opt'))
    ma = core.lean_drv(ml)
    n_model = 0
    n_model_not = 0
    for (i, name, what), a in zip(mi, ma):
        src = allcases[i]['sources'][name]
        if what == 'verify':
            if a != '(verify true wf true)':
                findings.append({'key': 'model-verifier', 'model': a, 'database': src[-2500:], 'spec': allcases[i]['specs'][name],
                                 'what': f'correspondence: the Lean Metamath verifier / wf predicate says {a} on a proof the independent verifier accepts'})
            continue
        r = real[(i, name, what)]
        n_model += 1
        n_model_not += i >= len(cases)
        if (a if a.startswith('(ok') else '(raise') != (r if r.startswith('(ok') else '(raise'):
            findings.append({'key': 'model-bytes', 'pipeline': what, 'model': a[:600], 'python': r[:600], 'database': src[-2500:],
                             'spec': allcases[i]['specs'][name],
                             'what': f'correspondence: translate.exec_proof and the Lean model of it differ ({what} pipeline, {name} layout)'})

    # ---- 3. invalid proofs: verdicts of the two verifiers, outcomes of the two translators
    muts = [m for m in (mutate_case(rng, rng.choice(cases)) for _ in range(60 if quick else 1500)) if m]
    muts += [m for m in (mutate_case(rng, rng.choice(ncases)) for _ in range(30 if quick else 600)) if m]
    mr = core.py_h([f'mmtranslate {m["source"].encode().hex()} goal plain' for m in muts])
    mv = core.lean_drv(sum(([f'mmverify {m["spec"]}', f'mmxlate (memo) {m["spec"]}'] for m in muts), []))
    n_invalid = 0
    for k, m in enumerate(muts):
        lv, lx = mv[2 * k], mv[2 * k + 1]
        n_invalid += not m['valid']
        if lv != '(verify %s wf true)' % str(m['valid']).lower():
            findings.append({'key': 'model-verifier', 'model': lv, 'independent': m['valid'], 'database': m['source'][-2500:], 'spec': m['spec'],
                             'what': f'correspondence: Lean verifier says {lv}, the independent Metamath verifier says valid={m["valid"]}'})
        r = mr[k]
        if (lx if lx.startswith('(ok') else '(raise') != (r if r.startswith('(ok') else '(raise'):
            findings.append({'key': 'model-bytes', 'pipeline': 'plain/mutated', 'model': lx[:600], 'python': r[:600], 'database': m['source'][-2500:],
                             'spec': m['spec'], 'what': 'correspondence: translate.exec_proof and the Lean model of it differ on a mutated proof'})
        if m['valid'] and not r.startswith('(ok'):
            findings.append({'key': 'translate-raises', 'layout': 'mutated-but-valid', 'python': r, 'database': m['source'][-2500:],
                             'what': f'translation of a valid proof fails: {r}'})

    # ---- 4. the property itself on the real outputs: checker verdict, journal = structural image, layout independence
    todo = [(k, a) for k, a in real.items() if k[2] != 'memo']
    jl = []
    for k, a in todo:
        if a.startswith('(ok'):
            x = sx.parse(a)[0]
            jl.append(f'journal {x[1]} {x[2]} {x[3]}')
    jit = iter(core.lean_drv(jl))
    n_acc = 0
    by_case = {}
    for (i, name, mode), a in todo:
        c = allcases[i]
        src = c['sources'][name]
        if not a.startswith('(ok'):
            findings.append({'key': 'translate-raises', 'layout': name, 'mode': mode, 'python': a, 'database': src[-2500:],
                             'what': f'translation of a valid proof fails ({name} layout, {mode} pipeline): {a}'})
            continue
        jr = next(jit)
        x = sx.parse(a)[0]
        acc = core.real_checker(unhex(x[1]), unhex(x[2]), unhex(x[3]), tag='c16')
        if acc:
            n_acc += 1
        else:
            findings.append({'key': 'checker-rejects', 'layout': name, 'mode': mode, 'journal': jr[:400], 'database': src[-2500:],
                             'gamma': x[1], 'claim': x[2], 'proof': x[3],
                             'what': f'the translated proof ({name} layout, {mode} pipeline) is rejected by the checker: {jr[:120]}'})
        if ('(accepted)' in jr) != acc:
            findings.append({'key': 'checker-vs-reference', 'layout': name, 'journal': jr[:400],
                             'what': 'real checker and reference machine disagree on translated bytes'})
        if jr.startswith('(journal'):
            jx = sx.parse(jr)[0]
            gax = [sx.pat_of_sx(t) for t in jx[1][1:]]
            gcl = [sx.pat_of_sx(t) for t in jx[2][1:]]
            mp, inv = {}, {}
            problem = None
            if len(gcl) != 1:
                problem = f'{len(gcl)} claims published, 1 expected'
            elif len(gax) != len(c['axioms']):
                problem = f'{len(gax)} axioms published, {len(c["axioms"])} in the database'
            else:
                for d, g in list(zip(c['axioms'], gax)) + [(c['claim'], gcl[0])]:
                    problem = unify_syms(d, g, mp, inv)
                    if problem:
                        break
            if problem:
                findings.append({'key': 'image-differs', 'layout': name, 'mode': mode, 'journal': jr[:1500], 'database': src[-2500:],
                                 'expected_claim': sx.pat_to_s(c['claim']),
                                 'what': f'published claim/axioms are not the structural image of the database ({name} layout): {problem}'})
            by_case.setdefault(i, {})[(name, mode)] = (acc, jr[:jr.index(' (accepted)')] if ' (accepted)' in jr else jr)
    for i, d in by_case.items():
        if len(set(d.values())) > 1:
            findings.append({'key': 'layout-dependent', 'what': 'the outcome depends on the compression layout (with / without reuse marks) or on --optimize',
                             'outcomes': {str(k): str(v)[:400] for k, v in d.items()}, 'database': allcases[i]['sources']['reuse'][-2000:]})

    # ---- 4c. a notation whose body mentions a notation declared LATER (`n0 := ( n1 x x )`, `n1` declared after it): the converter builds
    #          the closure of `n0` while only the earlier notations are in scope (`_top_down` imports the notations in file order), so
    #          `n1` stays an opaque symbol inside `n0` but is expanded where it is written directly.  Probe with a target that uses both.
    fw = forward_notation_case()
    fa = core.py_h([f'mmtranslate {fw["source"].encode().hex()} goal plain'])[0]
    if fa.startswith('(ok'):
        x = sx.parse(fa)[0]
        jr = core.lean_drv([f'journal {x[1]} {x[2]} {x[3]}'])[0]
        if jr.startswith('(journal'):
            jx = sx.parse(jr)[0]
            gcl = [sx.pat_of_sx(t) for t in jx[2][1:]]
            problem = 'no claim' if len(gcl) != 1 else unify_syms(fw['claim'], gcl[0], {}, {})
            if problem:
                findings.append({'key': 'notation-forward-reference', 'journal': jr[:1200], 'database': fw['source'][-1500:], 'expected_claim': sx.pat_to_s(fw['claim']),
                                 'what': 'a notation whose body mentions a notation declared after it: the published claim is not the structural image of the target (' + problem + ')'})
    else:
        findings.append({'key': 'translate-raises', 'layout': 'forward-notation', 'python': fa, 'database': fw['source'][-1500:],
                         'what': f'translation of a valid proof over a database with a forward-referencing notation fails: {fa}'})
    # ---- 5. long proofs (memory slots) and the shipped benchmarks
    n_chain = 0
    chains = [chain_case(rng, n) for n in ((30, 120) if quick else (30, 120, 200, 260))]
    ca = core.py_h([f'mmtranslate {c["source"].encode().hex()} goal opt' for c in chains])
    for c, a in zip(chains, ca):
        n_chain += 1
        if a.startswith('(ok'):
            x = sx.parse(a)[0]
            if not core.real_checker(unhex(x[1]), unhex(x[2]), unhex(x[3]), tag='c16c'):
                findings.append({'key': 'checker-rejects', 'layout': 'chain', 'n_mp': c['n_mp'], 'what': f'translated chain of {c["n_mp"]} modus ponens steps rejected'})
        elif a == '(raise translate ValueError load:151)' and c['n_saves'] > 256:
            findings.append({'key': 'memory-slots', 'n_mp': c['n_mp'], 'saves': c['n_saves'], 'python': a, 'database': c['source'][-1200:],
                             'what': f'a valid proof with {c["n_mp"]} applications of proof-rule-mp needs {c["n_saves"]} memory slots; '
                                     'exec_proof saves every modus-ponens conclusion and the Load index no longer fits a byte (ValueError in SerializingInterpreter.load)'})
        else:
            findings.append({'key': 'translate-raises', 'layout': 'chain', 'n_mp': c['n_mp'], 'python': a, 'database': c['source'][-1200:],
                             'what': f'translation of a valid chain of {c["n_mp"]} modus ponens steps fails: {a}'})
    n_bench = 0
    # the benchmarks the repository itself translates (Makefile: TRANSLATED_PROOFS = proofs/translated/*.ml-proof, built from
    # generation/mm-benchmarks/<name>.mm with target `goal`); the other .mm files of mm-benchmarks (uncompressed variants,
    # whole developments without a `goal`) are not translation inputs
    shipped = sorted(os.path.basename(p)[:-len('.ml-proof')] for p in glob.glob(os.path.join(core.REPO, 'proofs/translated/*.ml-proof')))
    small = [b for b in shipped if b in ('impreflex-compressed-goal', 'transfer-simple-compressed-goal')]
    bench = small if quick else shipped
    bl = []
    for b in bench:
        pth = os.path.join(core.REPO, 'generation/mm-benchmarks', b + '.mm')
        if os.path.exists(pth):
            bl.append((b, 'mmtranslate %s goal' % open(pth, 'rb').read().hex()))
    ba = core.py_h([l for _, l in bl]) if bl else []
    for (b, _), a in zip(bl, ba):
        n_bench += 1
        if not a.startswith('(ok'):
            findings.append({'key': 'benchmark:' + b, 'python': a, 'what': f'shipped benchmark {b} does not translate: {a}'})
            continue
        x = sx.parse(a)[0]
        if not core.real_checker(unhex(x[1]), unhex(x[2]), unhex(x[3]), tag='c16b'):
            findings.append({'key': 'benchmark:' + b, 'what': f'translated benchmark {b} is rejected by the checker'})
    # ---- 6. the converter: specification dbOfMDb on the parsed database vs the model database built above from the generator's
    # knowledge; generated converter (Pi2/Gen/MMConv.lean) vs the real MetamathConverter on every query; hypotheses FragmentShape
    # (of the ..._of_shape theorems) and InFragmentX evaluated on every generated database
    from .. import try_conv
    cf, n_spec, n_conv = try_conv.compare(cases + ncases, try_conv.EXTRA)
    findings += cf
    rep.coverage.update({'converter_spec_comparisons': n_spec, 'converter_spec_comparisons_with_declared_notations': 2 * len(ncases),
                         'converter_text_comparisons': n_conv - try_conv.OUTSIDE_NOTATION[0],
                         'generated_converter_outside_on_notation_databases': try_conv.OUTSIDE_NOTATION[0]})
    rep.coverage.update({
        'evaluations': len(lines) * len(seeds) + len(muts) + n_bench + n_chain, 'distinct_nontrivial': len(set(lines)) + len(muts),
        'rule': 'random databases in fragment F0 (constants, n-ary constructors, \\imp, \\app, axioms, rules with essential hypotheses, '
                'proof-rule-prop-1/2/mp stated over randomly chosen variables, $f statements in shuffled order) with random valid derivations '
                '(validated by an independent Metamath verifier) of targets with 0-3 metavariables, in two compression layouts (with / without Z) '
                'and under %d hash seeds; REAL translate pipeline (plain and --optimize) vs the Lean model of exec_proof byte for byte (the '
                'memoisation set is taken from the real counting pass); mutated (invalid) proofs: verdict of the Lean verifier vs the independent one and '
                'outcome of model vs real translator; real checker verdict; publish journal vs structural image; long chains; %d shipped benchmarks'
                % (len(seeds), n_bench),
        'programs': len(lines), 'disagreements_checked': len(findings), 'accepted_by_real_checker': n_acc, 'model_byte_comparisons': n_model,
        'model_byte_comparisons_with_declared_notations': n_model_not,
        'mutated_proofs': len(muts), 'mutated_invalid': n_invalid,
        'targets_by_metavariables': {str(k): sum(1 for c in cases if c['n_vars'] == k) for k in range(4)},
        'shuffled_float_order': sum(1 for c in cases if c['db'].float_order != c['db'].vars),
        'databases_with_declared_notations': len(ncases),
        'notation_uses_in_targets_axioms_rules': sum(sum(mm.term_toks(t).count(n) for n in c['db'].notations for t in [c['goal']] + [t for _, t in c['db'].axioms] + [x for _, hs, cc in c['db'].rules for x in hs + [cc]]) for c in ncases),
        'notation_bodies_applying_a_constructor': sum(1 for c in ncases for _, b in c['db'].notations.values() if any(x in c['db'].ctors for x in mm.term_toks(b))),
        'notation_bodies_using_an_earlier_notation': sum(1 for c in ncases for _, b in c['db'].notations.values() if any(x in c['db'].notations for x in mm.term_toks(b))),
        'notations_without_arguments': sum(1 for c in ncases for a, _ in c['db'].notations.values() if not a),
        'notation_applied_to_a_notation_in_targets_axioms_rules': sum(1 for c in ncases for t in [c['goal']] + [t for _, t in c['db'].axioms] + [x for _, hs, cc in c['db'].rules for x in hs + [cc]] if nested_notation(c['db'], t)),
        'samples': [cases[0]['sources']['reuse'][-700:], pa[0][:200]],
    })
    rep.assumptions += ['the THEOREMS are about fragment F0 of DESIGN.md extended with declared #Notation sugar (DB.wf: a notation symbol has one constructor axiom, '
                        'its body mentions its own variables and, of the notation symbols, earlier ones only; no #Substitution, no $d); databases with declared '
                        'notations (vlib/mmgen3.py) go through the same Lean model (mmverify / mmxlate, byte for byte) as the notation-free ones AND through the '
                        'independent structural image (notations expanded at the term level) + checker + layouts; the specification dbOfMDb and the shape '
                        'FragmentShape cover #Notation statements (section 6: dbOfMDb on the parsed database = the check\'s model database incl. bodies, '
                        'FragmentShape true, wf true on every generated notation database); the text ties (converter_*, translation_text_*) relate the source '
                        'text to the model on databases WITHOUT #Notation statements (hypothesis sugarFree / InFragment): MetamathConverter._add_notation '
                        'is outside the translated fragment of vlib/transconv.py, the generated converter answers (outside) on notation databases; '
                        'targets citing an earlier $p are unsupported by the translator',
                        'observed on the real converter, outside DB.wf: a notation body that mentions a notation declared LATER keeps that symbol as a plain '
                        'symbol application (the closure is built when only the earlier notations are in scope) — the Lean model does the same (DB.notTab), '
                        'and the published claim is then not the fully expanded image; the generator (mmgen3) only produces bodies over earlier notations',
                        'theorems are about the Lean model of exec_proof (Pi2/MM/Translate.lean); the tie to translate.py is the byte-for-byte correspondence above',
                        'symbols named in order of first serialisation (CanonCalls) in translation_accepted']
    seen = set()
    for f in findings:
        if f['key'] in seen and f['key'] != 'memory-slots':
            continue
        seen.add(f['key'])
        rep.violation(f['what'], f, not core.is_correspondence(f), key='py-mmtranslate:' + f['key'])
    if not ok and not findings:
        rep.violation('proof obligation used by C16 no longer checks: ' + json.dumps(detail)[:600], {'broken': detail}, False)
    return rep


def replay(path):
    rep = core.Report('C16', 'quick', json.load(open(path)).get('seed', 0))
    run(rep)
    return rep.finish()
