"""C09 — the tautology prover is a correct decision procedure."""
from __future__ import annotations

import itertools
import json
import random

from .. import core, sx

THEOREMS = ['C09.ofForm_eval', 'C09.ofForm_shape', 'C09.propagNeg_spec', 'C09.toCnf_spec', 'C09.toCnf_terminates',
            'C09.toClauses_spec', 'C09.resolvable_sound', 'C09.refutation_sound', 'C09.all_trivial_valid',
            'C09.saturation_complete', 'C09.prover_decides',
            'C09.prover_translated', 'C09.prover_text_is_the_model', 'C09.prover_text_decides',
            'C09.stage_proofs_translated', 'C09.stage_proofs_conj_form', 'C09.stage_proofs_propag_neg', 'C09.stage_proofs_cnf',
            'C09.stage_proofs_clauses', 'C09.resolution_proof_conclusion', 'C09.prover_proof_conclusion_is_literal', 'C09.stage_data_is_the_data_slice',
            'C09.clause_proofs_translated', 'C09.clause_utilities_conclude', 'C09.clause_builders_prove',
            'C09.resolution_proof_conclusion_closed', 'C09.prover_proof_conclusion_is_literal_closed', 'C09.prover_returns_proof_sound', 'C09.prover_returns_proof_complete', 'C09.prover_returns_proof_iff',
            # termination of the model (Props/C09b.lean, TautTotal.lean): the saturation loop terminates (duplicate-free list of canonical clauses
            # over the initial literals), explicit fuel bound; the completeness statements hold with no hypothesis that the model answers
            'C09.model_fuel_monotone', 'C09.saturation_terminates', 'C09.resolution_total', 'C09.proveTautology_total', 'C09.prover_total',
            'C09.prover_decides_bound', 'C09.prover_decides_total', 'C09.verdict_spec', 'C09.prover_text_decides_total',
            'C09.prover_returns_proof_complete_total', 'C09.prover_returns_proof_iff_total', 'C09.Ex.thresholds']


def all_forms(size, nv):
    memo = {}

    def go(n):
        if n in memo:
            return memo[n]
        out = []
        if n == 1:
            out = ['bot'] + [('var', i) for i in range(nv)]
        else:
            for a in range(1, n - 1):
                for l in go(a):
                    for r in go(n - 1 - a):
                        out.append(('imp', l, r))
        memo[n] = out
        return out
    return go(size)


def fstr(f):
    if f == 'bot' or f == 'top':
        return f
    if f[0] == 'var':
        return f'(var {f[1]})'
    return '(' + f[0] + ' ' + ' '.join(fstr(x) for x in f[1:]) + ')'


def ev(f, v):
    if f == 'bot':
        return False
    if f == 'top':
        return True
    k = f[0]
    if k == 'var':
        return v[f[1]]
    if k == 'imp':
        return (not ev(f[1], v)) or ev(f[2], v)
    if k == 'neg':
        return not ev(f[1], v)
    if k == 'and':
        return ev(f[1], v) and ev(f[2], v)
    if k == 'or':
        return ev(f[1], v) or ev(f[2], v)
    if k == 'equiv':
        return ev(f[1], v) == ev(f[2], v)
    raise ValueError(f)


def atoms(f, acc=None):
    acc = set() if acc is None else acc
    if isinstance(f, tuple):
        if f[0] == 'var':
            acc.add(f[1])
        else:
            for x in f[1:]:
                atoms(x, acc)
    return acc


def classify(f):
    """'true' (tautology), 'false' (unsatisfiable), 'none' (contingent) by truth table"""
    at = sorted(atoms(f))
    vals = []
    for bits in itertools.product((False, True), repeat=len(at)):
        vals.append(ev(f, dict(zip(at, bits))))
    if all(vals):
        return 'true'
    if not any(vals):
        return 'false'
    return 'none'


def rand_form(rng, depth, nv, sugar=True):
    if depth <= 0 or rng.random() < 0.2:
        return rng.choice(['bot', ('var', rng.randrange(nv)), ('var', rng.randrange(nv))] + (['top'] if sugar else []))
    k = rng.choice(('imp', 'imp', 'neg', 'and', 'or', 'equiv') if sugar else ('imp',))
    if k == 'neg':
        return ('neg', rand_form(rng, depth - 1, nv, sugar))
    return (k, rand_form(rng, depth - 1, nv, sugar), rand_form(rng, depth - 1, nv, sugar))


def cf_eval(x, v):
    k = x[0]
    neg = x[1] == 'true'
    if k == 'bot':
        r = False
    elif k == 'var':
        r = v.get(int(x[2]), False)
    elif k == 'or':
        r = cf_eval(x[2], v) or cf_eval(x[3], v)
    else:
        r = cf_eval(x[2], v) and cf_eval(x[3], v)
    return r != neg


def clause_eval(cls, v):
    return all(any((v.get(abs(l) - 1, False)) == (l > 0) for l in c) for c in cls)


def clauses_sat(cls):
    at = sorted({abs(l) for c in cls for l in c})
    for bits in itertools.product((False, True), repeat=len(at)):
        v = dict(zip(at, bits))
        if all(any(v[abs(l)] == (l > 0) for l in c) for c in cls):
            return True
    return False


def run(rep):
    rng = random.Random(rep.seed * 1000003 + 9)
    ok, detail = core.proof_gate(rep, 'Pi2.Props.C09b', THEOREMS)
    quick = rep.tier == 'quick'
    forms = []
    if quick:
        for n in (1, 3, 5):
            forms += all_forms(n, 3)
        f7 = all_forms(7, 2)
        forms += rng.sample(f7, 250)
    else:
        for n in (1, 3, 5, 7):
            forms += all_forms(n, 3)
        forms += rng.sample(all_forms(9, 3), 6000)
    n_exh = len(forms)
    for _ in range(200 if quick else 5000):
        forms.append(rand_form(rng, rng.choice((2, 3, 4)), rng.choice((2, 3, 4))))
    plain = [f for f in forms[:n_exh]]
    # verdicts: model vs real vs truth table
    lines = [f'taut-prove {fstr(f)}' for f in plain]
    la = core.lean_drv(lines)
    pl = [f'taut-prove {fstr(f)}' for f in forms]
    pa = core.py_h(pl)
    dis = [{'request': l, 'model': a, 'python': b} for l, a, b in zip(lines, la, pa) if a != b]
    findings = []
    verdicts = {'true': 0, 'false': 0, 'none': 0}
    n_exhausted = 0
    for f, ans in zip(forms, pa):
        want = classify(f)
        verdicts[want] += 1
        if ans == 'fuel':
            # CPython's recursion limit (RecursionError; the C-level limit of `==` on deeply nested terms cannot be raised):
            # resource exhaustion on a large normal form — an observable failure, never a verdict (DESIGN 0.5 "Fuel")
            n_exhausted += 1
            continue
        if ans != want:
            findings.append({'key': 'verdict', 'formula': fstr(f), 'prover': ans, 'truth_table': want,
                             'what': f'prove_tautology answers {ans} for a formula that is {"a tautology" if want == "true" else "unsatisfiable" if want == "false" else "contingent"}'})
    # stages: model vs real, chained on the real outputs; truth-table equivalence of every stage
    st = plain if quick else plain[:4000]
    cfl = [f'taut-cf (imp {fstr(f)} bot)' for f in st]
    cfa = core.py_h(cfl)
    cfm = core.lean_drv(cfl)
    chain_dis = [{'request': l, 'model': a, 'python': b} for l, a, b in zip(cfl, cfm, cfa) if a != b]
    nonbot = [(f, a) for f, a in zip(st, cfa) if a.startswith('(') and not a.startswith('(bot') and not a.startswith('(raise')]
    stages = 0
    for name, prev_idx in (('taut-propag', None),):
        pass
    cur = [a for _, a in nonbot]
    srcf = [f for f, _ in nonbot]
    for f, a in zip(st, cfa):
        if a.startswith('(raise'):
            findings.append({'key': 'stage-raise', 'formula': fstr(f), 'what': 'to_conj_form raises on a propositional pattern'})
    for f, a in nonbot:
        x = sx.parse(a)[0]
        at = sorted(atoms(f))
        for bits in itertools.product((False, True), repeat=len(at)):
            v = dict(zip(at, bits))
            if cf_eval(x, v) != (not ev(f, v)):
                findings.append({'key': 'stage-conjform', 'formula': fstr(f), 'output': a, 'what': 'to_conj_form(¬f) is not equivalent to ¬f'})
                break
    for cmd, key in (('taut-propag', 'propag'), ('taut-cnf', 'cnf')):
        rl = [f'{cmd} {a}' for a in cur]
        ra = core.py_h(rl)
        rm = core.lean_drv(rl)
        chain_dis += [{'request': l, 'model': a, 'python': b} for l, a, b in zip(rl, rm, ra) if a != b]
        for f, before, after in zip(srcf, cur, ra):
            stages += 1
            if not after.startswith('(') or after.startswith('(raise'):
                findings.append({'key': 'stage-raise', 'formula': fstr(f), 'stage': key, 'input': before, 'what': f'{cmd} raises'})
                continue
            xb, xa = sx.parse(before)[0], sx.parse(after)[0]
            at = sorted(atoms(f))
            for bits in itertools.product((False, True), repeat=len(at)):
                v = dict(zip(at, bits))
                if cf_eval(xb, v) != cf_eval(xa, v):
                    findings.append({'key': 'stage-' + key, 'formula': fstr(f), 'input': before, 'output': after,
                                     'what': f'{cmd} does not preserve truth'})
                    break
        cur = [a if a.startswith('(') and not a.startswith('(raise') else b for a, b in zip(ra, cur)]
    cl = [f'taut-clauses {a}' for a in cur]
    ca = core.py_h(cl)
    cm = core.lean_drv(cl)
    chain_dis += [{'request': l, 'model': a, 'python': b} for l, a, b in zip(cl, cm, ca) if a != b]
    for f, before, after in zip(srcf, cur, ca):
        if after.startswith('(raise'):
            findings.append({'key': 'stage-raise', 'formula': fstr(f), 'stage': 'clauses', 'input': before, 'what': 'to_clauses raises on the CNF'})
            continue
        xb = sx.parse(before)[0]
        cls = [[int(t) for t in c] for c in sx.parse(after)[0]]
        at = sorted(atoms(f))
        for bits in itertools.product((False, True), repeat=len(at)):
            v = dict(zip(at, bits))
            if cf_eval(xb, v) != clause_eval(cls, v):
                findings.append({'key': 'stage-clauses', 'formula': fstr(f), 'input': before, 'output': after, 'what': 'to_clauses does not preserve truth'})
                break
    # resolution on clause sets in EVERY ordering (the pinned defect is order dependent)
    rsets = []
    for _ in range(40 if quick else 600):
        n = rng.randint(2, 4 if quick else 5)
        cs = []
        for _ in range(n):
            k = rng.randint(1, 3)
            lits = rng.sample([1, 2, 3, -1, -2, -3], k)
            cs.append(sorted(set(lits)))
        rsets.append(cs)
    rl = []
    rmeta = []
    for cs in rsets:
        for perm in itertools.permutations(cs):
            rl.append('taut-resolve (%s)' % ' '.join('(' + ' '.join(map(str, c)) + ')' for c in perm))
            rmeta.append(list(perm))
    rl = rl[:6000 if quick else 200000]
    ra = core.py_h(rl)
    rm = core.lean_drv(rl)
    chain_dis += [{'request': l, 'model': a, 'python': b} for l, a, b in zip(rl, rm, ra) if a != b]
    for l, cs, ans in zip(rl, rmeta, ra):
        triv = all(any(-x in c for x in c) for c in cs)
        sat = clauses_sat(cs)
        want = 'true' if triv else ('false' if not sat else 'none')
        if ans != want:
            findings.append({'key': 'resolution', 'clauses': cs, 'prover': ans, 'expected': want,
                             'what': f'resolution answers {ans} for a clause list that is {"valid" if triv else "unsatisfiable" if not sat else "satisfiable and not valid"}'})
    # proof objects: conclusion literally the pattern / its negation, all stage thunks prove the two implications, everything replays
    sample = rng.sample(forms, 60 if quick else 1500)
    ck = [f'taut-prove-checked {fstr(f)}' for f in sample] + [f'taut-stages-checked {fstr(f)}' for f in sample if not isinstance(f, str)]
    cka = core.py_h(ck)
    for l, a in zip(ck, cka):
        if a.startswith('(bad') or a.startswith('(raise'):
            findings.append({'key': 'proof-object', 'request': l, 'python': a, 'what': 'a returned proof object does not prove what it should / does not replay: ' + a[:80]})
    rep.coverage.update({
        'evaluations': len(pl) + len(cfl) + stages + len(cl) + len(rl) + len(ck),
        'distinct_nontrivial': len(set(pl)) + len(set(rl)),
        'rule': 'ALL propositional patterns of size 1,3,5%s over 3 atoms and a sample of size %d, random patterns with ¬,∧,∨,↔,⊤ '
                'notation to depth 4; verdict vs truth table; every normal-form stage on ¬f vs truth table and vs the model; '
                'resolution on clause sets in EVERY ordering; returned proof objects (final and the two implications of every '
                'stage) checked for literal conclusion and replay on a StatefulInterpreter' % ('' if quick else ',7', 7 if quick else 9),
        'programs': len(pl) + len(rl), 'disagreements_checked': len(dis) + len(chain_dis) + len(findings),
        'truth_table_classes': verdicts, 'resource_exhausted_no_verdict': n_exhausted, 'clause_orderings': len(rl), 'proof_objects_checked': len(ck),
        'samples': [pl[0], pl[-1], rl[0], ck[0]],
    })
    for f in findings[:8]:
        rep.violation(f['what'], f, True, key='py-taut:' + f['key'] + ':' + str(f.get('formula', f.get('clauses', f.get('request', ''))))[:150])
    if not findings:
        for d in (dis + chain_dis)[:5]:
            rep.violation('the prover differs from the model; no wrong verdict or stage found',
                          dict(d, broken='correspondence taut-* Python↔Pi2.Taut'), False)
    if not ok and not (dis or chain_dis or findings):
        rep.violation('proof obligation of C09 no longer checks: ' + json.dumps(detail)[:600], {'broken': detail}, False)
    return rep


def replay(path):
    rep = core.Report('C09', 'quick', json.load(open(path)).get('seed', 0))
    run(rep)
    return rep.finish()
