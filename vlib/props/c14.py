"""C14 — binary round trip: deserialising a serialised proof replays it."""
from __future__ import annotations

import json
import random

from .. import core, gen, genhist, pymach as pm, sx

THEOREMS = ['C14.serializer_bytes_tied', 'C14.deserializer_text_is_the_model', 'C14.deserializer_text_is_the_model_gamma_claim', 'C14.deserializer_text_undecodable', 'C14.deserializer_duplicate_keys_outside_model', 'C14.decode_encode', 'C14.decode_unique', 'C14.truncated_is_error', 'C14.unknown_is_error',
            'C14.deserialize_replays_call', 'C14.deserialize_replays_history', 'C14.opcodes_tied',
            # the round trip on the TEXTS (Props/C14b.lean, EndToEnd2.lean): bytes of the translated serializer methods fed to the translated
            # deserializer running on the tracker and on the translated StatefulInterpreter end in the history's state; errors at text level
            'C14.roundtrip_text_phase', 'C14.roundtrip_text', 'C14.deserMod_is_deserialize', 'C14.undecodable_text', 'C14.truncated_is_error_text',
            'C14.unknown_is_error_text', 'C14.unknown_head_raises_text', 'C14.keys_excluded_point', 'C14.RoundTripExample.mod_roundtrip',
            # "the same sequence of machine steps" (Props/C14c.lean, EndToEnd3.lean): one interpreter call per instruction, re-serialising the
            # replay gives the same streams, the states are related after EVERY prefix — model, translated deserializer, translated interpreter
            'C14.one_call_per_instruction', 'C14.text_step_makes_the_model_call', 'C14.roundtrip_same_steps', 'C14.roundtrip_text_same_steps_phase',
            'C14.roundtrip_text_same_steps', 'C14.calls_correspond_only_up_to_notation', 'C14.RoundTripExample.mod_same_steps',
            'C14.RoundTripExample.mod_every_prefix']


def dup_keys(bs):
    d = pm.decode(bs)
    if d is None:
        return False
    return any(i[0] == 'instantiate' and len(set(i[1])) != len(i[1]) for i in d)


def renumber_state(s):
    """canonicalise symbol numbers by first occurrence in the printed state"""
    import re
    seen = {}

    def f(m):
        k = m.group(1)
        if k not in seen:
            seen[k] = str(len(seen))
        return '(sym ' + seen[k] + ')'
    return re.sub(r'\(sym (\d+)\)', f, s)


def decimal_names(rng, cl, calls):
    """family: some symbols NAMED like the ids the deserialiser hands out — a symbol number 3000+d is the Python symbol called
    `str(d)` (harness/py/pyconv.py), as K domain values are (`Symbol(str(value))`) — next to ordinarily named ones"""
    if rng.random() < 0.6:
        return cl, calls
    syms = sorted({c[1] for c in calls if c[0] == 'symbol'})
    if not syms:
        return cl, calls
    ds = list(range(0, 6))
    rng.shuffle(ds)
    mp = {s: 3000 + d for s, d in zip(rng.sample(syms, rng.randint(1, min(len(syms), 4))), ds)}

    def go(t):
        if isinstance(t, tuple):
            if len(t) == 2 and t[0] in ('sym', 'symbol') and t[1] in mp:
                return (t[0], mp[t[1]])
            return tuple(go(x) for x in t)
        if isinstance(t, list):
            return [go(x) for x in t]
        return t
    return go(cl), go(calls)


def run(rep):
    rng = random.Random(rep.seed * 1000003 + 14)
    ok, detail = core.proof_gate(rep, 'Pi2.Props.C14c', THEOREMS)
    quick = rep.tier == 'quick'
    N = 300 if quick else 5000
    hs = [decimal_names(rng, *genhist.gen_history(rng, rng.choice((8, 15, 30, 50)))) for _ in range(N)]
    lines = ['track ' + genhist.history_to_s(cl, calls) for cl, calls in hs]
    pa = core.py_h(lines)
    la = core.lean_drv(lines)
    dis = [{'request': l[:3000], 'model': a[:1500], 'python': b[:1500]} for l, a, b in zip(lines, la, pa) if a != b]
    reqs, meta = [], []
    n_prefix = 0
    for (cl, calls), ans in zip(hs, pa):
        if not ans.startswith('(ok'):
            continue
        x = sx.parse(ans)[0]
        g, c, p = x[-3], x[-2], x[-1]
        # the claims handed to the deserialising interpreter use the serialiser's symbol ids
        order = []
        for cc in calls:
            if cc[0] == 'symbol' and cc[1] not in order:
                order.append(cc[1])

        def ren(q):
            k = q[0]
            if k == 'sym':
                return ('sym', order.index(q[1]) if q[1] in order else q[1])
            if k in ('imp', 'app'):
                return (k, ren(q[1]), ren(q[2]))
            if k in ('ex', 'mu'):
                return (k, q[1], ren(q[2]))
            if k in ('esub', 'ssub'):
                return (k, ren(q[1]), q[2], ren(q[3]))
            if k == 'inst':
                return ('inst', ren(q[1]), tuple((a, ren(b)) for a, b in q[2]))
            return q
        cls = ' '.join(sx.pat_to_s(ren(q)) for q in cl)
        reqs.append(f'deser (claims {cls}) {g} {c} {p}'); meta.append(('roundtrip', ans))
        bs = [[] if h == '-' else list(bytes.fromhex(h)) for h in (g, c, p)]
        for _ in range(2):
            which = rng.randrange(3)
            t = [list(z) for z in bs]
            r = rng.random()
            if r < 0.35 and t[which]:
                t[which] = t[which][:rng.randrange(len(t[which]))]         # truncation
                tag = 'truncated'
            elif r < 0.55 and t[which]:
                t[which][rng.randrange(len(t[which]))] = rng.choice((0, 1, 16, 17, 18, 20, 23, 25, 31, 200))   # unknown opcode
                tag = 'unknown'
            else:
                t[which] = gen.mutate(rng, t[which])
                tag = 'mutated'
            if any(dup_keys(z) for z in t):
                continue
            reqs.append('deser (claims %s) %s %s %s' % (cls, *[sx.hexs(z) for z in t])); meta.append((tag, None))
        # every prefix of a stream that contains a constrained MetaVar (five length-prefixed lists): a cut inside any of the
        # lists, the last one included, must be reported
        if n_prefix < (12 if quick else 150):
            for which in range(3):
                if 9 in bs[which] and len(bs[which]) <= 160:
                    n_prefix += 1
                    for cut in range(len(bs[which])):
                        t = [list(z) for z in bs]
                        t[which] = t[which][:cut]
                        reqs.append('deser (claims %s) %s %s %s' % (cls, *[sx.hexs(z) for z in t])); meta.append(('truncated', None))
                    break
    dl = core.lean_drv(reqs)
    dp = core.py_h(reqs)
    ddis = [{'request': l[:3000], 'model': a[:1500], 'python': b[:1500], 'class': m[0]}
            for l, a, b, m in zip(reqs, dl, dp, meta) if a != b]
    # the round-trip law on the REAL code: deserialising the bytes of a history reproduces its final state
    # (terms compared after full expansion: a Load replays the memory entry, which is == to the loaded term but may be
    # written with different notation)
    rt = [(r, hs_i) for r, m, hs_i in zip(reqs, meta, meta) if m[0] == 'roundtrip']
    rt_reqs = [r.replace('deser ', 'deser-x ', 1) for r, _ in rt]
    rt_hist = ['track-x ' + genhist.history_to_s(cl, calls) for (cl, calls), ans in zip(hs, pa) if ans.startswith('(ok')]
    dx = core.py_h(rt_reqs)
    tx = core.py_h(rt_hist)
    dxl = core.lean_drv(rt_reqs)
    bad = []
    n_rt = len(rt_reqs)
    n_retyped = 0
    for r, want, got, gotl in zip(rt_reqs, tx, dx, dxl):
        if not got.startswith('(ok') and got == gotl:
            # the endpoint's static-typing wrapper (esubst / ssubst want a MetaVar | ESubst | SSubst) refused a term the history spelled
            # as a metavariable and the memory replays as the == notation node around it; model and endpoint agree on the refusal.
            # Decide the law on the interpreter as shipped.
            got2 = core.py_h([r.replace('deser-x ', 'deser-ux ', 1)])[0]
            if got2.startswith('(ok') and renumber_state(got2) == renumber_state(want):
                n_retyped += 1
                continue
            got = got2
        if not got.startswith('(ok'):
            bad.append({'request': r, 'python': got, 'problem': 'deserialiser raises on bytes the serialiser emitted'})
        elif renumber_state(got) != renumber_state(want):
            bad.append({'request': r, 'serialiser_state': renumber_state(want)[:3000],
                        'deserialiser_state': renumber_state(got)[:3000], 'problem': 'replayed state differs'})
        if got != gotl:
            ddis.append({'request': r, 'model': gotl[:1500], 'python': got[:1500], 'class': 'roundtrip-x'})
    # truncated / unknown input must be an error whenever the stream no longer decodes
    silent = []
    for r, ans, m in zip(reqs, dp, meta):
        if m[0] in ('truncated', 'unknown'):
            parts = r.split()
            streams = [[] if h == '-' else list(bytes.fromhex(h)) for h in parts[-3:]]
            if any(pm.decode(z) is None for z in streams) and ans.startswith('(ok'):
                silent.append({'request': r, 'python': ans[:300], 'problem': 'undecodable input accepted silently'})
    ops = {}
    for (cl, calls) in hs:
        for c in calls:
            ops[c[0]] = ops.get(c[0], 0) + 1
    rep.coverage.update({
        'evaluations': len(lines) + len(reqs), 'distinct_nontrivial': len(set(lines)) + len(set(reqs)),
        'rule': 'call histories over all three phases (every instruction the serialiser can emit: ESubst/SSubst, constrained '
                'MetaVar, Quantifier, Generalization, Instantiate on patterns and proofs, Save/Load/Pop, Publish in every phase); '
                'their bytes are deserialised into a fresh PrettyPrintingInterpreter (round trip) and, truncated / with an '
                'unknown opcode / mutated, compared with the model of deserialize.py',
        'programs': len(lines) + len(reqs), 'disagreements_checked': len(dis) + len(ddis) + len(bad) + len(silent),
        'roundtrips': n_rt, 'roundtrips_decided_without_the_typing_wrapper': n_retyped, 'call_histogram': ops,
        'deser_outcomes': {k: sum(1 for a in dp if a.startswith(k)) for k in ('(ok', '(raise gamma', '(raise claim', '(raise proof')},
        'samples': [reqs[0][:600], dp[0][:300], reqs[1][:300], dp[1][:100]],
    })
    rep.assumptions.append('mutated streams containing an Instantiate with duplicate keys are skipped: the serialiser never emits '
                           'them and Python dict semantics on duplicates is not modelled')
    for b in (bad + silent)[:8]:
        rep.violation('binary round trip fails: ' + b['problem'], b, True, key='py-roundtrip:' + b['problem'])
    if not (bad or silent):
        for d in (ddis + dis)[:5]:
            rep.violation('deserialiser/serialiser differs from the model; no round-trip failure found',
                          dict(d, broken='correspondence deser/track Python↔Pi2.Deserialize/Pi2.Tracker'), False)
    if not ok and not (bad or silent or ddis or dis):
        rep.violation('proof obligation of C14 no longer checks: ' + json.dumps(detail)[:600], {'broken': detail}, False)
    return rep


def replay(path):
    rep = core.Report('C14', 'quick', json.load(open(path)).get('seed', 0))
    run(rep)
    return rep.finish()
