"""C06 — freshness and positivity judgements are sound for every instantiation."""
from __future__ import annotations

import json
import random

from .. import core, gen, sx, textbook as tb

THEOREMS = ['C06.eFresh_judgement_sound', 'C06.sFresh_judgement_sound', 'C06.positive_negative_judgement_sound',
            'C06.rust_judgements_are_the_model', 'C06.rust_e_fresh_sound', 'C06.rust_polarity_sound', 'C06.syntactic_instantiation_admissible', 'C06.instantiation_semantics', 'C06.eFresh_of_instance',
            'C06.sFresh_of_instance', 'C06.positive_of_instance', 'C06.negative_of_instance',
            'C06.python_evar_is_free_is_judgement_of_expansion']
NOTATION_THEOREMS = ['NPat.evarIsFreeF_expand']


def pool(rng):
    base = [('evar', 0), ('evar', 1), ('svar', 0), ('svar', 1), ('sym', 0)]
    out = list(base)
    for _ in range(18):
        out.append(gen.gen_pat(rng, 2, meta=False))
    return out


def respects(mv, q):
    """textbook check that concrete q may instantiate the metavariable record"""
    _, _, ef, sf, ps, ns, _ = mv
    if set(ef) & tb.fv_e(q) or set(sf) & tb.fv_s(q):
        return False
    for X in ps:
        if False in tb.occurrences(q, X):
            return False
    for X in ns:
        if True in tb.occurrences(q, X):
            return False
    return True


def mvs_of(p, acc=None):
    if acc is None:
        acc = []
    k = p[0]
    if k == 'mv':
        acc.append(p)
    elif k in ('imp', 'app'):
        mvs_of(p[1], acc); mvs_of(p[2], acc)
    elif k in ('ex', 'mu'):
        mvs_of(p[2], acc)
    elif k in ('esub', 'ssub'):
        mvs_of(p[1], acc); mvs_of(p[3], acc)
    elif k == 'inst':
        mvs_of(p[1], acc)
        for _, v in p[2]:
            mvs_of(v, acc)
    return acc


def run(rep):
    rng = random.Random(rep.seed * 1000003 + 6)
    ok, detail = core.proof_gate(rep, 'Pi2.Props.C06', THEOREMS)
    core.rust_build()
    quick = rep.tier == 'quick'
    N = 2500 if quick else 40000
    pats = [gen.gen_pat(rng, rng.choice((1, 2, 3, 3, 4)), wf_shape=(rng.random() < 0.8)) for _ in range(N)]
    for n in (1, 2, 3) if quick else (1, 2, 3, 4):
        pats += gen.all_small_pats(n)
    kinds = ('efresh', 'sfresh', 'pos', 'neg')
    lines, meta = [], []
    for p in pats:
        for k in kinds:
            for x in (0, 1):
                lines.append(f'judge {k} {x} {sx.pat_to_s(p)}'); meta.append((k, x, p))
    la = core.lean_drv(lines)
    ra = core.rust_h(lines)
    dis = [{'request': l, 'model': a, 'rust': b} for l, a, b in zip(lines, la, ra) if a != b]
    branch = {}
    for (k, x, p), a in zip(meta, la):
        branch[(k, p[0], a)] = branch.get((k, p[0], a), 0) + 1

    # Python side: evar_is_free on notation vs the model (and vs the judgement of the expansion)
    npats = [gen.gen_npat(rng, rng.choice((1, 2, 3, 4))) for _ in range(N // 2)]
    plines = []
    for p in npats:
        for x in (0, 1):
            plines.append(f'nfree {x} {sx.pat_to_s(p)}')
    pl = core.lean_drv(plines)
    pp = core.py_h(plines)
    explines = [f'expand {sx.pat_to_s(p)}' for p in npats]
    pex = core.py_h(explines)
    jl = []
    for p, e in zip(npats, pex):
        for x in (0, 1):
            jl.append(f'judge efresh {x} {e}')
    je = core.lean_drv(jl)
    pdis = [{'request': l, 'model': a, 'python': b} for l, a, b in zip(plines, pl, pp) if a != b]
    transp = [{'request': l, 'python_on_notation': b, 'judgement_of_expansion': c}
              for l, b, c in zip(plines, pp, je) if b != c and b in ('true', 'false')]

    # oracle: brute-force instantiation on the real implementations
    P0 = pool(rng)
    P = P0
    wit = []
    checked = 0
    cand = [(k, x, p) for (k, x, p), a in zip(meta, ra) if a == 'true' and mvs_of(p)]
    rng.shuffle(cand)
    cand = cand[:600 if quick else 8000]
    # judgements on which the checker says 'true' and the (sound) model says 'false' are searched much harder,
    # with every small concrete pattern as a plug: this is where a violating instance must be if there is one
    suspects = [(k, x, p) for (k, x, p), a, b in zip(meta, ra, la) if a == 'true' and b == 'false' and mvs_of(p)]
    suspects.sort(key=lambda t: sx.size(t[2]))
    suspects = suspects[:40 if quick else 400]
    small = [q for n in (1, 2, 3) for q in gen.all_small_pats(n, meta=False)]
    ilines, imeta = [], []
    for k, x, p in suspects + cand:
        ms = {}
        for m in mvs_of(p):
            ms.setdefault(m[1], []).append(m)
        hard = (k, x, p) in suspects[:40 if quick else 400] and len(imeta) < 60000
        for _ in range(60 if hard else 3):
            P = small if hard else P0
            ids, plugs = [], []
            okc = True
            for mid, recs in ms.items():
                qs = [q for q in P if all(respects(r, q) for r in recs)]
                if not qs:
                    okc = False
                    break
                ids.append(mid); plugs.append(rng.choice(qs))
            if not okc:
                continue
            ilines.append('inst (%s) (%s) %s' % (' '.join(map(str, ids)), ' '.join(sx.pat_to_s(q) for q in plugs),
                                                  sx.pat_to_s(p)))
            imeta.append((k, x, p, ids, plugs))
    ires = core.rust_h(ilines) if ilines else []
    for (k, x, p, ids, plugs), r in zip(imeta, ires):
        if not r.startswith('(some '):
            continue
        c = sx.pat_of_sx(sx.parse(r)[0][1])
        if not tb.concrete(c):
            continue
        checked += 1
        bad = ((k == 'efresh' and x in tb.fv_e(c)) or (k == 'sfresh' and x in tb.fv_s(c)) or
               (k == 'pos' and False in tb.occurrences(c, x)) or (k == 'neg' and True in tb.occurrences(c, x)))
        if bad:
            wit.append({'judgement': k, 'var': x, 'pattern': sx.pat_to_s(p), 'ids': ids,
                        'plugs': [sx.pat_to_s(q) for q in plugs], 'instance': sx.pat_to_s(c)})
    # the same for Python's evar_is_free: judged fresh on notation => not free in the concrete expansion instance
    pwit = []
    pchecked = 0
    for i, (p, e) in enumerate(zip(npats, pex)):
        ep = sx.pat_of_s(e)
        if not tb.concrete(ep):
            continue
        for x in (0, 1):
            pchecked += 1
            if pp[2 * i + x] == 'true' and x in tb.fv_e(ep):
                pwit.append({'pattern': sx.pat_to_s(p), 'var': x, 'expansion': e, 'python_says': 'fresh'})
            if pp[2 * i + x] == 'false' and x not in tb.fv_e(ep):
                pass   # "not fresh" although absent is conservative, not a violation of soundness

    total = len(lines) + len(plines)
    rep.coverage.update({
        'evaluations': total, 'distinct_nontrivial': len(set(lines)) + len(set(plines)),
        'rule': 'judgement requests: 4 judgements x 2 variables on random meta-patterns (depth<=4, stacked ESubst/SSubst, '
                'constrained metavariables) and on ALL patterns of size<=%d over 2 ids (Rust vs model); evar_is_free on '
                'random patterns with nested/partial notation (Python vs model vs judgement of the expansion); oracle: '
                'brute-force constraint-respecting instantiation from a pool of %d concrete patterns through the REAL '
                'instantiate, then textbook FV / polarity' % (3 if quick else 4, len(P)),
        'programs': total, 'disagreements_checked': len(dis) + len(pdis) + len(transp),
        'oracle_instances_checked': checked, 'oracle_python_checked': pchecked,
        'branch_histogram': {f'{k}/{c}/{a}': v for (k, c, a), v in sorted(branch.items())},
        'samples': [lines[0], lines[len(lines) // 2], plines[0], plines[-1]] + ilines[:2],
    })
    for w in wit[:5]:
        rep.violation(f"checker judges {w['judgement']}({w['var']}) but a constraint-respecting instance violates it",
                      w, True, key='rust-judge:' + w['pattern'] + ':' + w['judgement'] + str(w['var']))
    for w in pwit[:5]:
        rep.violation('Python evar_is_free says fresh but the variable is free in the expansion', w, True,
                      key='py-free:' + w['pattern'] + ':' + str(w['var']))
    for d in transp[:5]:
        if not pwit:
            rep.violation('Python evar_is_free on notation differs from the judgement of the expansion', d, True,
                          key='py-transp:' + d['request'])
    if not wit:
        for d in dis[:5]:
            rep.violation('Rust judgement differs from the model for which soundness is proved; no violating instance found',
                          dict(d, broken='correspondence judge Rust↔Pi2.Pattern'), False)
    if not (pwit or transp):
        for d in pdis[:5]:
            rep.violation('Python evar_is_free differs from the model; no violating instance found',
                          dict(d, broken='correspondence nfree Python↔Pi2.Notation'), False)
    if not ok and not (wit or pwit or dis or pdis or transp):
        rep.violation('proof obligation of C06 no longer checks: ' + json.dumps(detail)[:600], {'broken': detail}, False)
    return rep


def replay(path):
    rep = core.Report('C06', 'quick', json.load(open(path)).get('seed', 0))
    run(rep)
    return rep.finish()
