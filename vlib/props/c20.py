"""C20 — K execution traces become chained, checkable rewrite proofs."""
from __future__ import annotations

import json
import random

from .. import core, kgen, sx, try_kdef

THEOREMS = ['C20.scope_injective', 'C20.scope_stable', 'C20.chain_claims', 'C20.chain_links', 'C20.mismatch_refused',
            'C20.convert_subst', 'C20.kore_conversion_text_is_the_model', 'C20.rewrite_event_text_is_the_model',
            'C20.trace_text_is_the_model', 'C20.text_chain', 'C20.kore_definition_text_is_the_model',
            'C20.proof_hints_text_is_the_model', 'C20.k_pipeline_text_is_the_model', 'C20.modules_share_one_counter',
            # the LAST clause as a theorem (Props/C20b.lean, KMod*.lean, KoreModule.lean): the module of an accepted trace (own axioms incl.
            # functional assumptions, imports Substitution + KoreLemmas) is accepted by the checker model, its bytes by the translated Rust verify
            'C20.conv_in_fragment', 'C20.conv_ground_closed', 'C20.converted_step_in_fragment', 'C20.functional_assumption_ok',
            'C20.nonground_value_refused', 'C20.k_module_side', 'C20.k_module_accepted', 'C20.k_module_accepted_general',
            'C20.k_module_bytes_accepted', 'C20.k_module_u8_accepted', 'C20.k_module_sound', 'C20.Example.hypotheses_hold', 'C20.Example.accepted',
            'C20.Example.sound',
            # ... from the TEXTS (translated from_proof_hints / from_kore_definition / get_proof_hints / execute_full) and for the memoising
            # serialisation with ANY suggestion set (Props/C20c.lean, KoreText.lean, KModEq.lean, KModMemo.lean)
            'C20.k_trace_text_module_accepted', 'C20.k_trace_text_module_u8_accepted', 'C20.k_trace_text_module_sound',
            'C20.k_pipeline_text_module_accepted', 'C20.k_pipeline_ground_text_module_accepted', 'C20.eq_truthful_on_quiet', 'C20.k_patterns_quiet',
            'C20.k_module_cfg_accepted', 'C20.k_module_memo_accepted', 'C20.k_module_memo_bytes_accepted', 'C20.k_module_memo_sound',
            'C20.k_trace_text_module_memo_accepted', 'C20.Example.text_accepted', 'C20.Example.pipeline_ground_accepted', 'C20.Example.memo_accepted',
            'C20.Example.quiet_boundary',
            # definitions with SEVERAL modules (Props/C20d.lean, KDefTieM.lean; specification KDefSpec.sigOfDefinitionM): the several-module
            # specification is the one-module one on one module, the tie theorems restated with it, one counter / the signature of all modules
            # in the specification, and the tie DECIDED on a diamond of four modules for two set orders (the general several-module tie is
            # not proved: vlib/try_kdef.py compares specification / generated text / real code on generated several-module definitions)
            'C20.multi_spec_is_the_one_module_spec', 'C20.kore_definition_text_is_the_model_multi_one', 'C20.k_pipeline_text_is_the_model_multi_one',
            'C20.multi_spec_one_counter', 'C20.multi_spec_signature_of_all_modules', 'C20.ExampleMulti.diamond_ok', 'C20.ExampleMulti.island_ok',
            'C20.ExampleMulti.trace_ok', 'C20.ExampleMulti.refusals',
            # towards the general several-module tie (Props/C20e.lean, KDefTieM2-7.lean): KModule.modules = the import closure, the own-then-closure
            # searches, LanguageSemantics.modules / get_module under any valid set order, one sentence and the sentence loop on a store of k
            # modules = the specification's step, the invariant across modules (the outer module loop and the final queries are not closed)
            'C20.kmodule_modules_is_closure', 'C20.closure_is_transitive', 'C20.own_then_closure_search_sort', 'C20.own_then_closure_search_symbol',
            'C20.own_then_closure_search_axiom', 'C20.all_modules_under_any_set_order', 'C20.get_module_under_any_set_order',
            'C20.ls_get_sort_under_any_set_order', 'C20.ls_get_symbol_under_any_set_order', 'C20.sentence_on_k_module_store',
            'C20.module_sentences_text_is_spec', 'C20.invariant_across_modules', 'C20.Example2.tie',
            # the GENERAL several-module tie (Props/C20f.lean, KDefTieM8-10.lean): for every definition of InFragmentM, every valid set order and
            # fuel > number of modules, from_kore_definition raises iff sigOfDefinitionM refuses, otherwise signature / get_axiom (the rules the last
            # module reaches) / cached scopes (all rules) / lookups are the specification's; get_proof_hints and the pipeline on top
            'C20.kore_definition_text_is_the_model_multi', 'C20.kore_definition_representsM', 'C20.proof_hints_text_is_the_model_multi',
            'C20.k_pipeline_text_is_the_model_multi', 'C20.ExampleMulti.diamond_tie', 'C20.ExampleMulti.island_tie', 'C20.ExampleMulti.diamond_hints']


def unhex(h):
    return [] if h == '-' else list(bytes.fromhex(h))


def run(rep):
    rng = random.Random(rep.seed * 1000003 + 20)
    ok, detail = core.proof_gate(rep, 'Pi2.Props.C20f', THEOREMS)
    core.rust_build()
    quick = rep.tier == 'quick'
    findings = []
    worlds = [kgen.KWorld(rng) for _ in range(12 if quick else 150)]
    # ---- 1. conversion of single terms: model vs real, scope discipline
    conv_lines = []
    for w in worlds:
        for _ in range(6):
            t = w.term(rng.randint(1, 3), list(range(rng.randint(0, 4))))
            if rng.random() < 0.5:
                srt = rng.choice((('s', w.sorts[0]), ('sv', rng.randint(0, 2))))
                t = rng.choice((('and', srt, t, w.term(1, [0, 1])), ('rewrites', srt, t, w.term(2, [1, 2])), ('not', srt, t), ('equals', srt, ('sv', 1), t, w.term(1, [3])),
                                ('ceil', srt, srt, t), ('implies', srt, t, ('top', srt)), ('in', srt, srt, t, ('bottom', srt)), ('iff', srt, t, t), ('or', srt, t, ('next', srt, t)),
                                ('floor', ('sv', 2), srt, t)))
            conv_lines.append('kconv %s %s' % (w.sig_sx(), kgen.tsx(t)))
        # unknown symbol / unknown sort: both sides must refuse
        conv_lines.append('kconv %s (app 77 () ())' % w.sig_sx())
        conv_lines.append('kconv %s (top (s 9))' % w.sig_sx())
        conv_lines.append('kconv %s (app %d () ())' % (w.sig_sx(), w.cfg))     # wrong arity
    ca, cm = core.py_h(conv_lines), core.lean_drv(conv_lines)
    n_conv_ok = 0
    for l, a, m in zip(conv_lines, ca, cm):
        n_conv_ok += a.startswith('(ok')
        if a != m:
            findings.append({'key': 'model-conv', 'request': l[:1500], 'python': a[:800], 'model': m[:800],
                             'what': 'correspondence: _convert_pattern and the Lean model of it differ'})
        if a.startswith('(ok'):
            # equal variables -> equal metavariables, distinct -> distinct: ids are positions in the scope, below the sort-parameter range
            x = sx.parse(a)[0]
            mvs, sps = x[2][1], x[2][2]
            if len(set(mvs)) != len(mvs) or len(set(sps)) != len(sps):
                findings.append({'key': 'scope', 'request': l[:1500], 'python': a[:400], 'what': 'a conversion scope lists a variable twice'})
    # ---- 2. traces: model vs real vs the Kore-level oracle
    tl, tinfo = [], []
    for w in worlds:
        for flavour in ('match', 'match', 'mismatch', 'cycle'):
            if flavour == 'cycle':
                # a two-rule cycle a => b => a, run around more than once
                a, b = w.consts[0], w.consts[1]
                w2 = w
                rules = [('rewrites', ('s', w.sorts[0]), w.c(a), w.c(b)), ('rewrites', ('s', w.sorts[0]), w.c(b), w.c(a))]
                n = rng.randint(3, 5)
                init, steps = w.c(a), [(k % 2, {}) for k in range(n)]
                expected = 'ok'
                rl = rules
            else:
                init, steps, expected = w.trace(rng.randint(0, 5), flavour)
                rl = w.rules
            tl.append('ktrace %s (rules %s) %s %s' % (w.sig_sx(), ' '.join(kgen.tsx(r) for r in rl), kgen.tsx(init), w.steps_sx(steps)))
            tinfo.append((w, rl, init, steps, expected, flavour))
    ta, tm = core.py_h(tl), core.lean_drv(tl)
    n_ok = n_refused = 0
    outcomes = {}
    claim_checks = []
    for l, a, m, (w, rl, init, steps, expected, flavour) in zip(tl, ta, tm, tinfo):
        ra = a if a.startswith('(ok') else '(raise)'
        rm = m if m.startswith('(ok') else '(raise)'
        outcomes[(flavour, ra[:4])] = outcomes.get((flavour, ra[:4]), 0) + 1
        if ra != rm:
            findings.append({'key': 'model-trace', 'request': l[:2500], 'python': a[:600], 'model': m[:600], 'flavour': flavour,
                             'what': 'correspondence: ExecutionProofExp.from_proof_hints and the Lean model of it differ'})
        if expected == 'ok' and not a.startswith('(ok'):
            key = 'repeated-claim' if 'add_claim' in a else 'trace-refused'
            findings.append({'key': key, 'request': l[:2500], 'python': a[:300], 'flavour': flavour,
                             'what': 'a valid execution trace is refused: ' + a[:120] + (' (the trace revisits a configuration, so a claim occurs twice)' if key == 'repeated-claim' else '')})
        if expected != 'ok' and a.startswith('(ok'):
            findings.append({'key': 'mismatch-accepted', 'request': l[:2500], 'python': a[:300], 'expected': str(expected),
                             'what': f'a trace whose step {expected[1]} does not start from the configuration reached (or substitutes a non-functional term) is accepted'})
        if a.startswith('(ok'):
            n_ok += 1
            x = sx.parse(a)[0]
            claims = x[2][1:]
            if len(claims) != len(steps):
                findings.append({'key': 'claims', 'request': l[:2500], 'what': f'{len(claims)} claims for {len(steps)} steps'})
            # each claim is the conversion of the instantiated rule (the oracle substitutes at the Kore level)
            for k, (i, sg) in enumerate(steps):
                inst = kgen.subst(rl[i], sg)
                if not kgen.evars(inst):
                    claim_checks.append((l, k, 'kconv %s %s' % (w.sig_sx(), kgen.tsx(inst)), claims[k] if k < len(claims) else None))
        else:
            n_refused += 1
    # compare claims with the converted instantiated rules modulo notation (expand both)
    if claim_checks:
        conv = core.py_h([c[2] for c in claim_checks])
        el = []
        for (l, k, _, claim), a in zip(claim_checks, conv):
            el.append('expand ' + sx.dump(sx.parse(a)[0][1]) if a.startswith('(ok') else 'expand (evar 0)')
            el.append('expand ' + sx.dump(claim) if claim is not None else 'expand (evar 1)')
        ea = core.py_h(el)
        for j, (l, k, _, claim) in enumerate(claim_checks):
            if ea[2 * j] != ea[2 * j + 1]:
                findings.append({'key': 'claim-differs', 'request': l[:2500], 'step': k, 'expected': ea[2 * j][:500], 'claimed': ea[2 * j + 1][:500],
                                 'what': f'claim {k} is not the instantiated rewrite of step {k} (conversion of the substituted rule)'})
    # ---- 3. serialisation of accepted traces: checker verdict and journal
    ml = [l.replace('ktrace ', 'kmodule ', 1) for l, a in zip(tl, ta) if a.startswith('(ok')][: (15 if quick else 200)]
    mo = core.py_h(ml)
    n_checked = 0
    for l, a in zip(ml, mo):
        if not a.startswith('(module'):
            findings.append({'key': 'serialize', 'request': l[:2000], 'python': a[:300], 'what': 'an accepted trace cannot be serialised: ' + a[:100]})
            continue
        x = sx.parse(a)[0]
        gamma = [sx.dump(t) for t in x[3][1:]]
        claims = [sx.dump(t) for t in x[4][1:]]
        for which, r in (('plain', x[1]), ('optimised', x[2])):
            if r[0] != 'ok':
                findings.append({'key': 'serialize', 'request': l[:2000], 'python': sx.dump(r)[:200], 'what': f'an accepted trace cannot be serialised ({which})'})
                continue
            n_checked += 1
            g, c, p = unhex(r[1]), unhex(r[2]), unhex(r[3])
            if not core.real_checker(g, c, p, tag='c20'):
                jr = core.lean_drv([f'journal {r[1]} {r[2]} {r[3]}'])[0]
                findings.append({'key': 'checker-rejects', 'request': l[:2000], 'journal': jr[:500], 'gamma': r[1][:4000], 'claim': r[2][:2000], 'proof': r[3][:4000],
                                 'what': f'the serialised trace module ({which}) is rejected by the checker: {jr[:150]}'})
                continue
            jr = core.lean_drv([f'journal {r[1]} {r[2]} {r[3]}'])[0]
            if jr.startswith('(journal'):
                jx = sx.parse(jr)[0]
                jg = [sx.dump(t) for t in jx[1][1:]]
                jc = [sx.dump(t) for t in jx[2][1:]]
                # symbols are numbered by first use in the files: compare modulo a consistent renaming
                if not same_modulo_symbols(jg + jc, gamma + list(reversed(claims))):
                    findings.append({'key': 'journal', 'request': l[:2000], 'journal': jr[:800],
                                     'what': 'the published axioms / claims are not the declared axioms (imports first) and the claims of the steps (in reverse order)'})
    # ---- 3b. the axioms of the modules ExecutionProofExp imports (Substitution: func_subst_axiom; KoreLemmas > Definedness: ceil(x0)) are
    #          transcribed by hand in Pi2/KoreModule.lean (`kImports`, hypothesis-free part of C20.k_module_accepted): compare them with the
    #          first axioms every REAL trace module publishes
    ki = core.lean_gen(['kimports'])
    n_imports = 0
    if ki is not None and ki[0].startswith('(kimports'):
        want = [sx.dump(t) for t in sx.parse(ki[0])[0][1:]]
        for l, a in zip(ml, mo):
            if a.startswith('(module'):
                xa = sx.parse(a)[0]
                if not xa[4][1:]:
                    continue        # no step: from_proof_hints returns a plain ProofExp without imports (nothing is claimed)
                got = [sx.dump(t) for t in xa[3][1:]][:len(want)]
                n_imports += 1
                if not same_modulo_symbols(got, want):
                    findings.append({'key': 'model-imports', 'request': l[:1500], 'python': ' '.join(got)[:1200], 'model': ' '.join(want)[:1200],
                                     'what': 'correspondence: the axioms of the imported modules (Substitution, KoreLemmas/Definedness) differ from Pi2/KoreModule.lean kImports'})
                    break
    rep.coverage.update({'imported_axioms_compared': n_imports})
    # ---- 4. the sort-parameter id range (known limitation): 101 variables and a sort variable
    w = worlds[0]
    f, ar = w.ctors[0]
    big = w.c(w.consts[0])
    for v in range(101):
        big = ('app', f, (), tuple([('evar', v)] + [big] * (ar - 1))) if ar > 1 else ('and', ('s', w.sorts[0]), ('evar', v), big)
    probe = ('and', ('sv', 0), big, ('top', ('sv', 0)))
    pa = core.py_h(['kconv %s %s' % (w.sig_sx(), kgen.tsx(probe))])[0]
    if pa.startswith('(ok') and '(mv 100 ' in pa:
        x = sx.parse(pa)[0]
        if len(x[2][1]) > 100 and x[2][2]:
            findings.append({'key': 'id-collision', 'python': pa[-300:],
                             'what': 'a rule with more than 100 variables and a sort variable: the 101st variable and the first sort parameter both become MetaVar(100)'})
    # ---- 4b. the conversion scope is PER AXIOM (anchor: language_semantics.py, `scope = ConvertionScope()` in the rule branches): a module
    #          of 55 two-variable rules followed by a rule with two variables and a sort variable.  Every rule's scope must list exactly
    #          that rule's variables; otherwise variable numbers accumulate over the module and, past 100 names, a variable of the last
    #          rule and its sort parameter become the same metavariable although the rule has two variables
    cells = [d for d in w.syms if d[3] and d[2] >= 3]
    n_scope_rules = 0
    if cells:
        s0 = ('s', w.sorts[0])
        mk = lambda a, b, c_: ('app', cells[0][0], (), tuple([a, b, c_] + [w.c(w.consts[0])] * (cells[0][2] - 3)))   # noqa: E731
        many = [('rewrites', s0, mk(w.c(w.consts[0]), ('evar', 2 * k), ('evar', 2 * k + 1)), mk(w.c(w.consts[-1]), ('evar', 2 * k + 1), ('evar', 2 * k))) for k in range(55)]
        many.append(('rewrites', s0, mk(w.c(w.consts[0]), ('evar', 500), ('evar', 501)),
                     mk(w.c(w.consts[-1]), ('and', ('sv', 0), ('evar', 500), ('top', ('sv', 0))), ('evar', 501))))
        sents = ['(sort %d 0)' % s_ for s_ in w.sorts] + [try_kdef.sym_sx(w, d, rng) for d in w.syms] + [try_kdef.rule_sx(r) for r in many]
        req = 'kdef (def (module 0 %s))' % ' '.join(sents)
        ka = core.py_h([req])[0]
        if ka.startswith('(ls'):
            kx = sx.parse(ka)[0]
            scopes = next((t for t in kx[1:] if isinstance(t, list) and t and t[0] == 'scopes'), ['scopes'])
            for sc in scopes[1:]:
                o, mvs, sps = int(sc[0]), [int(v) for v in sc[1]], [int(v) for v in sc[2]]
                want = [2 * o, 2 * o + 1] if o < 55 else [500, 501]
                n_scope_rules += 1
                if sorted(mvs) != want:
                    findings.append({'key': 'scope-not-per-axiom', 'request': req[:3000], 'ordinal': o, 'scope_variables': str(mvs)[:400], 'rule_variables': str(want),
                                     'what': f'the conversion scope of rule {o} lists {len(mvs)} variables, the rule has {len(want)}: variable numbers are not per axiom'
                                             + ('; the rule has a sort variable and more than 100 variables are numbered before its own: a variable and the sort parameter share MetaVar(100)'
                                                if sps and len(mvs) > 100 else '')})
                    break
        else:
            findings.append({'key': 'many-rules-refused', 'request': req[:3000], 'python': ka[:300], 'what': 'a definition of 56 small rewrite rules is refused: ' + ka[:100]})
    rep.coverage.update({'per_axiom_scopes_checked': n_scope_rules})
    # ---- 5. the construction of the semantics and the hint stream: specification (Pi2/KDefSpec.lean) vs the check's own construction,
    #         generated text (Pi2/Gen/PyKDef.lean) vs the real code (skipped when the second driver did not build)
    kf, kcount = try_kdef.compare(worlds[: (8 if quick else 60)], rng)
    findings += kf
    rep.coverage.update({'kdef': kcount})
    rep.coverage.update({
        'evaluations': len(conv_lines) + len(tl) + len(ml) + sum(v for v in kcount.values() if isinstance(v, int)), 'distinct_nontrivial': len(set(conv_lines)) + len(set(tl)),
        'rule': 'random signatures (sorts, constants, n-ary functional constructors, a non-functional symbol, a cell, a parametric symbol, kseq), '
                'rewrite rules over a program-counter configuration with variables and sort variables, ground substitutions, traces of length 0-5 '
                '(matching; with deliberately wrong substitutions / rules; cycles revisiting a configuration; substitutions by domain values or '
                'non-functional terms); REAL LanguageSemantics.from_kore_definition / get_proof_hints / ExecutionProofExp vs the Lean model (conversion '
                'results, scopes, axioms, claims, current configuration, refusals); Kore-level oracle for acceptance and for every claim; serialised '
                'modules (plain and --optimize) on the real checker with the publish journal; Kore definitions with skipped / equational axioms, hooked sorts, other '
                'sentences, broken declarations, definitions of 2-4 modules (import chains, a diamond, a module with a rule that the main module does not import, random '
                'import graphs; broken: import of a later / unknown module, module name taken twice, module imported twice, symbol over a sort that is not imported, '
                'sort / symbol declared twice in one module): sigOfDefinitionM (= sigOfDefinition on one module) vs the check\'s Sig, rules, modules and scopes, and vs the '
                'real LanguageSemantics per module, generated from_kore_definition / get_proof_hints vs the real ones, hint streams with non-rule events, unknown / skipped '
                'ordinals, rules of modules that are not imported vs traceStepsR',
        'programs': len(tl), 'conversions_ok': n_conv_ok, 'traces_accepted': n_ok, 'traces_refused': n_refused, 'modules_checked': n_checked,
        'claims_checked': len(claim_checks), 'outcomes': {f'{k[0]}:{k[1]}': v for k, v in outcomes.items()},
        'disagreements_checked': len(findings),
        'samples': [tl[0][:600]],
    })
    rep.assumptions += ['pyk.kore.syntax is absent offline: harness/py/pyk_stub.py supplies dataclasses with the field order the repo uses (trusted)',
                        'quantifier-free Kore fragment (the real converter supports \\\\exists only; not modelled)',
                        'acceptance of the serialised module by the checker is decided by running the real checker (the functional axioms use a '
                        'constrained metavariable, outside the Shape fragment of the module theorem)']
    seen = set()
    for fd in findings:
        if fd['key'] in seen:
            continue
        seen.add(fd['key'])
        rep.violation(fd['what'], fd, not core.is_correspondence(fd), key='py-kore:' + fd['key'])
    if not ok and not findings:
        rep.violation('proof obligation used by C20 no longer checks: ' + json.dumps(detail)[:600], {'broken': detail}, False)
    return rep


def same_modulo_symbols(a, b):
    """two lists of pattern S-expressions (strings) equal up to a bijective renaming of (sym n)"""
    if len(a) != len(b):
        return False
    fw, bw = {}, {}

    def go(x, y):
        if isinstance(x, list) != isinstance(y, list):
            return False
        if not isinstance(x, list):
            return x == y
        if len(x) != len(y):
            return False
        if x and x[0] == 'sym' and y[0] == 'sym':
            if fw.setdefault(x[1], y[1]) != y[1] or bw.setdefault(y[1], x[1]) != x[1]:
                return False
            return True
        return all(go(p, q) for p, q in zip(x, y))
    return all(go(sx.parse(p)[0], sx.parse(q)[0]) for p, q in zip(a, b))


def replay(path):
    rep = core.Report('C20', 'quick', json.load(open(path)).get('seed', 0))
    run(rep)
    return rep.finish()
