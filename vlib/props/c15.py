"""C15 — Metamath compressed proofs are decoded as the Metamath specification says."""
from __future__ import annotations

import itertools
import json
import random

from .. import core, sx

THEOREMS = ['C15.decode_encode', 'C15.encode_decode', 'C15.tokenize_steps', 'C15.mandatory_in_database_order',
            'C15.mandatory_order_independent_of_set_order', 'C15.resolve_spec', 'C15.digit_tables_tied']


def enc(n):
    """Appendix B of the Metamath book, written independently of the code"""
    lo = (n - 1) % 20
    h = (n - 1) // 20
    out = chr(65 + lo)
    while h > 0:
        out = chr(85 + (h - 1) % 5) + out
        h = (h - 1) // 5
    return out


def layout(rng, body):
    pieces, i = [], 0
    while i < len(body):
        k = rng.randint(1, 14)
        pieces.append(body[i:i + k])
        i += k
    sep = lambda: rng.choice((' ', ' ', '  ', '\n', '\n  ', '\t'))   # noqa: E731
    return ''.join(p + sep() for p in pieces)


def make_db(floats, vars_, labels, proof_text):
    """a small database: one $f per float (in this order), label axioms, and the target using vars_"""
    allv = list(dict.fromkeys(floats + vars_))
    consts = ' '.join('c%d' % i for i in range(len(labels) + 1))
    src = ['$c #Pattern |- ( ) f ' + consts + ' $.']
    if allv:
        src.append('$v ' + ' '.join(sorted(allv)) + ' $.')      # like the slicer: $v sorted, $f in database order
    for v in floats:
        src.append(f'{v}-is-pattern $f #Pattern {v} $.')
    for i, l in enumerate(labels):
        src.append(f'{l} $a #Pattern c{i + 1} $.')
    stmt = '( f ' + ' '.join(vars_) + ' )' if vars_ else 'c0'
    src.append(f'goal $p |- {stmt} $= {proof_text} $.')
    return '\n'.join(src)


def run(rep):
    rng = random.Random(rep.seed * 1000003 + 15)
    ok, detail = core.proof_gate(rep, 'Pi2.Props.C15', THEOREMS)
    quick = rep.tier == 'quick'
    N = 300 if quick else 5000
    limit = 20000 if quick else 1000000
    cases = []
    for _ in range(N):
        nf = rng.randint(0, 4)
        fl = ['ph%d' % k for k in range(nf)]
        rng.shuffle(fl)
        vs = rng.sample(fl, rng.randint(0, len(fl)))
        rng.shuffle(vs)
        labels = ['lbl%d' % k for k in range(rng.choice((0, 0, 1, 2, 5, 9)))]
        steps = []
        for _ in range(rng.randint(0, 40)):
            if rng.random() < 0.15 and steps and steps[-1] is not None:
                steps.append(None)
            else:
                steps.append(rng.choice((rng.randint(1, 25), rng.randint(1, 130), rng.randint(100, 700), rng.randint(600, 3200),
                                         rng.randint(1, 10 ** 6))))
        body = ''.join('Z' if s is None else enc(s) for s in steps)
        proof = '( ' + ''.join(l + rng.choice((' ', '\n', '  ')) for l in labels) + ') ' + layout(rng, body)
        cases.append((fl, vs, labels, steps, proof))
    lines = ['mmproof (floats %s) (vars %s) %s' % (' '.join(fl), ' '.join(vs), (' '.join(proof.split())).encode().hex())
             for fl, vs, labels, steps, proof in cases]
    # exhaustive: every number up to the limit, in chunks
    chunk = 20000
    exh = []
    for a in range(1, limit + 1, chunk):
        b = min(limit, a + chunk - 1)
        exh.append((a, b, 'mmproof (floats) (vars) ' + ('( ) ' + ''.join(enc(n) for n in range(a, b + 1))).encode().hex()))
    lines += [l for _, _, l in exh]
    la = core.lean_drv(lines)
    seeds = (0, 1, 2, 3) if quick else tuple(range(16))
    per_seed = {sd: core.py_h(lines[:len(cases)] if sd != seeds[0] else lines, hashseed=sd) for sd in seeds}
    pa = per_seed[seeds[0]]
    dis = [{'request': l[:1500], 'model': a[:600], 'python': b[:600]} for l, a, b in zip(lines, la, pa) if a != b]
    findings = []
    # oracle 1: the specification.  labels = mandatory hypotheses in DATABASE order, then the listed labels; steps as written
    for (fl, vs, labels, steps, proof), ans in zip(cases, pa):
        want_labels = [v + '-is-pattern' for v in fl if v in vs] + labels
        want_steps = [0 if s is None else s for s in steps]
        want = '(proof (labels %s) (steps %s))' % (' '.join(want_labels), ' '.join(map(str, want_steps)))
        if ans != want:
            findings.append({'key': 'spec', 'floats': fl, 'vars': vs, 'proof': proof, 'python': ans[:800], 'specification': want[:800],
                             'what': 'decoded compressed proof differs from Appendix B (labels or step numbers)'})
    # oracle 2: every number decodes to itself
    for (a, b, _), ans in zip(exh, pa[len(cases):]):
        x = ans[ans.index('(steps') + 7:-2].split() if ans.startswith('(proof') and '(steps' in ans else []
        if [int(v) for v in x] != list(range(a, b + 1)):
            bad = next((a + i for i, v in enumerate(x) if int(v) != a + i), None)
            findings.append({'key': 'number', 'range': [a, b], 'first_bad': bad, 'encoding': enc(bad) if bad else None,
                             'what': f'a step number in {a}..{b} does not decode to itself'})
    # oracle 3: one encoding per number: every well-formed word w decodes to n with enc(n) == w
    words = [''.join(p) + l for k in range(0, 4 if quick else 6) for p in itertools.product('UVWXY', repeat=k) for l in 'ABCDEFGHIJKLMNOPQRST']
    wl = ['mmproof (floats) (vars) ' + ('( ) ' + ' '.join(words[i:i + 5000])).encode().hex() for i in range(0, len(words), 5000)]
    wa = core.py_h(wl)
    got = []
    for ans in wa:
        if not (ans.startswith('(proof') and '(steps' in ans):
            findings.append({'key': 'unique', 'python': ans[:300], 'what': f'well-formed compressed words are not decoded: {ans[:80]}'})
            break
        got += [int(v) for v in ans[ans.index('(steps') + 7:-2].split()]
    for w, n in zip(words, got):
        if enc(n) != w:
            findings.append({'key': 'unique', 'word': w, 'decoded': n, 'book_encoding': enc(n), 'what': 'a word decodes to a number whose encoding is a different word'})
            break
    # hash seeds
    for sd in seeds[1:]:
        for l, a, b in zip(lines[:len(cases)], pa, per_seed[sd]):
            if a != b:
                findings.append({'key': 'hashseed', 'request': l[:1500], 'seed_a': seeds[0], 'seed_b': sd, 'out_a': a[:500], 'out_b': b[:500],
                                 'what': f'decoded proof depends on PYTHONHASHSEED ({seeds[0]} vs {sd})'})
                break
    # end to end through the real parser and converter (database order of $f statements)
    dbl, dbw = [], []
    for fl, vs, labels, steps, proof in cases[:60 if quick else 1000]:
        src = make_db(fl, vs, labels, proof)
        dbl.append('mmimport %s goal' % src.encode().hex())
        dbw.append('(proof (labels %s) (steps %s))' % (' '.join([v + '-is-pattern' for v in fl if v in vs] + labels),
                                                        ' '.join(str(0 if s is None else s) for s in steps)))
    for sd in seeds[:2]:
        da = core.py_h(dbl, hashseed=sd)
        for l, a, w in zip(dbl, da, dbw):
            if a != w:
                findings.append({'key': 'database', 'seed': sd, 'python': a[:600], 'specification': w[:600],
                                 'database': bytes.fromhex(l.split()[1]).decode()[:1500],
                                 'what': 'proof imported through the real parser/converter differs from the specification'})
                break
    rep.coverage.update({
        'evaluations': len(lines) * 1 + len(cases) * (len(seeds) - 1) + len(wl) + len(dbl) * 2,
        'distinct_nontrivial': len(set(lines)) + len(words),
        'rule': 'compressed proofs with 0-4 mandatory variables in shuffled $f order, 0-9 listed labels (incl. empty list), random '
                'whitespace layouts, Z after arbitrary steps, step numbers up to 10^6; EVERY number 1..%d (exhaustive) and every '
                'well-formed word of up to %d prefix letters; each case under %d hash seeds; %d cases end-to-end through the real lark '
                'parser and MetamathConverter' % (limit, 3 if quick else 5, len(seeds), len(dbl)),
        'programs': len(lines), 'disagreements_checked': len(dis) + len(findings),
        'numbers_exhaustive_up_to': limit, 'words_checked': len(words), 'hash_seeds': list(seeds), 'exhaustive': False,
        'samples': [cases[0][4][:200], pa[0][:300], enc(120), enc(121), enc(620), enc(621)],
    })
    for f in findings[:8]:
        rep.violation(f['what'], f, True, key='py-mm:' + f['key'])
    if not findings:
        for d in dis[:5]:
            rep.violation('_import_proof differs from the model; no deviation from the specification found',
                          dict(d, broken='correspondence mmproof Python↔Pi2.MM.Compressed'), False)
    if not ok and not (dis or findings):
        rep.violation('proof obligation of C15 no longer checks: ' + json.dumps(detail)[:600], {'broken': detail}, False)
    return rep


def replay(path):
    rep = core.Report('C15', 'quick', json.load(open(path)).get('seed', 0))
    run(rep)
    return rep.finish()
