"""C18 — output is a deterministic function of the input."""
from __future__ import annotations

import json
import random

from .. import core, genpf, sx
from . import modside as ms

THEOREMS = ['C18.memo_set_order_irrelevant', 'C18.serialisation_is_a_function_of_the_module']


def run(rep):
    rng = random.Random(rep.seed * 1000003 + 18)
    rep.level = 'translation_validation'
    ok, detail = core.proof_gate(rep, 'Pi2.Props.C18', THEOREMS)
    quick = rep.tier == 'quick'
    mods = ms.gen_modules(rng, 24 if quick else 400)
    # modules with many distinct named symbols (their hashes depend on the seed)
    for _ in range(6 if quick else 60):
        m = genpf.gen_module(rng, 2, 3, 2, 1)
        mods.append(m)
    strs = [genpf.module_to_s(m) for m in mods]
    seeds = (0, 1, 2, 3) if quick else tuple(range(12))
    # (a) fresh subprocess per hash seed: binary, both optimise settings, and the memo set itself
    reqs = []
    for s in strs:
        reqs += [f'module {s} (memo)', f'module-memo {s}', f'module-pretty {s} (memo)', f'module-pretty {s} (memo yes)',
                 f'module {s} (memo yes)']
    per_seed = {sd: core.py_h(reqs, hashseed=sd) for sd in seeds}
    findings = []
    base = per_seed[seeds[0]]
    for sd in seeds[1:]:
        for r, a, b in zip(reqs, base, per_seed[sd]):
            if a != b:
                findings.append({'key': 'hashseed', 'request': r[:3000], 'seed_a': seeds[0], 'seed_b': sd, 'out_a': a[:600], 'out_b': b[:600],
                                 'what': f'output depends on PYTHONHASHSEED ({seeds[0]} vs {sd}) for {r.split()[0]}'})
    # the optimised binary must be what the model computes from the memo set
    lines = []
    for s, i in zip(strs, range(0, len(reqs), 5)):
        if base[i + 1].startswith('(memo'):
            lines.append((f'module {s} {base[i + 1]}', base[i + 4]))
    la = core.lean_drv([l for l, _ in lines])
    dis = [{'request': l[:3000], 'model': a[:800], 'python': b[:800]} for (l, b), a in zip(lines, la)
           if a != b and b.startswith('(')]
    # (b) history independence in one process: A B A A A C A ...
    hist_reqs = []
    for i in range(0, len(strs) - 2, 3):
        a, b, c = strs[i], strs[i + 1], strs[i + 2]
        hist_reqs.append('module-history %s %s %s %s %s %s %s' % (a, b, a, a, a, c, a))
    ha = core.py_h(hist_reqs)
    # ... and B C A: the module serialised AFTER unrelated ones must give the files it gives as the first action of a process
    hist2 = []
    for i in range(0, len(strs) - 2, 3):
        a, b, c = strs[i], strs[i + 1], strs[i + 2]
        hist2.append('module-history %s %s %s' % (b, c, a))
    hb = core.py_h(hist2)
    n_hist = 0
    for r, ans, r2, ans2 in zip(hist_reqs, ha, hist2, hb):
        x = sx.parse(ans)[0]
        n_hist += 1
        first = x[0]
        for j in (2, 3, 4, 6):
            if x[j] != first:
                findings.append({'key': 'history', 'request': r[:3000], 'digests': [sx.dump(t) for t in x],
                                 'what': 'serialising the same module again in the same process gives different files'})
                break
        y = sx.parse(ans2)[0]
        if y[2] != first:
            findings.append({'key': 'history', 'request': r2[:3000], 'digests': [sx.dump(first), sx.dump(y[2])],
                             'what': 'a module serialised after two unrelated modules gives different files than when it is serialised first'})
    # (c) the same across processes: a module serialised as the first action of a fresh process vs after another module
    n_fresh = 0
    for i in range(0, min(len(strs) - 1, 8 if quick else 60), 2):
        a, b = strs[i], strs[i + 1]
        ra = core.py_h([f'module {a} (memo)', f'module-pretty {a} (memo)'])
        rb = core.py_h([f'module {b} (memo)', f'module {a} (memo)', f'module-pretty {a} (memo)'])
        n_fresh += 1
        if ra != rb[1:]:
            findings.append({'key': 'history', 'request': f'module {b[:1500]} ; module {a[:1500]}', 'alone': [x[:300] for x in ra], 'after': [x[:300] for x in rb[1:]],
                             'what': 'a module serialised after another module (same process) gives different files than when it is serialised first in a fresh process'})
    rep.coverage['fresh_process_pairs'] = n_fresh
    rep.coverage.update({
        'evaluations': len(reqs) * len(seeds) + len(hist_reqs) * 7, 'distinct_nontrivial': len(set(reqs)) + len(set(hist_reqs)),
        'rule': 'generated proof modules serialised (binary and pretty, optimise on and off, plus the memoisation set) in fresh '
                'subprocesses under %d values of PYTHONHASHSEED, and in one process in the order A B A A A C A; all outputs for the '
                'same module must be byte-identical; the optimised bytes must equal what the model computes from the memo set' % len(seeds),
        'programs': len(reqs) * len(seeds) + len(hist_reqs), 'disagreements_checked': len(findings) + len(dis),
        'hash_seeds': list(seeds), 'histories': n_hist,
        'samples': [reqs[0][:500], base[0][:200], hist_reqs[0][:300], ha[0][:300]],
    })
    rep.assumptions.append('partial: hash collisions between equal-but-differently-hashed notation keys in CountingInterpreter._pattern_usage '
                           'cannot be exhibited by the pure model; Metamath translation determinism is decided under C15/C16')
    for f in findings[:8]:
        rep.violation(f['what'], f, True, key=f['key'] + ':' + f['request'][:150])
    if not findings:
        for d in dis[:5]:
            rep.violation('optimised serialisation differs from the model; no nondeterminism found',
                          dict(d, broken='correspondence module(memo) Python↔Pi2.Proof'), False)
    if not ok and not (dis or findings):
        rep.violation('proof obligation of C18 no longer checks: ' + json.dumps(detail)[:600], {'broken': detail}, False)
    return rep


def replay(path):
    rep = core.Report('C18', 'quick', json.load(open(path)).get('seed', 0))
    run(rep)
    return rep.finish()
