"""Shared engine for the module-level properties (C02, C03, C18, C19b): generated proof modules serialised by the
real ProofExp.serialize with and without optimisation, compared with the model, the reference machine and the real
checker."""
from __future__ import annotations

import os

from .. import core, genpf, pytrack as pt, sx

SHIPPED = ('propositional', 'small_theory', 'substitution')


def gen_modules(rng, n, depth=3):
    mods = []
    for _ in range(n):
        r = rng.random()
        if r < 0.08:
            mods.append(genpf.shadow_module(rng))
            continue
        if r < 0.14:
            mods.append(genpf.same_print_module(rng))
            continue
        if r < 0.28:
            mods.append(genpf.pf_module(rng, subs=rng.choice((0, 0, 1))))      # the propositional fragment (C02.propositional_module_accepted)
            continue
        mods.append(genpf.gen_module(rng, rng.choice((1, 2, depth)), subs=rng.choice((0, 0, 1, 2))))
    return mods


def budget_modules(sizes):
    """modules with MANY axioms, each also a claim proved by load_axiom: under optimisation the memoiser's 256 - n budget is used up
    (n = 129: memory slots 0..255 all taken, the last Save / Load address 255)"""
    out = []
    for n_ax in sizes:
        ax = [('app', ('sym', 4000 + i // 200), ('app', ('evar', i % 200), ('evar', (i * 7 + 1) % 200))) for i in range(n_ax)]
        out.append(('module', ax, list(ax), [('axiom', a) for a in ax], []))
    # ... and without axioms: claims `A -> (A -> A)` by prop1 for many different A: all suggestions are saved in the claim / proof phases
    for n_cl in sizes[:2]:
        A = [('app', ('sym', 4000), ('evar', k)) for k in range(max(90, n_cl))]
        # (the bare prop1 first: with it the optimiser uses all 256 slots, the last Save addresses slot 255)
        proofs = [('prop1',)] + [('dyninst', ('prop1',), ((0, a), (1, a))) for a in A]
        out.append(('module', [], [genpf.conc(pf) for pf in proofs], proofs, []))
    return out


def serialise(mods):
    """returns per module: dict with keys raw/opt -> python answer, memo, and the model's answers"""
    ms = [genpf.module_to_s(m) for m in mods]
    memo = core.py_h([f'module-memo {m}' for m in ms])
    lines, idx = [], []
    for i, (m, S) in enumerate(zip(ms, memo)):
        lines.append(f'module {m} (memo)'); idx.append((i, 'raw'))
        if S.startswith('(memo'):
            lines.append(f'module {m} {S}'); idx.append((i, 'opt'))
    pa = core.py_h(lines)
    la = core.lean_drv(lines)
    out = [{'module': m, 's': s, 'memo': S} for m, s, S in zip(mods, ms, memo)]
    dis = []
    for (i, k), l, a, b in zip(idx, lines, la, pa):
        out[i][k] = b
        out[i][k + '_model'] = a
        if a != b:
            dis.append({'request': l[:4000], 'setting': k, 'model': a[:1500], 'python': b[:1500]})
    return out, dis


def triple(ans):
    x = sx.parse(ans)[0]
    return x[1], x[2], x[3]


def journals(entries):
    """reference-machine journal of every successfully serialised module/setting"""
    reqs, idx = [], []
    for i, e in enumerate(entries):
        for k in ('raw', 'opt'):
            if e.get(k, '').startswith('(ok'):
                g, c, p = triple(e[k])
                reqs.append(f'journal {g} {c} {p}'); idx.append((i, k))
    ans = core.lean_drv(reqs)
    for (i, k), a in zip(idx, ans):
        entries[i][k + '_journal'] = a
    return entries


def shipped_modules_bytes():
    """serialise the three shipped modules with the real code (both settings) in a subprocess"""
    code = r'''
import sys, tempfile, shutil, importlib, gc
from pathlib import Path
from proof_generation.proof import OutputFormat
for name in %r:
    mod = importlib.import_module('proof_generation.proofs.' + name)
    cls = [v for v in vars(mod).values() if isinstance(v, type) and v.__module__ == mod.__name__ and hasattr(v, 'serialize')][0]
    for opt in (False, True):
        d = tempfile.mkdtemp(prefix='pi2v')
        try:
            cls().serialize(Path(d) / 'm', OutputFormat.Binary, opt)
            gc.collect()
            print(name, int(opt), *[(open(str(Path(d) / 'm') + e, 'rb').read().hex() or '-') for e in ('.ml-gamma', '.ml-claim', '.ml-proof')])
        except Exception as e:
            print(name, int(opt), 'raise', type(e).__name__)
        finally:
            shutil.rmtree(d, ignore_errors=True)
''' % (SHIPPED,)
    e = core.env_clean()
    e['PYTHONPATH'] = core.PYSRC
    rc, out = core.sh([core.PY, '-c', code], env=e, timeout=600)
    res = []
    for line in out.splitlines():
        parts = line.split()
        if len(parts) == 5:
            res.append((parts[0], parts[1] == '1', parts[2], parts[3], parts[4]))
        elif len(parts) >= 3 and parts[2] == 'raise':
            res.append((parts[0], parts[1] == '1', None, None, ' '.join(parts[2:])))
    return res
