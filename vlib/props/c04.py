"""C04 — the generator-side verifier state is a faithful simulation of the real machine."""
from __future__ import annotations

import json
import random

from .. import core, genhist, pytrack as pt, sx

THEOREMS = ['C04.serializer_bytes_tied', 'C04.interpreters_translated', 'C04.tracker_text_sound', 'C04.tracker_text_is_the_model', 'C04.tracker_text_complete', 'C04.tracker_text_ill_typed', 'C04.tracker_simulates_machine', 'C04.machine_accepts_under_side_conditions', 'C04.load_addresses_intended_term',
            'C04.phase_switch_claim', 'C04.phase_switch_proof', 'C04.publish_leaves_residue']

KF_CLASSES = ('muNotPositive', 'substWF', 'redundantSubst', 'mvWF', 'constraint', 'capture')


def stack_effect(c):
    """(pops, pushes) of a call on the tracker's stack; publishes return ('flag',), phase changes ('clear',)"""
    k = c[0]
    if k in ('evar', 'svar', 'symbol', 'metavar', 'prop1', 'prop2', 'prop3', 'quantifier', 'load'):
        return (0, 1)
    if k in ('implies', 'app', 'esubst', 'ssubst', 'mp'):
        return (2, 1)
    if k in ('exists', 'mu', 'gen'):
        return (1, 1)
    if k in ('instantiate', 'instantiate-pattern'):
        return (len(c[1]) + 1, 1)
    if k == 'pop':
        return (1, 0)
    if k == 'save':
        return (0, 0)
    if k.startswith('publish'):
        return ('flag',)
    return ('clear',)


def sym_order(calls):
    order = []
    for c in calls:
        if c[0] == 'symbol' and c[1] not in order:
            order.append(c[1])
    return order


def map_syms(p, tab):
    k = p[0]
    if k == 'sym':
        return ('sym', tab.index(p[1]) if p[1] in tab else -1)
    if k in ('imp', 'app'):
        return (k, map_syms(p[1], tab), map_syms(p[2], tab))
    if k in ('ex', 'mu'):
        return (k, p[1], map_syms(p[2], tab))
    if k in ('esub', 'ssub'):
        return (k, map_syms(p[1], tab), p[2], map_syms(p[3], tab))
    return p


def parse_terms(xs):
    return [(t[0], sx.pat_of_sx(t[1])) for t in xs]


def mstate_requests(trace_ans):
    steps = sx.parse(trace_ans)[0]
    reqs = []
    for st in steps:
        if st[0] == 'raise':
            break
        reqs.append('mstate %s %s %s %s' % (st[1], st[5], st[6], st[7]))
    return reqs


def check_history(rep, claims, calls, trace_ans, mans):
    """compare, after every call, the real tracker's (expanded) state with the reference machine run on the bytes
    emitted so far.  Returns a list of findings: dicts with keys kind ('violation'|'known'), key, what, step."""
    out = []
    steps = sx.parse(trace_ans)[0]
    tab = []
    flags = []
    consumed_residue = False
    for i, st in enumerate(steps):
        if st[0] == 'raise':
            break
        c = calls[i]
        if c[0] == 'symbol' and c[1] not in tab:
            tab.append(c[1])
        eff = stack_effect(c)
        if eff == ('clear',):
            flags = []
            consumed_residue = False
        elif eff == ('flag',):
            if flags:
                if flags[-1]:
                    consumed_residue = True      # publishes a residue a second time
                flags[-1] = True
        else:
            pops, pushes = eff
            if pops and any(flags[-pops:]):
                consumed_residue = True
            if c[0] == 'save' and flags and flags[-1]:
                consumed_residue = True          # reads a residue
            flags = flags[:len(flags) - pops] + [False] * pushes
        phase = st[1]
        tstack = parse_terms(st[2][1:])
        tmem = parse_terms(st[3][1:])
        tclaims = [sx.pat_of_sx(x) for x in st[4][1:]]
        m = mans[i]
        if m.startswith('(rej'):
            parts = sx.parse(m)[0]
            reason = parts[3] if len(parts) > 3 else parts[1]
            cls = 'known' if (reason in KF_CLASSES or consumed_residue) else 'violation'
            key = 'machine-rejects:' + ('residue' if consumed_residue and reason not in KF_CLASSES else reason)
            out.append({'kind': cls, 'key': key, 'step': i, 'call': pt.call_to_s(c),
                        'what': f'after call {i} {pt.call_to_s(c)} the tracker accepts but the machine rejects the bytes ({reason})'})
            break
        ms = sx.parse(m)[0]
        mstack = parse_terms(ms[1][1:])
        mmem = parse_terms(ms[2][1:])
        mclaims = [sx.pat_of_sx(x) for x in ms[3][1:]]
        if len(flags) != len(tstack):
            out.append({'kind': 'violation', 'key': 'harness-flag-desync', 'step': i, 'call': pt.call_to_s(c),
                        'what': 'internal: residue bookkeeping out of sync with the tracker stack'})
            break
        live = [(k, map_syms(p, tab)) for (k, p), f in zip(tstack, flags) if not f]
        tm = [(k, map_syms(p, tab)) for k, p in tmem]
        problems = []
        if live != mstack:
            problems.append('stack')
        if tm != mmem:
            problems.append('memory')
        if phase == 'proof' and [map_syms(p, tab) for p in tclaims] != list(reversed(mclaims)):
            problems.append('claims')
        if any(flags) and not consumed_residue and not problems and eff == ('flag',):
            out.append({'kind': 'known', 'key': 'publish-residue', 'step': i, 'call': pt.call_to_s(c),
                        'what': 'publish leaves the published term on the tracker stack; the machine pops it'})
        if problems:
            def firstdiff(a, b):
                for j, (x, y) in enumerate(zip(a, b)):
                    if x != y:
                        return {'index': j, 'tracker': sx.pat_to_s(x[1]) if isinstance(x, tuple) and len(x) == 2 and isinstance(x[1], tuple) else str(x),
                                'machine': sx.pat_to_s(y[1]) if isinstance(y, tuple) and len(y) == 2 and isinstance(y[1], tuple) else str(y)}
                return {'lengths': [len(a), len(b)]}
            detail = {}
            if 'stack' in problems:
                detail['stack'] = firstdiff(live, mstack)
            if 'memory' in problems:
                detail['memory'] = firstdiff(tm, mmem)
            cls = 'known' if consumed_residue else 'violation'
            out.append({'kind': cls, 'key': 'state-differs:' + ('residue' if consumed_residue else '+'.join(problems)),
                        'step': i, 'call': pt.call_to_s(c), 'first_difference': detail,
                        'what': f'after call {i} {pt.call_to_s(c)} tracker and machine differ in {problems}'})
            break
    return out


def run(rep, only=None):
    rng = random.Random(rep.seed * 1000003 + 4)
    ok, detail = core.proof_gate(rep, 'Pi2.Props.C04b', THEOREMS)
    quick = rep.tier == 'quick'
    N = 70 if quick else 2500
    hist = []
    for i in range(N):
        touch = rng.random() < 0.12
        cl, calls = genhist.gen_history(rng, rng.choice((6, 10, 20) if quick else (8, 15, 30, 50)), touch_residue=touch)
        hist.append((cl, calls, 'residue-touching' if touch else 'clean'))
        if rng.random() < 0.25 and calls:
            # an unsteered mutation: drop / duplicate / replace one call (exercises the raise paths of the tracker)
            c2 = list(calls)
            lo, hi = c2.index(('into-claim',)), c2.index(('into-proof',))
            cand = [j for j in range(len(c2)) if j < lo or j > hi]
            if not cand:
                continue
            j = rng.choice(cand)
            r = rng.random()
            if r < 0.4:
                del c2[j]
            elif r < 0.7:
                c2.insert(j, c2[j])
            else:
                c2[j] = rng.choice([('mp',), ('pop',), ('implies',), ('gen', 0), ('instantiate', (0,)), ('save',)])
            hist.append((cl, c2, 'mutated'))
    # steered families (neither is produced by the walk generator):
    #  * two DIFFERENT pending claims, proofs published in the wrong order (the machine pops the claims in a fixed order and refuses a
    #    proof of another claim; so must the tracker)
    #  * a PATTERN saved in the gamma / claim phase, then an axiom, and a proof-phase Load of the entries stored behind it (the machine's
    #    memory lives across the three phases: the slot of the saved pattern stays occupied)
    from .. import pytrack as pt_
    phi = lambda i: ('mv', i, (), (), (), (), ())   # noqa: E731
    concl = {'prop1': ('imp', phi(0), ('imp', phi(1), phi(0))),
             'prop3': ('imp', ('imp', ('imp', phi(0), ('inst', ('mu', 0, ('svar', 0)), ())), ('inst', ('mu', 0, ('svar', 0)), ())), phi(0))}
    for k in range(6 if quick else 40):
        a, b = ('prop1', 'prop3') if k % 2 == 0 else ('prop3', 'prop1')
        cl = [concl[a], concl[b]]
        claim_calls = []
        for c_ in reversed(cl):
            claim_calls += pt_.compile_pattern(c_) + [('publish-claim',)]
        first, second = ((b,), (a,)) if k % 3 != 2 else ((a,), (b,))      # two of three: wrong order
        calls = [('into-claim',)] + claim_calls + [('into-proof',), first, ('publish-proof',), second, ('publish-proof',)]
        hist.append((cl, calls, 'publish-order'))
    for k in range(6 if quick else 40):
        pat = genhist.npat_for_calls(rng, 1, subst=0.0)
        ax = [genhist.npat_for_calls(rng, 1, subst=0.0) for _ in range(rng.choice((1, 2)))]
        tr = pt_.Tracker()
        calls = []
        try:
            where = rng.choice(('gamma', 'claim'))
            pre = pt_.compile_pattern(pat) + [('save',)]
            if where == 'gamma':
                calls += pre
            for a_ in ax:
                calls += pt_.compile_pattern(a_) + [('publish-axiom',)]
            calls += [('into-claim',)]
            if where == 'claim':
                calls += pre
            calls += [('into-proof',)]
            for c_ in calls:
                tr.call(c_)
            tr.call(('prop1',)); calls.append(('prop1',))
            tr.call(('save',)); calls.append(('save',))
            loads = [m for m in tr.memory if m[0] == 'proved']
            rng.shuffle(loads)
            for m in loads[:3]:
                calls.append(('load', m))
        except pt_.Raise:
            continue
        hist.append(([], calls, 'memory-across-phases'))
    if only:
        hist = [only]
    lines = ['track ' + genhist.history_to_s(cl, calls) for cl, calls, _ in hist]
    la = core.lean_drv(lines)
    pa = core.py_h(lines)
    dis = [{'request': l[:3000], 'model': a[:1500], 'python': b[:1500], 'class': h[2]}
           for l, a, b, h in zip(lines, la, pa, hist) if a != b]
    findings = []
    steps_checked = 0
    sample_trace = ''
    # in batches: a trace carries the full state after every call (the thorough tier produces several GB of them)
    B = 200
    for lo_ in range(0, len(hist), B):
        hb, lb = hist[lo_:lo_ + B], lines[lo_:lo_ + B]
        ta = core.py_h(['track-trace ' + genhist.history_to_s(cl, calls) for cl, calls, _ in hb])
        sample_trace = sample_trace or ta[0][:800]
        allreqs, spans = [], []
        for ans in ta:
            r = mstate_requests(ans)
            spans.append((len(allreqs), len(allreqs) + len(r)))
            allreqs += r
        allans = core.lean_drv(allreqs)
        for (cl, calls, tag), ans, req, (a, b) in zip(hb, ta, lb, spans):
            fs = check_history(rep, cl, calls, ans, allans[a:b])
            steps_checked += ans.count('(step ')
            for f in fs:
                f['history'] = req[:4000]
                f['class'] = tag
                findings.append(f)
        del ta, allreqs, allans
    n_calls = sum(len(c) for _, c, _ in hist)
    rep.coverage.update({
        'evaluations': len(hist), 'distinct_nontrivial': len(set(lines)),
        'rule': 'call histories: gamma phase (0-2 axioms), claim phase (claims reversed), proof phase = steered random walk '
                '(pattern construction with notation, all rules, instantiate with shuffled key order, save/load/pop, several '
                'published proofs), 12%% of them deliberately touching publish residues, 25%% followed by an unsteered mutation; '
                'after EVERY call the real tracker state (expanded, symbols renumbered) is compared with the reference machine run '
                'on the bytes emitted so far',
        'programs': len(hist), 'disagreements_checked': len(dis) + len(findings),
        'calls': n_calls, 'steps_compared_with_machine': steps_checked,
        'raises_agreed': sum(1 for a in pa if a.startswith('(raise')),
        'samples': [lines[0][:1500], sample_trace],
    })
    rep.assumptions.append('calls are well-typed w.r.t. the interpreter API (Pattern vs Proved arguments): Python does not check '
                           'this at run time; the harness never passes a Proved where a Pattern is declared')
    for f in findings:
        if f['kind'] == 'known':
            if not rep.violation(f['what'], f, True, key=f['key']):
                continue
        else:
            rep.violation(f['what'], f, True, key=f['key'])
    if not [f for f in findings if f['kind'] == 'violation']:
        for d in dis[:5]:
            rep.violation('the real tracker/serializer differs from the model; no divergence from the machine found',
                          dict(d, broken='correspondence track Python↔Pi2.Tracker'), False)
    if not ok and not (dis or [f for f in findings if f['kind'] == 'violation']):
        rep.violation('proof obligation of C04 no longer checks: ' + json.dumps(detail)[:600], {'broken': detail}, False)
    return rep


def replay(path):
    rep = core.Report('C04', 'quick', json.load(open(path)).get('seed', 0))
    run(rep)
    return rep.finish()
