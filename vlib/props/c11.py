"""C11 — substitution and instantiation obey their algebra."""
from __future__ import annotations

import json
import random

from .. import core, evalfin, gen, sx, textbook as tb

THEOREMS = ['C11.rust_instantiate_is_the_model', 'C11.rust_instantiate_text_is_instU', 'C11.rust_instantiate_text_is_the_model', 'C11.machine_states_reachable_shape', 'C11.instantiate_unchanged_visible_outside_shape', 'C11.python_pattern_operations_are_the_model', 'C11.rust_substitution_is_the_model', 'C11.rust_esubst_textbook', 'C11.rust_ssubst_textbook', 'C11.py_esubst_textbook', 'C11.py_ssubst_textbook',
            'C11.substE_id_of_fresh', 'C11.substS_id_of_fresh', 'C11.esubst_deferred_on_mv', 'C11.ssubst_deferred_on_mv',
            'C11.inst_simultaneous', 'C11.inst_distrib', 'C11.substitution_lemma_E', 'C11.substitution_lemma_S',
            'C11.py_esubst_eq_rust', 'C11.py_ssubst_eq_rust', 'C11.py_inst_eq_rust', 'C11.inst_compose', 'C11.inst_esubst_commute', 'C11.notation_instantiate',
            'C11.substE_eliminates', 'C11.substS_eliminates', 'C11.substE_preserves_eFresh', 'C11.substS_preserves_sFresh', 'C11.substE_preserves_sFresh', 'C11.substE_concrete', 'C11.substS_concrete', 'C11.substE_idempotent', 'C11.substS_idempotent', 'C11.rust_esubst_eliminates', 'C11.rust_ssubst_eliminates', 'C11.rust_esubst_idempotent', 'C11.rust_ssubst_idempotent', 'C11.eliminates_needs_fresh_plug',
            'C11.substS_preserves_eFresh', 'C11.pending_esubst_eFresh_sound', 'C11.pending_ssubst_sFresh_sound', 'C11.pending_esubst_sFresh_sound', 'C11.pending_ssubst_eFresh_sound', 'C11.pending_judgement_is_conservative',
            'C11.pos_ng_of_sFresh', 'C11.pending_ssubst_pos_ng_sound', 'C11.pending_esubst_pos_ng_sound', 'C11.polarity_flip_is_rejected',
            'C11.substE_comm', 'C11.substS_comm', 'C11.subst_comm_needs_fresh_plugs',
            'C11.inst_id_of_concrete', 'C11.py_inst_id_of_concrete', 'C11.RShape_of_concrete', 'C11.rust_instantiate_text_id_of_concrete',
            'C11.py_esubst_eliminates', 'C11.py_ssubst_eliminates', 'C11.py_esubst_idempotent', 'C11.py_ssubst_idempotent', 'C11.py_esubst_comm', 'C11.py_ssubst_comm']


def to_npat_s(p):
    return sx.pat_to_s(p)


def run(rep):
    rng = random.Random(rep.seed * 1000003 + 11)
    ok, detail = core.proof_gate(rep, 'Pi2.Props.C11', THEOREMS)
    core.rust_build()
    quick = rep.tier == 'quick'
    N = 2000 if quick else 30000
    # ---- Rust: esubst / ssubst / inst vs the model (random + bounded exhaustive)
    small = []
    for n in (1, 2, 3) if quick else (1, 2, 3, 4):
        small += gen.all_small_pats(n)
    plugs_small = gen.all_small_pats(1) + gen.all_small_pats(2)[:12]
    lines, meta = [], []
    for p in small:
        for q in plugs_small:
            for x in (0, 1):
                lines.append(f'esubst {x} {sx.pat_to_s(q)} {sx.pat_to_s(p)}'); meta.append(('e', x, q, p))
                lines.append(f'ssubst {x} {sx.pat_to_s(q)} {sx.pat_to_s(p)}'); meta.append(('s', x, q, p))
    if quick:
        idx = rng.sample(range(len(lines)), min(len(lines), 12000))
        lines = [lines[i] for i in idx]; meta = [meta[i] for i in idx]
    for _ in range(N):
        p = gen.gen_pat(rng, rng.choice((1, 2, 3, 4)))
        q = gen.gen_pat(rng, rng.choice((0, 1, 2)))
        x = rng.choice(gen.IDS)
        k = rng.choice('es')
        lines.append(f"{'esubst' if k == 'e' else 'ssubst'} {x} {sx.pat_to_s(q)} {sx.pat_to_s(p)}"); meta.append((k, x, q, p))
    n_subst = len(lines)
    from .. import pymach as pm
    made = 0
    while made < N:
        p = gen.gen_pat(rng, rng.choice((1, 2, 3, 4)))
        # instantiate is compared on ALL patterns (wf_shape or not): the driver's `inst` is `Pat.instU`, which models the
        # "unchanged" shortcut of instantiate_internal; `InstUThm.instU_eq_inst` relates it to `inst` on meta-headed patterns
        if rng.random() < 0.5 and not pm.subst_wf(p):
            p = gen.gen_pat(rng, rng.choice((1, 2, 3)), wf_shape=False)
        made += 1
        n = rng.choice((0, 1, 2, 3))
        ids = [rng.choice(gen.IDS) for _ in range(n)]
        plugs = [gen.gen_pat(rng, rng.choice((0, 1, 2))) for _ in range(n)]
        lines.append('inst (%s) (%s) %s' % (' '.join(map(str, ids)), ' '.join(map(sx.pat_to_s, plugs)), sx.pat_to_s(p)))
        meta.append(('i', ids, plugs, p))
    la = core.lean_drv(lines)
    ra = core.rust_h(lines)
    dis = [{'request': l, 'model': a, 'rust': b} for l, a, b in zip(lines, la, ra) if a != b]
    # oracle 1: textbook agreement of the REAL Rust result on concrete patterns; capture must be rejected
    wit = []
    tb_checked = 0
    for (k, x, q, p), r in zip(meta[:n_subst], ra[:n_subst]):
        if not (tb.concrete(p) and tb.concrete(q)):
            continue
        tb_checked += 1
        cap = tb.captures_e(p, x, q) if k == 'e' else tb.captures_s(p, x, q)
        exp = tb.subst_e(p, x, q) if k == 'e' else tb.subst_s(p, x, q)
        if r.startswith('(some '):
            got = sx.pat_of_sx(sx.parse(r)[0][1])
            if got != exp:
                wit.append({'op': k, 'var': x, 'plug': sx.pat_to_s(q), 'pattern': sx.pat_to_s(p), 'rust': r,
                            'textbook': sx.pat_to_s(exp)})
            elif cap:
                wit.append({'op': k, 'var': x, 'plug': sx.pat_to_s(q), 'pattern': sx.pat_to_s(p), 'rust': r,
                            'problem': 'capturing substitution accepted'})
    # oracle 2: the semantic substitution lemma on the REAL Rust results (meta patterns included)
    sem_checked = 0
    cand = [(m, r) for m, r in zip(meta[:n_subst], ra[:n_subst]) if r.startswith('(some ')]
    rng.shuffle(cand)
    for (k, x, q, p), r in cand[:300 if quick else 4000]:
        got = sx.pat_of_sx(sx.parse(r)[0][1])
        evs, svs, mvs, syms = evalfin.free_ids(('imp', ('imp', p, q), got))
        evs.add(x) if k == 'e' else svs.add(x)
        for _ in range(6):
            n = rng.randint(1, 3)
            M = evalfin.random_model(rng, n, sorted(syms))
            choice = {key: rng.choice(evalfin.sem_choices(key, M, sorted(evs), sorted(svs))) for key in mvs}
            sigma = {key: evalfin.sem_fn(c) for key, c in choice.items()}
            re_ = {v: 1 << rng.randrange(n) for v in evs}
            rs_ = {v: rng.randrange(1 << n) for v in svs}
            lhs = evalfin.ev(got, M, sigma, re_, rs_)
            pv = evalfin.ev(q, M, sigma, re_, rs_)
            if k == 'e':
                r2 = dict(re_); r2[x] = pv
                rhs = evalfin.ev(p, M, sigma, r2, rs_)
            else:
                r2 = dict(rs_); r2[x] = pv
                rhs = evalfin.ev(p, M, sigma, re_, r2)
            sem_checked += 1
            if lhs != rhs:
                wit.append({'op': k, 'var': x, 'plug': sx.pat_to_s(q), 'pattern': sx.pat_to_s(p), 'rust': r,
                            'problem': 'substitution lemma fails', 'carrier': n, 'lhs': lhs, 'rhs': rhs,
                            'sigma': {str(a): b for a, b in choice.items()}, 'evars': re_, 'svars': rs_})
                break
    # oracle 3: the distribution law of instantiation on the REAL Rust results — `instantiate` distributes over every
    # constructor, and over a pending substitution it is "instantiate both parts, then substitute":
    #   inst θ (l → r) = inst θ l → inst θ r     inst θ (p[q/x]) = apply_esubst(inst θ p, x, inst θ q)
    # evaluated by composing calls of the real functions (the model is not consulted)
    def some_pat(a):
        return sx.pat_of_sx(sx.parse(a)[0][1]) if a.startswith('(some ') else None
    dist_checked = 0
    # (on patterns the machine can hold: outside them — a substitution node with a non-meta head, which no instruction
    # builds — the "unchanged" shortcut of instantiate_internal is visible, C11.instantiate_unchanged_visible_outside_shape)
    inst_items = [(m, r) for m, r in zip(meta[n_subst:], ra[n_subst:])
                  if m[3][0] in ('imp', 'app', 'ex', 'mu', 'esub', 'ssub') and pm.subst_wf(m[3]) and all(pm.subst_wf(q) for q in m[2])]
    # the sub-terms where the model and the code differ come first
    differing = {d['request'] for d in dis}
    inst_items.sort(key=lambda t: 0 if ('inst (%s) (%s) %s' % (' '.join(map(str, t[0][1])), ' '.join(map(sx.pat_to_s, t[0][2])), sx.pat_to_s(t[0][3]))) in differing else 1)
    inst_items = inst_items[:600 if quick else 8000]
    l2 = []
    for (_, ids, plugs, p), r in inst_items:
        kids = [p[1], p[2]] if p[0] in ('imp', 'app') else [p[2]] if p[0] in ('ex', 'mu') else [p[1], p[3]]
        for c in kids:
            l2.append('inst (%s) (%s) %s' % (' '.join(map(str, ids)), ' '.join(map(sx.pat_to_s, plugs)), sx.pat_to_s(c)))
    r2 = core.rust_h(l2) if l2 else []
    it = iter(r2)
    l3, m3 = [], []
    for (_, ids, plugs, p), r in inst_items:
        k = p[0]
        kids = [next(it) for _ in range(1 if k in ('ex', 'mu') else 2)]
        ks = [some_pat(a) for a in kids]
        got = some_pat(r)
        if any(c is None for c in ks):
            # a part is refused: the whole must be refused too
            if got is not None:
                wit.append({'op': 'inst', 'ids': ids, 'plugs': [sx.pat_to_s(q) for q in plugs], 'pattern': sx.pat_to_s(p), 'rust': r,
                            'var': 0, 'plug': '', 'problem': 'instantiation of the whole succeeds although instantiating a part is refused'})
            continue
        if got is None:
            if k not in ('esub', 'ssub'):
                dist_checked += 1
                wit.append({'op': 'inst', 'ids': ids, 'plugs': [sx.pat_to_s(q) for q in plugs], 'pattern': sx.pat_to_s(p), 'rust': r,
                            'var': 0, 'plug': '', 'problem': 'instantiation of the whole is refused although every part instantiates'})
            else:
                l3.append(f"{'esubst' if k == 'esub' else 'ssubst'} {p[2]} {sx.pat_to_s(ks[1])} {sx.pat_to_s(ks[0])}"); m3.append((ids, plugs, p, r, None))
            continue
        if k in ('imp', 'app'):
            exp = (k, ks[0], ks[1])
        elif k in ('ex', 'mu'):
            exp = (k, p[1], ks[0])
        else:
            l3.append(f"{'esubst' if k == 'esub' else 'ssubst'} {p[2]} {sx.pat_to_s(ks[1])} {sx.pat_to_s(ks[0])}"); m3.append((ids, plugs, p, r, got))
            continue
        dist_checked += 1
        if got != exp:
            wit.append({'op': 'inst', 'ids': ids, 'plugs': [sx.pat_to_s(q) for q in plugs], 'pattern': sx.pat_to_s(p), 'rust': r,
                        'var': 0, 'plug': '', 'expected': sx.pat_to_s(exp), 'problem': 'instantiation does not distribute over ' + k})
    r3 = core.rust_h(l3) if l3 else []
    for (ids, plugs, p, r, got), a, req in zip(m3, r3, l3):
        dist_checked += 1
        exp = some_pat(a)
        if exp != got:
            wit.append({'op': 'inst', 'ids': ids, 'plugs': [sx.pat_to_s(q) for q in plugs], 'pattern': sx.pat_to_s(p), 'rust': r,
                        'var': 0, 'plug': '', 'substitute_after_instantiating_the_parts': a, 'second_request': req,
                        'problem': 'instantiating a pending substitution differs from instantiating its parts and substituting'})
    # oracle 4: the LEAVES of instantiation on the REAL Rust results (the textbook definition at its base case; the model is not
    # consulted): a metavariable whose id is in the map becomes the FIRST plug listed for that id — whatever the plug is, another
    # metavariable of the same number with other constraints included — or the instantiation is refused; every other leaf, and a
    # metavariable that is not in the map, is unchanged.  The leaves are taken from the generated patterns (differing ones first).
    def leaves(t, acc):
        k = t[0]
        if k in ('evar', 'svar', 'sym', 'mv'):
            acc.append(t)
        elif k in ('imp', 'app'):
            leaves(t[1], acc); leaves(t[2], acc)
        elif k in ('ex', 'mu'):
            leaves(t[2], acc)
        else:
            leaves(t[1], acc); leaves(t[3], acc)
        return acc
    all_inst = [(m, r) for m, r in zip(meta[n_subst:], ra[n_subst:])]
    all_inst.sort(key=lambda t: 0 if ('inst (%s) (%s) %s' % (' '.join(map(str, t[0][1])), ' '.join(map(sx.pat_to_s, t[0][2])), sx.pat_to_s(t[0][3]))) in differing else 1)
    l4, m4, seen4 = [], [], set()
    for (_, ids, plugs, p), _r in all_inst[:1500 if quick else 20000]:
        for lf in leaves(p, [])[:6]:
            req = 'inst (%s) (%s) %s' % (' '.join(map(str, ids)), ' '.join(map(sx.pat_to_s, plugs)), sx.pat_to_s(lf))
            if req not in seen4:
                seen4.add(req); l4.append(req); m4.append((ids, plugs, lf))
    r4 = core.rust_h(l4) if l4 else []
    leaf_checked = leaf_replaced = leaf_same_id_plug = 0
    for (ids, plugs, lf), a in zip(m4, r4):
        got = some_pat(a)
        if got is None:
            continue                      # refused (a constraint of the metavariable is not met by the plug): decided by C06/C12
        leaf_checked += 1
        if lf[0] == 'mv' and lf[1] in ids:
            exp = plugs[ids.index(lf[1])]
            leaf_replaced += 1
            leaf_same_id_plug += (exp[0] == 'mv' and exp[1] == lf[1] and exp != lf)
        else:
            exp = lf
        if got != exp:
            wit.append({'op': 'inst', 'ids': ids, 'plugs': [sx.pat_to_s(q) for q in plugs], 'pattern': sx.pat_to_s(lf), 'rust': a,
                        'var': 0, 'plug': '', 'expected': sx.pat_to_s(exp),
                        'problem': 'instantiating a leaf: a metavariable in the map must become its (first) plug, every other leaf stays'})
    # ---- Python: ninst / nesubst / nssubst vs the model, and the laws on the real code
    plines, pmeta = [], []
    for _ in range(N):
        p = gen.gen_npat(rng, rng.choice((1, 2, 3)))
        q = gen.gen_npat(rng, rng.choice((0, 1, 2)))
        d = gen.gen_delta(rng, rng.choice((0, 1, 2)))
        x = rng.choice(gen.IDS)
        plines.append(f'ninst {gen.delta_to_s(d)} {sx.pat_to_s(p)}'); pmeta.append(('i', d, p))
        plines.append(f'nesubst {x} {sx.pat_to_s(q)} {sx.pat_to_s(p)}'); pmeta.append(('e', x, q, p))
        plines.append(f'nssubst {x} {sx.pat_to_s(q)} {sx.pat_to_s(p)}'); pmeta.append(('s', x, q, p))
    pl = core.lean_drv(plines)
    pp = core.py_h(plines)
    pdis = [{'request': l, 'model': a, 'python': b} for l, a, b in zip(plines, pl, pp) if a != b]
    # laws on the real Python code, compared after full expansion:
    #   transparency of instantiate: expand(p.instantiate(d)) == expand(expand(p).instantiate(expand d))
    #   composition on shape-clean inputs: (p.inst d1).inst d2 == p.inst (d1;d2)
    law_lines, law_meta = [], []
    for _ in range(N // 2):
        p = gen.gen_npat(rng, rng.choice((1, 2, 3)), constrained=0.0, subst=0.3)
        d1 = gen.gen_delta(rng, 1, constrained=0.0, subst=0.3)
        d2 = gen.gen_delta(rng, 1, constrained=0.0, subst=0.3)
        law_lines.append(f'law-inst-transparent {gen.delta_to_s(d1)} {sx.pat_to_s(p)}'); law_meta.append(('t', d1, p))
        law_lines.append(f'law-inst-comp {gen.delta_to_s(d1)} {gen.delta_to_s(d2)} {sx.pat_to_s(p)}'); law_meta.append(('c', d1, d2, p))
    lw = core.py_h(law_lines)
    law_bad = [{'request': l, 'python': a} for l, a in zip(law_lines, lw) if a != 'true']
    total = len(lines) + len(plines) + len(law_lines)
    rep.coverage.update({
        'evaluations': total, 'distinct_nontrivial': len(set(lines)) + len(set(plines)) + len(set(law_lines)),
        'rule': 'esubst/ssubst on (a sample of, in quick) ALL patterns of size<=%d over 2 ids x small plugs x 2 vars and random '
                'larger ones; inst with random id lists (repeated ids, partial); Python ninst/nesubst/nssubst on random '
                'patterns with nested and partial notation; law requests (transparency of instantiate, composition) on '
                'shape-clean inputs run on the real Python code' % (3 if quick else 4),
        'programs': total, 'disagreements_checked': len(dis) + len(pdis) + len(law_bad),
        'oracle_textbook_checked': tb_checked, 'oracle_semantic_checked': sem_checked, 'oracle_distribution_checked': dist_checked, 'oracle_leaf_checked': leaf_checked, 'oracle_leaf_replaced': leaf_replaced, 'oracle_leaf_plug_is_same_numbered_metavariable': leaf_same_id_plug,
        'samples': [lines[0], lines[n_subst - 1], lines[-1], plines[0], law_lines[0], law_lines[1]],
    })
    for w in wit[:5]:
        rep.violation('the checker\'s substitution / instantiation disagrees with the textbook definition, the substitution lemma or the distribution law: '
                      + w.get('problem', 'wrong result'), w, True, key='rust-subst:' + w['pattern'] + w['plug'] + str(w['var']))
    for b in law_bad[:5]:
        rep.violation('an instantiation law fails on the real Python code: ' + b['request'][:80], b, True,
                      key='py-law:' + b['request'])
    if not wit:
        for d in dis[:5]:
            rep.violation('Rust substitution/instantiation differs from the model; no failing input for the property found',
                          dict(d, broken='correspondence esubst/ssubst/inst Rust↔Pi2.Subst'), False)
    if not law_bad:
        for d in pdis[:5]:
            rep.violation('Python substitution/instantiation differs from the model; no failing input for the property found',
                          dict(d, broken='correspondence ninst/nesubst/nssubst Python↔Pi2.Notation'), False)
    if not ok and not (wit or law_bad or dis or pdis):
        rep.violation('proof obligation of C11 no longer checks: ' + json.dumps(detail)[:600], {'broken': detail}, False)
    return rep


def replay(path):
    rep = core.Report('C11', 'quick', json.load(open(path)).get('seed', 0))
    run(rep)
    return rep.finish()
