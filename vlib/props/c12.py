"""C12 — notation is transparent."""
from __future__ import annotations

import json
import random

from .. import core, gen, pymach as pm, pytrack as pt, sx

THEOREMS = ['C12.python_pattern_operations_are_the_model', 'C12.peq_is_expansion_equality', 'C12.nary_transparent', 'C12.nary_head_and_rebuild', 'C12.peq_refl', 'C12.peq_symm', 'C12.peq_trans',
            'C12.evar_is_free_transparent', 'C12.metavars_transparent', 'C12.instantiate_transparent',
            'C12.esubst_transparent', 'C12.ssubst_transparent', 'C12.simplify_transparent', 'C12.instantiate_compose',
            'C12.notation_text_is_the_model', 'C12.notation_text_evar_is_free', 'C12.notation_text_distinct_keys',
            'C12.notation_text_transparent',
            # total correctness (Props/C12b.lean, NotationTotal.lean): == and every notation operation terminate, explicit fuel bound ht a + ht b - 1;
            # fuel = recursion depth exactly (peqDepth); the translated Instantiate text is total as well
            'C12.peqF_total', 'C12.eq_decides_expansion_equality', 'C12.eq_recursion_depth', 'C12.eq_is_equivalence', 'C12.operations_total',
            'C12.operations_total_correct', 'C12.notation_text_eq_total', 'C12.notation_text_operations_total']


def dormant_redundant_subst(p):
    """a substitution node, anywhere in the pattern as WRITTEN (notation bodies and arguments included), that is redundant
    — its head metavariable declares the substituted variable fresh, or its plug denotes the variable itself.  The
    machine refuses to build such a node; the toolkit builds it, keeps it as long as nothing touches it (`instantiate`
    with an empty map returns `self`) and normalises it away as soon as a substitution is re-applied — so the
    syntactic transparency law is not expected of it (and `Shape`, the domain of the C12 theorems, excludes it)."""
    k = p[0]
    if k in ('esub', 'ssub'):
        h = p[1]
        while h[0] in ('esub', 'ssub'):
            h = h[1]
        if h[0] == 'mv' and p[2] in (h[2] if k == 'esub' else h[3]):
            return True
        try:
            if pt.expand(p[3]) == (('evar' if k == 'esub' else 'svar'), p[2]):
                return True
        except Exception:   # noqa
            pass
        return dormant_redundant_subst(p[1]) or dormant_redundant_subst(p[3])
    if k in ('imp', 'app'):
        return dormant_redundant_subst(p[1]) or dormant_redundant_subst(p[2])
    if k in ('ex', 'mu'):
        return dormant_redundant_subst(p[2])
    if k == 'inst':
        return dormant_redundant_subst(p[1]) or any(dormant_redundant_subst(v) for _, v in p[2])
    return False


def mv_written(p, acc):
    """all metavariable nodes of a pattern as written (notation bodies and arguments included)"""
    k = p[0]
    if k == 'mv':
        acc.append(p)
    elif k in ('imp', 'app'):
        mv_written(p[1], acc); mv_written(p[2], acc)
    elif k in ('ex', 'mu'):
        mv_written(p[2], acc)
    elif k in ('esub', 'ssub'):
        mv_written(p[1], acc); mv_written(p[3], acc)
    elif k == 'inst':
        mv_written(p[1], acc)
        for _, v in p[2]:
            mv_written(v, acc)
    return acc


def constraint_violating_instantiation(b):
    """a failed transparency law in which ONLY `instantiate` differs and the substitution binds a metavariable (of the
    pattern as written, or of an argument) to a pattern that violates a freshness / polarity constraint the metavariable
    declares: the toolkit accepts such an instantiation (`MetaVar.can_be_replaced_by` is a TODO stub returning True), and
    a pending substitution that had vanished because of the declared freshness then behaves differently before and after
    expansion.  Same root cause as the open findings of C02/C04 (`constraint`) and C13 (KF-C13-constraints)."""
    if b['python'] != '(false instantiate)' or not b['request'].startswith('law-transparent'):
        return False
    try:
        xs = sx.parse(b['request'])
        d = {int(k): sx.pat_of_sx(v) for k, v in xs[3]}
        recs = mv_written(sx.pat_of_sx(xs[4]), [])
        for v in list(d.values()):
            mv_written(v, recs)
        for (_, mid, ef, sf, ps, ns, _) in recs:
            if mid in d:
                q = pt.expand(d[mid])
                if any(not pm.e_fresh(q, e) for e in ef) or any(not pm.s_fresh(q, x) for x in sf) or \
                        any(not pm.positive(q, x) for x in ps) or any(not pm.negative(q, x) for x in ns):
                    return True
    except Exception:   # noqa
        return False
    return False


def run(rep):
    rng = random.Random(rep.seed * 1000003 + 12)
    ok, detail = core.proof_gate(rep, 'Pi2.Props.C12b', THEOREMS)
    quick = rep.tier == 'quick'
    N = 1500 if quick else 25000
    lines = []
    laws = []
    for _ in range(N):
        a = gen.gen_npat(rng, rng.choice((1, 2, 3, 4)))
        r = rng.random()
        if r < 0.3:
            b = gen.gen_npat(rng, rng.choice((1, 2, 3)))
        elif r < 0.6:
            b = ('expand', a)
        else:
            b = ('simplify', a)
        x = rng.choice(gen.IDS)
        plug = gen.gen_npat(rng, rng.choice((0, 1, 2)))
        d = gen.gen_delta(rng, rng.choice((0, 1, 2)))
        lines.append(('peq', a, b))
        laws.append(('law-eq', a, b))
        if not (dormant_redundant_subst(a) or dormant_redundant_subst(plug) or any(dormant_redundant_subst(v) for _, v in d)):
            laws.append(('law-transparent', x, plug, d, a))
    # shipped notations at random arguments, nested to depth 4
    for label, arity, body, _, _ in gen.shipped_notations():
        for _ in range(4 if quick else 40):
            args = tuple((k, gen.gen_npat(rng, rng.choice((0, 1, 2)))) for k in range(arity))
            a = ('inst', body, args)
            lines.append(('peq', a, ('expand', a)))
            laws.append(('law-eq', a, ('expand', a)))
            x_, plug_, d_ = rng.choice(gen.IDS), gen.gen_npat(rng, 1), gen.gen_delta(rng, 1)
            if not (dormant_redundant_subst(a) or dormant_redundant_subst(plug_) or any(dormant_redundant_subst(v) for _, v in d_)):
                laws.append(('law-transparent', x_, plug_, d_, a))
    # two applications of the SAME notation body whose maps differ: permuted keys, permuted values, a dropped or a
    # superfluous entry, a change in a position the body does not use
    for label, arity, body, _, _ in gen.shipped_notations():
        for _ in range(3 if quick else 30):
            vals = [gen.gen_npat(rng, rng.choice((0, 1, 1))) for _ in range(arity)]
            a = ('inst', body, tuple(enumerate(vals)))
            variants = []
            if arity >= 2:
                ks = list(range(arity)); rng.shuffle(ks)
                variants.append(('inst', body, tuple((k, vals[k]) for k in ks)))                 # same map, other key order
                vs = list(vals); i, j = rng.sample(range(arity), 2); vs[i], vs[j] = vs[j], vs[i]
                variants.append(('inst', body, tuple(enumerate(vs))))                            # values swapped
            if arity >= 1:
                variants.append(('inst', body, tuple(enumerate(vals))[:-1]))                     # last entry dropped
                i = rng.randrange(arity)
                vs = list(vals); vs[i] = gen.gen_npat(rng, 1)
                variants.append(('inst', body, tuple(enumerate(vs))))                            # one argument changed
            variants.append(('inst', body, tuple(enumerate(vals)) + ((arity + 3, gen.gen_npat(rng, 0)),)))   # superfluous key
            for b in variants:
                lines.append(('peq', a, b))
                laws.append(('law-eq', a, b))
    # resolve ('expand', a) / ('simplify', a) through the REAL code
    need = [l[2][1] for l in lines if l[2][0] in ('expand', 'simplify')]
    exp = core.py_h([f'expand {sx.pat_to_s(p)}' for p in need])
    simp = core.py_h([f'ninst () {sx.pat_to_s(p[1])}' if False else f'expand {sx.pat_to_s(p)}' for p in need])
    emap = {}
    for p, e in zip(need, exp):
        emap[sx.pat_to_s(p)] = e

    def res(b):
        if b[0] in ('expand', 'simplify'):
            return emap[sx.pat_to_s(b[1])]
        return sx.pat_to_s(b)
    plines = [f'peq {sx.pat_to_s(a)} {res(b)}' for _, a, b in lines]
    plines += [f'peq {res(b)} {sx.pat_to_s(a)}' for _, a, b in lines[:len(lines) // 2]]
    la = core.lean_drv(plines)
    pa = core.py_h(plines)
    dis = [{'request': l, 'model': a, 'python': b} for l, a, b in zip(plines, la, pa) if a != b]
    lawlines = []
    for l in laws:
        if l[0] == 'law-eq':
            lawlines.append(f'law-eq {sx.pat_to_s(l[1])} {res(l[2])}')
        else:
            lawlines.append(f'law-transparent {l[1]} {sx.pat_to_s(l[2])} {gen.delta_to_s(l[3])} {sx.pat_to_s(l[4])}')
    lw = core.py_h(lawlines)
    bad = [{'request': l, 'python': a} for l, a in zip(lawlines, lw) if a != 'true']
    # ---- the n-ary destructor `deconstruct_nary_application` (proofs/kore.py): model `NPat.naryF` vs the real function, and the
    # transparency law on the real code (destructure-then-expand = expand-then-destructure), incl. notations whose
    # function position is a metavariable bound to an application
    from .. import try_nary as tn
    nots_n = tn.nary_shipped()
    npats = [gen.gen_npat(rng, rng.choice((1, 2, 3))) for _ in range(150 if quick else 3000)]
    npats += [tn.spine(rng, rng.choice((1, 2, 3, 4)), nots_n) for _ in range(300 if quick else 6000)]
    for label, arity, body in nots_n:
        for _ in range(2 if quick else 10):
            npats.append(('inst', body, tuple(enumerate(tn.spine(rng, rng.choice((0, 1, 2)), nots_n) for _ in range(arity)))))
    nlines = ['nary ' + sx.pat_to_s(p) for p in npats]
    nlaws = ['law-nary-transparent ' + sx.pat_to_s(p) for p in npats]
    nla, npa, nlw = core.lean_drv(nlines), core.py_h(nlines), core.py_h(nlaws)
    dis += [{'request': l, 'model': a, 'python': b} for l, a, b in zip(nlines, nla, npa) if a != b and a != 'fuel']
    bad += [{'request': l, 'python': a} for l, a in zip(nlaws, nlw) if a != 'true']
    plines = plines + nlines
    lawlines = lawlines + nlaws
    total = len(plines) + len(lawlines)
    rep.coverage.update({
        'evaluations': total, 'distinct_nontrivial': len(set(plines)) + len(set(lawlines)),
        'rule': 'pairs (p, random q) / (p, full expansion of p) with nested, partial and shipped notation to depth 4; peq compared '
                'model vs real ==; law requests evaluated on the REAL code: == coincides with equality of full expansions '
                '(incl. reflexivity, symmetry, !=) and every operation (evar_is_free, metavars, apply_esubst, apply_ssubst, '
                'instantiate, unwrap, deconstruct, match_single both ways) agrees on p and expand(p); deconstruct_nary_application: model vs real and '
                'the transparency law on spines through notation (metavariable heads bound to applications, partial maps, shipped n-ary notations)',
        'programs': total, 'disagreements_checked': len(dis) + len(bad),
        'true_answers': sum(1 for a in pa if a == 'true'), 'false_answers': sum(1 for a in pa if a == 'false'),
        'samples': [plines[0], plines[-1], lawlines[0], lawlines[1]],
    })
    known_shortcut = 0
    for b in bad:
        if constraint_violating_instantiation(b):
            known_shortcut += 1
            rep.violation('instantiate is not transparent when the substitution violates a declared metavariable constraint', b, True,
                          key='py-inst:constraint-violating-instantiation')
        else:
            rep.violation('notation is not transparent on the real code: ' + b['python'][:100], b, True,
                          key='py-transparent:' + b['request'])
    rep.coverage['constraint_violating_instantiations'] = known_shortcut
    if not bad:
        for d in dis[:5]:
            rep.violation('Python == differs from the model of ==; no transparency failure found',
                          dict(d, broken='correspondence peq Python↔Pi2.Notation'), False)
    if not ok and not (bad or dis):
        rep.violation('proof obligation of C12 no longer checks: ' + json.dumps(detail)[:600], {'broken': detail}, False)
    return rep


def replay(path):
    rep = core.Report('C12', 'quick', json.load(open(path)).get('seed', 0))
    run(rep)
    return rep.finish()
