"""C03 — the published theory and claims are exactly what was declared."""
from __future__ import annotations

import json
import random

from .. import core, genpf, pytrack as pt, sx
from . import modside as ms

THEOREMS = ['C03.journal_is_declaration', 'C03.memoisation_keeps_journal', 'C03.symbol_id_is_table_position',
            'C03.symbol_ids_injective', 'C03.symbol_id_stable', 'C03.ids_fit_in_a_byte',
            # the phases as written are the model (Pi2/Props/C08b.lean, Pi2/ProofTie.lean, vlib/transproof.py)
            'C03.phases_text_is_the_model', 'C03.memo_phases_text_is_the_model', 'C03.serialize_text_shape',
            # execute_full as written ON the StatefulInterpreter as written is the model (Pi2/ComposeTie.lean)
            'C03.phases_text_on_stateful_text_is_the_model', 'C03.memo_phases_text_on_stateful_text_is_the_model',
            # the memoiser's slot budget (Props/C03b.lean, SlotBudget.lean): finalize returns at most B - len(memory) suggestions; a memoising
            # run saves every suggestion at most once and every axiom once, so with B = 256 no Load addresses a slot beyond 255; attained by
            # the 129-axiom module (256 entries, Load 255)
            'C03.finalize_budget', 'C03.finalize_budget_general', 'C03.memo_run_memory_bound', 'C03.canonical_plain', 'C03.optimized_run_fits',
            'C03.optimized_slots_fit_in_a_byte', 'C03.load_operands_below_memory', 'C03.budget_attained',
            # hypotheses discharged (Props/C03d.lean, SlotBudget2.lean): reachable analyser states have the budget fields untouched; seq ⊆ == on shaped
            # patterns with distinct keys; the memoising bound under shape + distinct keys only (Canonical S itself is FALSE for notation nodes)
            'C03.recording_frame', 'C03.finalize_budget_reachable', 'C03.counting_run_memory', 'C03.analyser_memory_is_axioms', 'C03.seq_implies_peq',
            'C03.canonical_fails', 'C03.memo_run_memory_bound2', 'C03.optimized_serialisation_fits_in_a_byte']


def declared(m):
    """(axioms in publication order, claims in publication order) of a module, fully expanded, symbols by name"""
    def gamma(mod):
        _, ax, _, _, subs = mod
        out = []
        for s in subs:
            out += gamma(s)
        return out + list(ax)
    return [pt.expand(a) for a in gamma(m)], [pt.expand(c) for c in reversed(m[2])]


def unify_syms(decl, got, mp, inv):
    """structural comparison of a declared pattern (symbol names) with a journal pattern (symbol ids), extending the
    name->id map; returns None if equal up to the map, else a description of the mismatch"""
    if decl[0] != got[0]:
        return f'constructor {decl[0]} vs {got[0]}'
    k = decl[0]
    if k == 'sym':
        n, i = decl[1], got[1]
        if mp.setdefault(n, i) != i:
            return f'symbol {n} has two ids: {mp[n]} and {i}'
        if inv.setdefault(i, n) != n:
            return f'id {i} denotes two symbols: {inv[i]} and {n}'
        return None
    if k in ('evar', 'svar'):
        return None if decl[1] == got[1] else f'{k} {decl[1]} vs {got[1]}'
    if k == 'mv':
        return None if decl == got else 'metavariable record differs'
    if k in ('imp', 'app'):
        return unify_syms(decl[1], got[1], mp, inv) or unify_syms(decl[2], got[2], mp, inv)
    if k in ('ex', 'mu'):
        if decl[1] != got[1]:
            return 'binder differs'
        return unify_syms(decl[2], got[2], mp, inv)
    if k in ('esub', 'ssub'):
        if decl[2] != got[2]:
            return 'substituted variable differs'
        return unify_syms(decl[1], got[1], mp, inv) or unify_syms(decl[3], got[3], mp, inv)
    return 'unexpected node'


def big_symbol_module(rng, n_syms):
    """a module whose axioms mention n_syms distinct symbols"""
    ax = []
    cur = ('sym', 2000)
    for i in range(1, n_syms):
        cur = ('app', cur, ('sym', 2000 + i))
        if i % 40 == 0:
            ax.append(cur)
            cur = ('sym', 2000 + i)
    ax.append(cur)
    return ('module', ax, [('imp', ('mv', 0, (), (), (), (), ()), ('mv', 0, (), (), (), (), ()))],
            [('mp', ('mp', ('dyninst', ('prop2',), ((1, ('imp', ('mv', 0, (), (), (), (), ()), ('mv', 0, (), (), (), (), ()))), (2, ('mv', 0, (), (), (), (), ())))),
                     ('dyninst', ('prop1',), ((1, ('imp', ('mv', 0, (), (), (), (), ()), ('mv', 0, (), (), (), (), ()))),))),
              ('dyninst', ('prop1',), ((1, ('mv', 0, (), (), (), (), ())),)))], [])


def id_module(i):
    """a module using variable / metavariable id i"""
    return ('module', [('imp', ('evar', i), ('mv', i, (), (), (), (), ()))], [], [], [])


def run(rep):
    rng = random.Random(rep.seed * 1000003 + 3)
    ok, detail = core.proof_gate(rep, 'Pi2.Props.C03c', THEOREMS)
    quick = rep.tier == 'quick'
    mods = ms.gen_modules(rng, 100 if quick else 2000)
    # diamond imports and duplicated axioms
    for _ in range(10 if quick else 100):
        shared = genpf.gen_module(rng, 1, rng.choice((1, 2)), 0, 0)
        left = ('module', genpf.gen_axioms(rng, 1), [], [], [shared])
        right = ('module', genpf.gen_axioms(rng, 1), [], [], [shared])
        top = genpf.gen_module(rng, 2, rng.choice((1, 2)), 1, 0)
        top = ('module', top[1] + top[1][:1], top[2], top[3], [left, right])
        mods.append(top)
    special = [(big_symbol_module(rng, n), n <= 256) for n in (255, 256, 257)] + [(id_module(i), i <= 255) for i in (255, 256)]
    mods += [m for m, _ in special]
    entries, dis = ms.serialise(mods)
    entries = ms.journals(entries)
    findings = []
    n_checked = 0
    for e in entries:
        dax, dcl = declared(e['module'])
        maps = {}
        for k in ('raw', 'opt'):
            j = e.get(k + '_journal')
            if not j or not j.startswith('(journal'):
                if j and j.startswith('(rej'):
                    continue     # the machine rejects the theory/claims: C02's business
                continue
            x = sx.parse(j)[0]
            gax = [sx.pat_of_sx(t) for t in x[1][1:]]
            gcl = [sx.pat_of_sx(t) for t in x[2][1:]]
            n_checked += 1
            mp, inv = {}, {}
            problem = None
            if len(gax) != len(dax):
                problem = f'{len(gax)} axioms published, {len(dax)} declared'
            elif len(gcl) != len(dcl):
                problem = f'{len(gcl)} claims published, {len(dcl)} declared'
            else:
                for d, g in list(zip(dax, gax)) + list(zip(dcl, gcl)):
                    problem = unify_syms(d, g, mp, inv)
                    if problem:
                        break
            # symbol ids are per serialisation (an optimised run may never construct an unused notation argument that mentions
            # a symbol): compare the two settings after renumbering symbols by first occurrence in the journal
            canon = {}

            def ren(q):
                kk = q[0]
                if kk == 'sym':
                    return ('sym', canon.setdefault(q[1], len(canon)))
                if kk in ('imp', 'app'):
                    return (kk, ren(q[1]), ren(q[2]))
                if kk in ('ex', 'mu'):
                    return (kk, q[1], ren(q[2]))
                if kk in ('esub', 'ssub'):
                    return (kk, ren(q[1]), q[2], ren(q[3]))
                return q
            maps[k] = ([ren(q) for q in gax], [ren(q) for q in gcl])
            if problem:
                findings.append({'key': 'journal-differs', 'setting': k, 'module': e['s'][:4000], 'journal': j[:2000],
                                 'what': f'published theory/claims differ from the declaration (optimise={k == "opt"}): {problem}'})
        if 'raw' in maps and 'opt' in maps and maps['raw'] != maps['opt']:
            findings.append({'key': 'journal-raw-vs-opt', 'module': e['s'][:4000],
                             'what': 'the published theory/claims differ between optimise on and off'})
    # "identical whether or not optimisation is on": a module that serialises in one setting and raises in the other publishes a
    # theory in one of them only (small modules: the 256-slot limit of the memoiser is out of reach)
    n_special = len(special)
    for e in entries[:len(entries) - n_special]:
        a, b = e.get('raw', ''), e.get('opt', '')
        if a and b and a.startswith('(ok') != b.startswith('(ok'):
            findings.append({'key': 'outcome-raw-vs-opt', 'module': e['s'][:4000], 'raw': a[:200], 'opt': b[:200], 'memo': e.get('memo', '')[:1500],
                             'what': 'the module serialises with optimise %s but raises with optimise %s: the published theory is not identical whether or not optimisation is on'
                                     % (('off', 'on') if a.startswith('(ok') else ('on', 'off'))})
    # encodability
    for (m, encodable), e in zip(special, entries[-len(special):]):
        for k in ('raw', 'opt'):
            a = e.get(k, '')
            if not a:
                continue
            if encodable and not a.startswith('(ok'):
                findings.append({'key': 'refuses-encodable', 'module': e['s'][:300], 'what': 'an encodable module (<= 256 ids) is refused'})
            if not encodable and a.startswith('(ok'):
                findings.append({'key': 'encodes-unencodable', 'module': e['s'][:300],
                                 'what': 'a module with more than 256 ids was serialised instead of being refused'})
    rep.coverage.update({
        'evaluations': len(mods) * 2, 'distinct_nontrivial': len({e['s'] for e in entries}) * 2,
        'rule': 'random proof modules incl. imported modules, diamond imports and duplicated axioms, plus modules with 255/256/257 '
                'distinct symbols and variable ids 255/256; serialised by the REAL ProofExp.serialize (both optimise settings); the '
                'three files are run on the reference machine and its publish journal is compared with the declaration (imports '
                'depth-first, then own axioms; claims reversed) up to an injective symbol numbering shared by the three files',
        'programs': n_checked, 'disagreements_checked': len(dis) + len(findings), 'journals_compared': n_checked,
        'samples': [entries[0]['s'][:600], entries[0].get('raw_journal', '')[:400]],
    })
    for f in findings[:10]:
        rep.violation(f['what'], f, True, key=f['key'] + ':' + f.get('module', '')[:200])
    if not findings:
        for d in dis[:5]:
            rep.violation('ProofExp.serialize differs from the model; no difference between journal and declaration found',
                          dict(d, broken='correspondence module Python↔Pi2.Proof'), False)
    if not ok and not (dis or findings):
        rep.violation('proof obligation of C03 no longer checks: ' + json.dumps(detail)[:600], {'broken': detail}, False)
    return rep


def replay(path):
    rep = core.Report('C03', 'quick', json.load(open(path)).get('seed', 0))
    run(rep)
    return rep.finish()
