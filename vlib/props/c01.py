"""C01 — checker soundness."""
from __future__ import annotations

import json
import random

from .. import core, sx
from . import rustside as rs

THEOREMS = ['C01.verify_sound', 'C01.verifyBytes_sound', 'C01.verifyBytes_sound_empty', 'C01.proved_terms_valid',
            'C01.schemas_tied', 'C01.rust_schemas_valid', 'C01.rust_judgements_tied', 'C01.rust_substitution_tied', 'C01.pinned_substitution_unsound', 'C01.rust_verify_text_sound',
            'eFresh_sound', 'sFresh_sound', 'pos_neg_sound', 'applyESubst_sem', 'applySSubst_sem', 'inst_sem',
            'step_inv']


def unsound_direction(d):
    """the real checker accepts (or holds a different state) where the reference does not"""
    return d['rust'].startswith('(ok') or (d['rust'].startswith('(rej (state') and d['model'] != d['rust'])


def run(rep, replay_case=None):
    rng = random.Random(rep.seed * 1000003 + 1)
    ok, detail = core.proof_gate(rep, 'Pi2.Props.C01', THEOREMS)
    core.rust_build()
    quick = rep.tier == 'quick'
    triples, tags = rs.make_triples(rng, rep.tier, 1200 if quick else 25000)
    for p in rs.exhaustive_short(3 if quick else 4, rs.EXH_ALPHABET):
        triples.append(([], [], p)); tags.append('exhaustive')
    if replay_case:
        triples, tags = [replay_case], ['replay']
    dis, stats, ra = rs.correspondence(rep, triples, tags)
    bad = [d for d in dis if unsound_direction(d)]
    # oracle 1: on the disagreeing inputs, with a large budget
    idx = {(sx.hexs(t[0]), sx.hexs(t[1]), sx.hexs(t[2])): i for i, t in enumerate(triples)}
    sel = [idx[(d['gamma'], d['claim'], d['proof'])] for d in bad]
    n1, e1, wit1 = rs.oracle_proved_terms(rep, rng, [triples[i] for i in sel], [tags[i] for i in sel],
                                          [ra[i] for i in sel], 200, 3000)
    # oracle 2: on everything the real checker accepted
    n2, e2, wit2 = rs.oracle_proved_terms(rep, rng, triples, tags, ra, 400 if quick else 6000, 120 if quick else 400)
    distinct = len({(tuple(g), tuple(c), tuple(p)) for g, c, p in triples})
    rep.coverage.update({
        'evaluations': len(triples), 'distinct_nontrivial': distinct,
        'rule': 'byte triples as for C05 (templates incl. the capture witnesses, shipped triples and mutations, steered '
                'random walks, exhaustive short proofs); the oracle evaluates every distinct Proved term the REAL '
                'checker holds after an accepted empty-theory run in finite models (carrier 1..3; exhaustive over '
                'carriers 1..2 when the interpretation space is < 3000, random otherwise); distinct = distinct triples',
        'programs': len(triples), 'disagreements_checked': len(dis),
        'accepted_by_model': stats['accepted_by_model'],
        'oracle_terms_checked': n1 + n2, 'oracle_terms_exhaustive': e1 + e2,
        'samples': [{'tag': tags[i], 'claim': sx.hexs(triples[i][1]), 'proof': sx.hexs(triples[i][2])[:300],
                     'rust': ra[i][:200]} for i in (0, len(triples) // 2, len(triples) - 1)],
    })
    rep.assumptions += ['validity is the semantics of lean/Pi2/Sem.lean (generalised valuations, semantic instantiation '
                        'of metavariables keyed by the whole record)',
                        'Rust is tied to the model by differential testing, not by proof']
    for w in (wit1 + wit2)[:10]:
        rep.violation('the real checker accepts a stream and marks an INVALID pattern as proved: ' + w['proved_term'][:120],
                      w, found_input=True, key='invalid:' + w['proved_term'])
    if not (wit1 or wit2):
        for d in bad[:5]:
            rep.violation('the checker accepts / ends in a state the sound reference machine does not '
                          f"({d['tag']}); correspondence Rust↔model broken, soundness theorem no longer covers the code",
                          dict(d, broken='correspondence verify Rust↔Pi2.Machine'), found_input=False)
        if not ok and not bad:
            rep.violation('proof obligation of C01 no longer checks: ' + json.dumps(detail)[:600],
                          {'broken': detail}, found_input=False)
    return rep


def replay(path):
    d = json.load(open(path))
    r = d['replay']
    rep = core.Report('C01', 'quick', d.get('seed', 0))
    if 'proof' in r:
        def unhex(h):
            return [] if h == '-' else list(bytes.fromhex(h))
        run(rep, (unhex(r['gamma']), unhex(r['claim']), unhex(r['proof'])))
    else:
        run(rep)
    return rep.finish()
