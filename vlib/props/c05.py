"""C05 — the checker implements the documented machine."""
from __future__ import annotations

import json
import random

from .. import core, sx
from . import rustside as rs

THEOREMS = ['C05.opcodes_tied', 'C05.rust_judgements_tied', 'C05.rust_execute_is_the_model', 'C05.rust_verify_is_the_model', 'C05.encode1_heads', 'C05.unknown_opcode_rejected', 'C05.truncated_rejected',
            'C05.verifyBytes_decode_none', 'C05.type_confusion_rejected', 'C05.bad_index_rejected',
            'C05.mismatching_claim_rejected', 'C05.unproved_claims_rejected', 'C05.rejection_is_final',
            'C05.run_is_sequential', 'decode_encode', 'decode_sound']


def run(rep, replay_case=None):
    rng = random.Random(rep.seed * 1000003 + 5)
    ok, detail = core.proof_gate(rep, 'Pi2.Props.C05', THEOREMS)
    core.rust_build()
    quick = rep.tier == 'quick'
    triples, tags = rs.make_triples(rng, rep.tier, 1500 if quick else 30000)
    n_exh = 0
    for p in rs.exhaustive_short(3 if quick else 4, rs.EXH_ALPHABET):
        triples.append(([], [], p)); tags.append('exhaustive'); n_exh += 1
    # exhaustive short claim/proof pairs: one claim φ0→φ0, all short proofs
    if replay_case:
        triples, tags = [replay_case], ['replay']
    dis, stats, ra = rs.correspondence(rep, triples, tags)
    # function-level conformance: the judgements, substitutions and instantiation the document defines
    from .. import gen as _gen, pymach as _pm
    flines = []
    for _ in range(1500 if quick else 30000):
        p_ = _gen.gen_pat(rng, rng.choice((1, 2, 3, 4)))
        x_ = rng.choice(_gen.IDS)
        for k in ('efresh', 'sfresh', 'pos', 'neg'):
            flines.append(f'judge {k} {x_} {sx.pat_to_s(p_)}')
        q_ = _gen.gen_pat(rng, rng.choice((0, 1, 2)))
        flines.append(f'esubst {x_} {sx.pat_to_s(q_)} {sx.pat_to_s(p_)}')
        flines.append(f'ssubst {x_} {sx.pat_to_s(q_)} {sx.pat_to_s(p_)}')
        if True:      # all patterns: the model `instU` includes the "unchanged" optimisation of instantiate_internal
            n_ = rng.choice((1, 2))
            ids_ = [rng.choice(_gen.IDS) for _ in range(n_)]
            plugs_ = [_gen.gen_pat(rng, rng.choice((0, 1, 2))) for _ in range(n_)]
            flines.append('inst (%s) (%s) %s' % (' '.join(map(str, ids_)), ' '.join(map(sx.pat_to_s, plugs_)), sx.pat_to_s(p_)))
    fl = core.lean_drv(flines)
    fr = core.rust_h(flines)
    for l_, a_, b_ in zip(flines, fl, fr):
        if a_ != b_:
            dis.append({'tag': 'function:' + l_.split()[0], 'request': l_[:1500], 'gamma': '-', 'claim': '-', 'proof': l_[:200],
                        'model': a_[:600], 'rust': b_[:600]})
    distinct = len({(tuple(g), tuple(c), tuple(p)) for g, c, p in triples})
    rep.coverage.update({
        'evaluations': len(triples) + len(flines), 'distinct_nontrivial': distinct + len(set(flines)), 'function_level_requests': len(flines),
        'rule': 'byte triples: adversarial templates, shipped proofs/ triples and their 1-3 byte mutations, steered '
                'random walks (accepted deep into the rule set) with and without a theory, mutations of those, and '
                'every proof-phase string up to length %d over a %d-byte alphabet (exhaustive part: %d strings). '
                'distinct = distinct byte triples' % (3 if quick else 4, len(rs.EXH_ALPHABET), n_exh),
        'programs': len(triples), 'disagreements_checked': len(dis),
        'accepted_by_model': stats['accepted_by_model'],
        'opcode_histogram': rs.opcode_histogram(triples),
        'samples': [{'tag': tags[i], 'gamma': sx.hexs(triples[i][0]), 'claim': sx.hexs(triples[i][1]),
                     'proof': sx.hexs(triples[i][2])[:400], 'rust': ra[i][:200]}
                    for i in (0, len(triples) // 3, len(triples) // 2, len(triples) - 1)],
    })
    rep.assumptions += ['the reference machine of lean/Pi2/Machine.lean is the reading of docs/proof-language.md '
                        'fixed in DESIGN.md §3.3 (D1-D10)', 'ids are < 256 on the wire; the model uses Nat']
    # a disagreement between the real checker and the reference IS the violation of C05 (the
    # document is the oracle): the replay is the triple with both answers
    for d in dis[:20]:
        rep.violation(f"checker and reference machine disagree on a {d['tag']} input: model={d['model'][:60]} "
                      f"rust={d['rust'][:60]}", d, found_input=True,
                      key='disagree:' + d['gamma'] + ':' + d['claim'] + ':' + d['proof'])
    if not ok:
        # a proof obligation about the reference / the opcode tie no longer checks: the search for a
        # failing input is the correspondence run above; if it found nothing, say so
        if not dis:
            rep.violation('proof obligation of C05 no longer checks: ' + json.dumps(detail)[:600],
                          {'broken': detail}, found_input=False)
    return rep


def replay(path):
    d = json.load(open(path))
    r = d['replay']
    rep = core.Report('C05', 'quick', d.get('seed', 0))
    if 'proof' in r:
        def unhex(h):
            return [] if h == '-' else list(bytes.fromhex(h))
        run(rep, (unhex(r['gamma']), unhex(r['claim']), unhex(r['proof'])))
    else:
        run(rep)
    return rep.finish()
