"""C17 — Metamath databases survive printing, re-parsing and slicing."""
from __future__ import annotations

import json
import random
import re

from .. import core, mm, mmgen2, sx

THEOREMS = ['C17.print_parse', 'C17.parse_print_parse', 'C17.slice_floats_in_order', 'C17.slice_declares',
            'C17.slice_labels_present', 'C17.slice_keeps_lemma', 'C17.slice_keeps_disjointness', 'C17.slice_keeps_top_ess',
            'C17.slice_verifies', 'C17.slice_verifies_of_verifyDb', 'C17.slice_verifies_nonvacuous',
            'C17.cex_disj_now_verifies', 'C17.cex_top_ess_now_verifies',
            'C17.slicer_text_is_the_model', 'C17.slicer_text_is_the_model_keys', 'C17.supporting_database_text_is_the_model',
            'C17.translated_slices_verify', 'C17.translated_slicer_nonvacuous',
            'C17.parser_text_is_the_model', 'C17.encoder_text_is_the_model', 'C17.print_parse_text', 'C17.print_parse_text_nonvacuous',
            'C17.printer_text_is_tokens', 'C17.print_parse_real_text', 'C17.printer_keeps_blank_label',
            'C17.old_printer_dropped_blank_label']


def hx(s):
    return 'h' + s.encode('utf-8').hex()


def unhx(a):
    return bytes.fromhex(a[1:]).decode('utf-8')


def toks_sx(toks):
    return '(' + ' '.join(hx(t) for t in toks) + ')'


def canon_slice(sl_sx):
    """an AST S-expression, frozen for comparison.  The comparison is EXACT: since the commit "keep a top-level $d statement
    at its place in a slice" no output of the slicer depends on the iteration order of a set any more"""
    assert sl_sx[0] == 'mdb'
    return freeze(sl_sx)


def freeze(x):
    return tuple(freeze(y) for y in x) if isinstance(x, (list, tuple)) else x


def flat_statements(st):
    for s in st:
        if s[0] == 'block':
            yield from flat_statements(s[1])
        else:
            yield s


COMMENT = re.compile(r'\$\(((.|\n)(?<!\$\)))*\$\)')


IGNORED = re.compile(r'[ \n\t\f\r]+')


def split_ws(text):
    """split at the characters the grammar ignores (`%ignore /[ \\n\\t\\f\\r]+/`) — NOT `str.split()`, which also splits at U+000B,
    U+001C..U+001F, U+0085, U+00A0, ...: for lark those are ordinary characters of a TOKEN"""
    return [t for t in IGNORED.split(text) if t]


def lex(src):
    """the lark lexer's job (outside the Lean model): drop `$( ... $)` comments, split at the ignored characters"""
    return split_ws(COMMENT.sub(' ', src))


def mutate_tokens(rng, toks):
    toks = list(toks)
    for _ in range(rng.randint(1, 2)):
        k = rng.random()
        i = rng.randrange(len(toks))
        if k < 0.3:
            del toks[i]
        elif k < 0.6:
            toks.insert(i, rng.choice(['(', ')', '$.', '$}', '${', 'zz', '$=', '$a', 'ph0']))
        elif k < 0.8:
            j = rng.randrange(len(toks))
            toks[i], toks[j] = toks[j], toks[i]
        else:
            toks.insert(i, toks[i])
    return toks


class _Fixed:
    def __init__(self, lemmas):
        self.lemmas = lemmas


REGRESSION = [
    # a top-level $d AFTER an axiom over both variables, which the lemma uses with equal variables
    ('$c |- ( ) foo #Pattern $. $v x y z $. x-f $f #Pattern x $. y-f $f #Pattern y $. z-f $f #Pattern z $.\n'
     'ax1 $a |- ( foo x y ) $. $d x y $. th $p |- ( foo z z ) $= ( ax1 ) AAB $.', ['th']),
    # an essential hypothesis outside any block, cited by the lemma
    ('$c |- ( ) foo #Pattern $. $v x $. x-f $f #Pattern x $. h $e |- ( foo x x ) $.\n'
     'th $p |- ( foo x x ) $= ( ) B $.', ['th']),
    # a $d over four variables of which the slice needs two, between the axiom and the lemma that needs it
    ('$c |- ( ) foo #Pattern $. $v x y z w $. x-f $f #Pattern x $. y-f $f #Pattern y $. z-f $f #Pattern z $. w-f $f #Pattern w $.\n'
     '$d w x z y $. ${ $d x y $. ax1 $a |- ( foo x y ) $. $} th $p |- ( foo x y ) $= ( ax1 ) ABC $.', ['th']),
    # labels that Python's str.isspace takes for whitespace but the lexer does not (the defect of Printer.is_line_buffer_empty repaired
    # by 5aefd01): U+00A0 (a $f) at the start of a top-level line, U+000B (an $e) at the start of a continuation line of the lemma's block;
    # both are in the slice of the lemma, which is printed and re-parsed too.  (They are NOT cited between the parentheses of the
    # compressed proof: deconstruct_compressed_proof splits the label list with str.split(), see the report of this change.)
    ('$c |- ( ) foo #Pattern $. $v x $.\n\xa0 $f #Pattern x $.\nax1 $a |- ( foo x x ) $.\n'
     '${ h $e |- ( foo x x ) $. \x0b $e |- ( foo x x ) $. th $p |- ( foo x x ) $= ( ax1 ) AD $. $}', ['th']),
]

# the former counterexamples themselves, and tokens that END in such a character (Printer.flush still rstrips the last string of a line;
# the Encoder never ends a line with a user token): printed and re-parsed by the real code, compared with the model and the Printer model
BLANK_LABELS = ['\xa0 $a x $.', '\x0b $a x $.', '${ l $a a $. \x0b $a b $. $}', '${ \xa0 $a a $. \x1c $a b $. ${ \x85 $a c $. \u3000 $a d $. $} $}',
                '$c a\xa0 $. $v v\x0b $. l\xa0 $f t\xa0 v\x0b $. ${ $d v\x0b v\x0b $. h\xa0 $e x\xa0 $. $} p $p ( a\xa0 b\xa0 ) $= q\xa0 $.',
                '\xa0 $a x $. \xa0 $.', 'a\x0bb $a x $.']


def run(rep):
    rng = random.Random(rep.seed * 1000003 + 17)
    ok, detail = core.proof_gate(rep, 'Pi2.Props.C17', THEOREMS)
    quick = rep.tier == 'quick'
    N = 80 if quick else 800
    findings = []
    cases = []
    for _ in range(N):
        db = mmgen2.RichDB(rng, n_lemmas=rng.randint(1, 4))
        st = db.statements()
        src = mmgen2.render(rng, st)
        mm.verify(src, strict=True)          # generator sanity (an exception here is a bug of the generator, not a finding)
        cases.append((db, st, src))
    # the two databases on which the slicer was found wrong while `slice_verifies` was being proved (repaired since: F17, F18)
    for src, lemmas in REGRESSION:
        mm.verify(src, strict=True)
        cases.append((_Fixed(lemmas), mm.parse(src), src))
    # ---- 1. printing and parsing: the real code, the model, an independent tokenizer
    sources = [src for _, _, src in cases]
    n_valid = len(sources)
    for _, _, src in cases[: (20 if quick else 300)]:
        sources.append(' '.join(mutate_tokens(rng, lex(src))))        # malformed / odd stream
    sources += ['', '$c a $.', 'l $a ( $.', 'l $a ( a ) $.', 'l $a ( a b ) $.', 'l $a ( ( a b ) c ) ) $.', '${ $}', '$v x $. l $f t x $. ${ $d x x $. $}',
                'l $p a $= $.', 'l $p a $= ? $.', '$v x $. l $a |- ( x y x ) x $.', 'l $a |- y $. $v y $. l2 $a |- y $.']
    sources += BLANK_LABELS
    pa = core.py_h(['mmast ' + (s.encode().hex() or '-') for s in sources])
    ml = []
    for s in sources:
        ml.append('mmparse ' + toks_sx(lex(s)))
    ma = core.lean_drv(ml)
    to_print = []
    outcome = {'ok': 0, 'raise': 0}
    for k, (s, a, m) in enumerate(zip(sources, pa, ma)):
        if a.startswith('(raise'):
            outcome['raise'] += 1
            if m != '(raise)':
                findings.append({'key': 'model-parse', 'python': a, 'model': m[:400], 'source': s[-1500:],
                                 'what': 'correspondence: the real parser raises, the Lean model of it parses'})
            if k < n_valid:
                findings.append({'key': 'parse-raises', 'python': a, 'source': s[-2000:], 'what': f'a valid database is not parsed: {a}'})
            continue
        outcome['ok'] += 1
        # split "(ok <mdb> h.. flag)"
        body = a[4:-1]
        flag = body[body.rindex(' ') + 1:]
        body = body[:body.rindex(' ')]
        printed = unhx(body[body.rindex(' ') + 1:])
        dbsx = body[:body.rindex(' ')]
        if m != dbsx:
            findings.append({'key': 'model-parse', 'python': dbsx[:600], 'model': m[:600], 'source': s[-1500:],
                             'what': 'correspondence: parse_database and the Lean model of it give different ASTs'})
        if flag != 'true':
            findings.append({'key': 'roundtrip', 'flag': flag, 'source': s[-2000:], 'printed': printed[-2000:],
                             'what': f'printing a parsed database and parsing the text again does not give the same database ({flag})'})
        src_toks = lex(s)
        if split_ws(printed) != src_toks:
            findings.append({'key': 'print-tokens', 'source': s[-1500:], 'printed': printed[-1500:],
                             'what': 'the printed database is not the token sequence that was parsed'})
        to_print.append((dbsx, printed, s))
    mp = core.lean_drv(['mmprint ' + d for d, _, _ in to_print])
    for (d, printed, s), m in zip(to_print, mp):
        if m != toks_sx(split_ws(printed)):
            findings.append({'key': 'model-print', 'python': printed[-1200:], 'model': m[:600], 'source': s[-1200:],
                             'what': 'correspondence: Encoder.encode_string and the Lean model of it print different token sequences'})
    # the TEXT: the Encoder as translated from ast.py (Pi2/Gen/MMAst.lean) through the model of Printer (Pi2/MMAstSupport.lean) vs the
    # real Encoder.encode_string, character by character (only meaningful when the generated files were built: `ok`)
    n_text = 0
    mt = core.lean_gen(['mmtext ' + d for d, _, _ in to_print]) if ok else None
    if mt is not None:
        for (d, printed, s), m in zip(to_print, mt):
            n_text += 1
            if m.startswith('(') or m == 'bad-request' or unhx(m) != printed:
                findings.append({'key': 'model-text', 'python': printed[-1200:], 'model': (unhx(m) if m[:1] == 'h' else m)[-1200:], 'source': s[-1200:],
                                 'what': 'correspondence: Encoder.encode_string and the translated Encoder through the Printer model give different TEXTS'})
    # ---- 2. slicing
    sl = core.py_h(['mmslices %s (%s)' % (src.encode().hex(), ' '.join(hx(l) for l in db.lemmas)) for db, _, src in cases])
    model_lines, model_idx = [], []
    n_slices = 0
    float_positions = 0
    for ci, ((db, st, src), a) in enumerate(zip(cases, sl)):
        if not a.startswith('(ok'):
            findings.append({'key': 'slice-raises', 'python': a[:300], 'source': src[-2500:], 'what': f'slicing a valid database fails: {a[:120]}'})
            continue
        x = sx.parse(a)[0]
        deps, include, slices = x[1], x[2], x[3][1:]
        orig = {s[1]: s for s in flat_statements(st) if s[0] == 'p'}
        orig_floats = [s[1] for s in st if s[0] == 'f']
        dbsx = next(d for d, _, s in to_print if s == src)
        model_lines.append('mmslice %s %s %s ()' % (dbsx, _sx_str(deps), _sx_str(include)))
        model_idx.append((ci, slices))
        if sorted(unhx(s[0]) for s in slices) != sorted(unhx(l) for l in include if unhx(l) in orig):
            findings.append({'key': 'slice-set', 'source': src[-2000:], 'what': 'the slices produced are not exactly those of the included lemmas'})
        for s in slices:
            n_slices += 1
            label, text, same = unhx(s[0]), unhx(s[2]), s[3]
            problem = None
            if same != 'true':
                problem = f'the printed slice does not re-parse to the slice ({same})'
            else:
                try:
                    v = mm.verify(text, strict=True)
                    pst = [q for q in flat_statements(mm.parse(text)) if q[0] == 'p']
                    if [q[1] for q in pst] != [label]:
                        problem = 'the slice does not contain exactly the lemma as its only $p'
                    elif pst[0][2] != orig[label][2]:
                        problem = 'the lemma has a different statement in the slice'
                    elif pst[0][3] != orig[label][3]:
                        problem = 'the lemma has a different proof in the slice'
                    elif v.proved.get(label) != orig[label][2]:
                        problem = 'the proof does not prove the statement against the slice'
                    fl = [q[1] for q in mm.parse(text) if q[0] == 'f']
                    it = iter(orig_floats)
                    if not all(f in it for f in fl):
                        problem = 'floating hypotheses are not in their original order'
                    float_positions += len(fl)
                except mm.VerifyError as e:
                    problem = f'the slice is not self-contained / the proof does not verify against it: {e}'
                except Exception as e:   # noqa
                    problem = f'the slice cannot be processed: {type(e).__name__} {e}'
            if problem:
                findings.append({'key': 'slice', 'label': label, 'slice': text[-3000:], 'source': src[-3000:],
                                 'what': f'slice of {label}: {problem}'})
    ms = core.lean_drv(model_lines)
    for (ci, slices), m in zip(model_idx, ms):
        src = cases[ci][2]
        if not m.startswith('(slices'):
            findings.append({'key': 'model-slice', 'model': m[:300], 'source': src[-2000:],
                             'what': 'correspondence: slice_database succeeds, the Lean model of it raises'})
            continue
        mx = sx.parse(m)[0][1:]
        real = [(s[0], canon_slice(s[1])) for s in slices]
        mod = [(s[0], canon_slice(s[1])) for s in mx]
        if real != mod:
            bad = next((a for a, b in zip(real, mod) if a != b), None)
            findings.append({'key': 'model-slice', 'first_difference': unhx(bad[0]) if bad else 'number of slices', 'source': src[-2500:],
                             'what': 'correspondence: slice_database and the Lean model of it produce different slices (exact comparison)'})
    rep.coverage.update({
        'evaluations': len(sources) + n_slices, 'distinct_nontrivial': len(set(sources)) + n_slices,
        'rule': 'random databases (constants, n-ary constructors, notation and symbol axioms, axioms in nested blocks with $e and $d, '
                '$v/$f scattered over the file, 1-4 lemmas depending on earlier lemmas, lemmas with essential hypotheses, compressed proofs with '
                'and without Z; top-level $d AFTER an assertion over both variables which a lemma uses with equal variables, $d over 2-5 variables of which a '
                'slice needs only some, variable-free $e outside any block cited by the lemmas after it) rendered with random line breaks and comments; REAL parse_database / Encoder / slice_database vs the Lean models '
                '(ASTs, token sequences, slices: exact); property oracles: parse(print(db)) == db by the real parser, printed tokens == '
                'source tokens, every slice re-parses, is accepted by an independent strict Metamath verifier (all symbols, variables and '
                'hypotheses declared; the lemma proved with its original proof and statement), floats in original order; plus a malformed stream',
        'programs': len(sources), 'texts_compared_exactly': n_text, 'slices': n_slices, 'parser_outcomes': outcome, 'float_positions_checked': float_positions,
        'disagreements_checked': len(findings),
        'samples': [cases[0][2][-600:]],
    })
    rep.assumptions += ['the lark lexer (whitespace, comments, keyword terminals) and the printer\'s whitespace are outside the hand-written Lean model: tokens are compared; '
                        'the parser callbacks, the grammar\'s statement rules and the Encoder are translated from the source text on every run (vlib/transmmast.py, tie: Pi2/MM/AstTie.lean); '
                        'Printer is a hand-written model of the text the translator compares the class with, and its TEXT is compared exactly with the real one (mmtext)',
                        'slice_verifies is a theorem (C17.slice_verifies, for databases satisfying MM.WellFormedDb, about the Lean reference verifier Pi2/MM/Verify.lean, '
                        'which vlib/validate_verify.py compares with the independent Python verifier vlib/mm.py); the independent verifier is still run on every generated slice',
                        'one assertion per block (match_axiom registers only one conclusion per block); labels are unique']
    seen = set()
    for f in findings:
        if f['key'] in seen:
            continue
        seen.add(f['key'])
        rep.violation(f['what'], f, not core.is_correspondence(f), key='py-mm:' + f['key'])
    if not ok and not findings:
        rep.violation('proof obligation used by C17 no longer checks: ' + json.dumps(detail)[:600], {'broken': detail}, False)
    return rep


def _sx_str(x):
    return '(' + ' '.join(_sx_str(y) for y in x) + ')' if isinstance(x, (list, tuple)) else str(x)


def replay(path):
    rep = core.Report('C17', 'quick', json.load(open(path)).get('seed', 0))
    run(rep)
    return rep.finish()
