"""C08 — a proof means the same under every interpreter."""
from __future__ import annotations

import json
import random

from .. import core, genpf, sx
from . import modside as ms

THEOREMS = ['C08.stateful_run_pushes_advertised_conclusion', 'C08.basic_run_returns_advertised_conclusion',
            'C08.stateful_success_implies_basic_success', 'C08.basic_success_implies_stateful_success',
            'C08.memoisation_does_not_change_conclusion',
            # the proof generator as written is the model (Pi2/Props/C08b.lean, Pi2/ProofTie.lean, vlib/transproof.py)
            'C08.proof_text_translated', 'C08.pattern_text_is_the_model', 'C08.memo_pattern_text_is_the_model',
            'C08.conclusions_text_is_the_model', 'C08.proof_text_is_the_model', 'C08.basic_text_is_the_model',
            'C08.basic_text_differs_on_unshaped_plugs', 'C08.proof_text_asserts',
            # the proof generator as written ON the StatefulInterpreter as written is the model (Pi2/ComposeTie.lean)
            'C08.stateful_text_object_is_the_checking_tracker', 'C08.calling_convention_of_the_proof_text',
            'C08.proof_text_on_stateful_text_is_proof_text_on_tracker', 'C08.pattern_text_on_stateful_text_is_the_model',
            'C08.proof_text_on_stateful_text_is_the_model', 'C08.stateful_text_nonvacuous']


def run(rep):
    rng = random.Random(rep.seed * 1000003 + 8)
    ok, detail = core.proof_gate(rep, 'Pi2.Props.C08b', THEOREMS)
    quick = rep.tier == 'quick'
    N = 150 if quick else 3000
    depth = 2 if quick else 3
    reqs, conc_reqs = [], []
    kinds = {'valid': 0, 'invalid': 0, 'static-inst': 0}
    for _ in range(N):
        ax = genpf.gen_axioms(rng, rng.choice((0, 1, 2)))
        r = rng.random()
        if r < 0.7:
            pf = genpf.gen_pf(rng, rng.choice((1, 2, 3)), ax)
            kinds['valid'] += 1
        else:
            pf = genpf.gen_bad_pf(rng, 2, ax)
            kinds['invalid'] += 1
        axs = ' '.join(map(sx.pat_to_s, ax))
        s = genpf.pf_to_s(pf)
        if rng.random() < 0.15:
            # the non-dynamic ProofExp.instantiate (and an empty map)
            s = '(static-inst %s (%s))' % (s, '' if rng.random() < 0.3 else '(0 %s)' % sx.pat_to_s(genpf.plug(rng, 1)))
            kinds['static-inst'] += 1
        else:
            conc_reqs.append(f'pf-conc (axioms {axs}) {s}')
            conc_reqs.append(f'pf-basic (axioms {axs}) {s}')
        reqs.append(f'pf-all (axioms {axs}) {s} {depth}')
    pa = core.py_h(reqs)
    la = core.lean_drv(conc_reqs)
    pc = core.py_h(conc_reqs)
    dis = [{'request': l[:2500], 'model': a[:800], 'python': b[:800]} for l, a, b in zip(conc_reqs, la, pc) if a != b]
    bad = [{'request': l[:2500], 'python': a[:1500]} for l, a in zip(reqs, pa)
           if a.startswith('(disagree') or a.startswith('(all-agree-but')]
    n_stacks = 0
    for a in pa:
        if a.startswith('(all-'):
            n_stacks = max(n_stacks, int(a.split()[1].rstrip(')')))
    rep.coverage.update({
        'evaluations': len(reqs) + len(conc_reqs), 'distinct_nontrivial': len(set(reqs)) + len(set(conc_reqs)),
        'rule': 'random proof expressions (valid by construction via weaken/imp_refl/axiom chains with dynamic_inst, gen, mp; '
                'invalid: mismatching mp, generalization over a free variable; ProofExp.instantiate incl. the empty map) over '
                'random axioms, each run through %d interpreter stacks (5 base interpreters x transformer stacks of depth<=%d over '
                '{memoising with/without suggestions, instantiation optimiser}); all outcomes must coincide and equal the '
                'advertised conclusion; conc/Basic run also compared with the model' % (n_stacks, depth),
        'programs': len(reqs) + len(conc_reqs), 'disagreements_checked': len(dis) + len(bad),
        'interpreter_stacks': n_stacks, 'expression_kinds': kinds,
        'outcomes': {k: sum(1 for a in pa if a.startswith(k)) for k in ('(all-agree', '(all-raise', '(construct-raises', '(disagree')},
        'samples': [reqs[0][:700], pa[0][:300], conc_reqs[0][:300], pc[0][:200]],
    })
    # ---- the slot budget: modules with MANY axioms, each also a claim proved by load_axiom.  `serialize(optimize=True)` runs the counting
    # pass and then MemoizingInterpreter(SerializingInterpreter, finalize()): every axiom takes two slots there (the saved pattern and the
    # published Proved), so the analysis must budget 256 - n suggestions.  Outcome with and without optimisation must be the same
    # (n = 129 fills the memory exactly: slots 0..255).
    big = ms.budget_modules((100, 129) if quick else (60, 100, 127, 128, 129, 130, 160))
    bent, _bdis = ms.serialise(big)
    budget = []
    for e, m in zip(bent, big):
        a, b = e.get('raw', ''), e.get('opt', '')
        if a and b and a.startswith('(ok') != b.startswith('(ok'):
            budget.append({'request': e['s'][:1500], 'axioms': len(m[1]), 'raw': a[:160], 'opt': b[:160], 'memo_size': e.get('memo', '').count('(') - 1,
                           'python': 'memoising(serialising) %s, plain serialising %s on a module of %d axioms' % (b[:40], a[:40], len(m[1]))})
    rep.coverage.update({'slot_budget_modules': len(big), 'slot_budget_outcomes': [(len(m[1]), e.get('raw', '')[:3], e.get('opt', '')[:6]) for e, m in zip(bent, big)]})
    for b in budget[:3]:
        rep.violation('interpreters disagree on a proof module: ' + b['python'][:160], b, True, key='py-interp-budget:%d' % b['axioms'])
    bad = bad + budget
    for b in [b for b in bad if 'axioms' not in b][:8]:
        rep.violation('interpreters disagree on a proof expression: ' + b['python'][:120], b, True,
                      key='py-interp:' + b['request'][:200])
    if not bad:
        for d in dis[:5]:
            rep.violation('ProofThunk.conc / BasicInterpreter run differs from the model; no disagreement between interpreters found',
                          dict(d, broken='correspondence pf-conc/pf-basic Python↔Pi2.Proof'), False)
    if not ok and not (bad or dis):
        rep.violation('proof obligation of C08 no longer checks: ' + json.dumps(detail)[:600], {'broken': detail}, False)
    return rep


def replay(path):
    rep = core.Report('C08', 'quick', json.load(open(path)).get('seed', 0))
    run(rep)
    return rep.finish()
