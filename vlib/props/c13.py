"""C13 — matching is sound and complete."""
from __future__ import annotations

import json
import random

from .. import core, gen, sx
from .. import pymach as pm

THEOREMS = ['C13.match_sound', 'C13.match_respects_seed', 'C13.match_complete', 'C13.match_complete_partial', 'C13.match_incomplete_two_lists', 'C13.matchList_sound',
            'C13.matchList_empty_succeeds', 'C13.head_transparent',
            'C13.matching_translated', 'C13.matching_text_is_the_model', 'C13.matchList_text_is_the_model',
            'C13.matchList_text_empty_succeeds', 'C13.destructors_text_is_the_model',
            'C13.notation_matches_text_is_the_model', 'C13.matching_text_sound']


def mv_records(p, acc):
    k = p[0]
    if k == 'mv':
        acc.setdefault(p[1], []).append(p)
    elif k in ('imp', 'app'):
        mv_records(p[1], acc); mv_records(p[2], acc)
    elif k in ('ex', 'mu'):
        mv_records(p[2], acc)
    elif k in ('esub', 'ssub'):
        mv_records(p[1], acc); mv_records(p[3], acc)
    return acc


def constraint_violating_binding(b):
    """a failed soundness law whose substitution binds some metavariable of the (expanded) pattern to a pattern that
    does not satisfy the freshness / polarity constraints that metavariable declares"""
    a = b['python']
    if not (b['request'].startswith(('law-match-sound', 'law-matchlist-sound')) and '(binds' in a):
        return False
    try:
        x = sx.parse(a)[0]
        binds = {int(e[0]): sx.pat_of_sx(e[1]) for e in next(t for t in x if isinstance(t, list) and t and t[0] == 'binds')[1:]}
        pat = sx.pat_of_sx(next(t for t in x if isinstance(t, list) and t and t[0] == 'pattern')[1])
    except Exception:   # noqa
        return False
    for mid, recs in mv_records(pat, {}).items():
        if mid not in binds:
            continue
        q = binds[mid]
        for (_, _, ef, sf, ps, ns, _) in recs:
            if any(not pm.e_fresh(q, e) for e in ef) or any(not pm.s_fresh(q, s) for s in sf) or \
                    any(not pm.positive(q, s) for s in ps) or any(not pm.negative(q, s) for s in ns):
                return True
    return False


def one_id_two_constraint_lists(b):
    """a failed completeness law ("no match") whose expanded pattern uses one metavariable id with two different
    constraint lists and leaves that id uninstantiated: the instance then keeps both occurrences, and no substitution keyed
    by id (what match_single returns) can map the id to both"""
    a = b['python']
    if not (b['request'].startswith('law-match-complete') and a.startswith('(false no-match') and '(pattern' in a):
        return False
    try:
        x = sx.parse(a)[0]
        pat = sx.pat_of_sx(next(t for t in x if isinstance(t, list) and t and t[0] == 'pattern')[1])
        keys = {int(k) for k in next(t for t in x if isinstance(t, list) and t and t[0] == 'theta-keys')[1:]}
    except Exception:   # noqa
        return False
    for mid, recs in mv_records(pat, {}).items():
        if mid not in keys and len(set(recs)) > 1:
            return True
    return False


def subst_free(rng, depth):
    return gen.gen_npat(rng, depth, constrained=0.0, subst=0.0)


def run(rep):
    rng = random.Random(rep.seed * 1000003 + 13)
    ok, detail = core.proof_gate(rep, 'Pi2.Props.C13', THEOREMS)
    quick = rep.tier == 'quick'
    N = 1500 if quick else 25000
    nots = gen.shipped_notations()
    lines, laws = [], []
    for _ in range(N):
        p = subst_free(rng, rng.choice((1, 2, 3)))
        theta = gen.gen_delta(rng, rng.choice((0, 1, 2)))
        inst = ('inst', p, theta)
        seed = gen.gen_delta(rng, 1) if rng.random() < 0.3 else ()
        q = gen.gen_npat(rng, rng.choice((1, 2, 3)))
        pany = gen.gen_npat(rng, rng.choice((1, 2, 3)))
        lines.append(f'match {sx.pat_to_s(p)} {sx.pat_to_s(inst)} {gen.delta_to_s(seed)}')
        lines.append(f'match {sx.pat_to_s(pany)} {sx.pat_to_s(q)} {gen.delta_to_s(seed)}')
        # ground equations (the only solution is the empty substitution)
        g = gen.gen_npat(rng, 2, constrained=0.0, subst=0.0)
        lines.append('matchlist ((%s %s) (%s %s))' % (sx.pat_to_s(p), sx.pat_to_s(inst), sx.pat_to_s(q), sx.pat_to_s(q)))
        lines.append('matchlist ((%s %s))' % (sx.pat_to_s(('evar', 0)), sx.pat_to_s(('evar', 0))))
        laws.append(f'law-match-sound {sx.pat_to_s(pany)} {sx.pat_to_s(q)} {gen.delta_to_s(seed)}')
        laws.append(f'law-match-sound {sx.pat_to_s(p)} {sx.pat_to_s(inst)} {gen.delta_to_s(seed)}')
        laws.append(f'law-match-complete {sx.pat_to_s(p)} {gen.delta_to_s(theta)}')
        # the list form: equations that share metavariables, some with identical sides (p = p binds p's metavariables to
        # themselves), in random order; any answer must satisfy every equation
        eqs = [(p, inst), (q, q), (pany, q)]
        if rng.random() < 0.5:
            eqs.append((p, p))
        rng.shuffle(eqs)
        eqs = eqs[:rng.choice((2, 3, 4))]
        laws.append('law-matchlist-sound (%s)' % ' '.join('(%s %s)' % (sx.pat_to_s(a), sx.pat_to_s(b)) for a, b in eqs))
    for label, arity, body, _, _ in nots:
        for _ in range(6 if quick else 60):
            args = [gen.gen_npat(rng, rng.choice((0, 1, 2))) for _ in range(arity)]
            app = ('inst', body, tuple(enumerate(args)))
            lines.append(f'nmatches {sx.pat_to_s(body)} {arity} {sx.pat_to_s(app)}')
            laws.append('law-notation-roundtrip %s %d (%s)' % (sx.pat_to_s(body), arity, ' '.join(map(sx.pat_to_s, args))))
    la = core.lean_drv(lines)
    pa = core.py_h(lines)
    dis = [{'request': l, 'model': a, 'python': b} for l, a, b in zip(lines, la, pa) if a != b]
    lw = core.py_h(laws)
    bad = [{'request': l, 'python': a} for l, a in zip(laws, lw) if a not in ('true', 'none')]
    total = len(lines) + len(laws)
    rep.coverage.update({
        'evaluations': total, 'distinct_nontrivial': len(set(lines)) + len(set(laws)),
        'rule': 'match_single on (substitution-free pattern, instance built by instantiation with θ) with and without seed '
                'bindings, on unrelated random pairs, equation lists including all-ground ones; every shipped notation '
                '(%d table entries) at random argument tuples; laws evaluated on the REAL code: soundness (re-instantiation '
                'gives the instance, seed respected), completeness (θ recovered on metavars), notation round trip' % len(nots),
        'programs': total, 'disagreements_checked': len(dis) + len(bad),
        'successful_matches': sum(1 for a in pa if a.startswith('(some')), 'failed_matches': sum(1 for a in pa if a == 'none'),
        'samples': [lines[0], lines[1], lines[2], laws[0], laws[2], laws[-1]],
    })
    n_known = n_two = 0
    for b in bad:
        if constraint_violating_binding(b):
            # match_single binds a metavariable to a pattern that violates the constraints the metavariable declares
            # (MetaVar.can_be_replaced_by is a TODO stub returning True): recorded open finding, not a new violation
            n_known += 1
            rep.violation('match_single binds a constrained metavariable to a pattern that violates its constraints: ' + b['python'][:120],
                          b, True, key='py-match:constraint-violating-binding')
        elif one_id_two_constraint_lists(b):
            # a pattern that uses one metavariable id under two constraint lists and is matched against itself (the id
            # is not instantiated): the only solution is "leave it", which an id-keyed answer cannot say.  Recorded
            # open finding; minimal instance: match_single(p, p.instantiate({})) is None for p = phi0 -> phi0{e_fresh x0}
            n_two += 1
            rep.violation('match_single fails on an instance that leaves a metavariable id with two constraint lists uninstantiated: '
                          + b['python'][:60], b, True, key='py-match:one-id-two-constraint-lists')
    bad = [b for b in bad if not (constraint_violating_binding(b) or one_id_two_constraint_lists(b))]
    rep.coverage['constraint_violating_bindings'] = n_known
    rep.coverage['one_id_two_constraint_lists'] = n_two
    for b in bad[:8]:
        rep.violation('matching law fails on the real code: ' + b['python'][:80], b, True, key='py-match:' + b['request'])
    if not bad:
        for d in dis[:5]:
            rep.violation('Python matching differs from the model; no soundness/completeness failure found',
                          dict(d, broken='correspondence match Python↔Pi2.Match'), False)
    if not ok and not (bad or dis):
        rep.violation('proof obligation of C13 no longer checks: ' + json.dumps(detail)[:600], {'broken': detail}, False)
    return rep


def replay(path):
    rep = core.Report('C13', 'quick', json.load(open(path)).get('seed', 0))
    run(rep)
    return rep.finish()
