"""Shared engine for the properties anchored in rust/src/lib.rs (C01, C05, C06, C11-Rust):
generation of byte triples / patterns, the Rust <-> Lean correspondence, and the C01 oracle."""
from __future__ import annotations

import itertools
import os
import random

from .. import core, evalfin, gen, pymach as pm, sx


# ----------------------------------------------------------------------------------------------
# byte triples
# ----------------------------------------------------------------------------------------------

def positivity_triple(rng):
    """Mu over pending substitutions, and Instantiate against positivity/negativity constraints: the arms of
    positive/negative that ordinary proofs never reach"""
    X, Y = rng.choice(gen.IDS), rng.choice(gen.IDS)
    lists = lambda: tuple(sorted(rng.sample(gen.IDS, rng.choice((0, 1, 1, 2)))))   # noqa: E731
    mv = ('mv', rng.choice(gen.IDS), (), (), lists(), lists(), ())
    plug = gen.gen_pat(rng, rng.choice((0, 1, 2)), meta=False)
    if rng.random() < 0.6:
        plug = rng.choice([('svar', Y), ('imp', ('svar', Y), pm.BOT), ('imp', ('imp', ('svar', Y), pm.BOT), pm.BOT), plug])
    kind = rng.choice(('ssub', 'ssub', 'esub'))
    body = (kind, mv, X, plug)
    if rng.random() < 0.3:
        body = ('ssub', body, rng.choice(gen.IDS), gen.gen_pat(rng, 1, meta=False))
    if rng.random() < 0.5:
        instrs = pm.build(body) + [('mu', Y)]
    else:
        # instantiate a metavariable that declares Y positive / negative with the substitution pattern
        target = ('mv', 7, (), (), (Y,) if rng.random() < 0.5 else (), (Y,) if rng.random() < 0.5 else (), ())
        instrs = pm.build(body) + pm.build(target) + [('instantiate', (7,))]
    return [], [], gen.enc_all(instrs)


def side_condition_triple(rng):
    """imp_refl(E) for a random meta-pattern E, followed by 1-3 rule applications that each carry a side condition
    (Generalization, Substitution, Instantiate); the final term — computed with a LENIENT mirror, i.e. as a checker that lost
    the side condition would compute it — is claimed and published.  The real checker must either reject, or the claim is valid."""
    for _ in range(20):
        E = gen.gen_pat(rng, rng.choice((1, 2, 2, 3)), wf_shape=True)
        if pm.machine_wf(E):
            break
    else:
        E = pm.phi(0)
    instrs = imp_refl(E)
    m = pm.Mach()
    pm.LENIENT = True
    try:
        for ins in instrs:
            m.step(ins, 'proof')
        for _ in range(rng.choice((1, 2, 2, 3))):
            k = rng.random()
            if k < 0.35:
                seq = [('gen', rng.choice(gen.IDS))]
            elif k < 0.6:
                plug = gen.gen_pat(rng, rng.choice((0, 1, 1, 2)), meta=rng.random() < 0.3)
                idx = len(m.memory)
                seq = [('save',), ('pop',)] + pm.build(plug) + [('load', idx), ('subst', rng.choice(gen.IDS))]
            else:
                n = rng.choice((1, 1, 2))
                ids = [rng.choice(gen.IDS) for _ in range(n)]
                idx = len(m.memory)
                seq = [('save',), ('pop',)]
                for _ in range(n):
                    seq += pm.build(gen.gen_pat(rng, rng.choice((0, 1, 2)), meta=rng.random() < 0.4))
                seq += [('load', idx), ('instantiate', tuple(ids))]
            m2 = m.copy()
            try:
                for ins in seq:
                    m2.step(ins, 'proof')
            except Exception:
                continue
            m = m2
            instrs = instrs + seq
    except Exception:
        pm.LENIENT = False
        return [], [], gen.enc_all(instrs)
    finally:
        pm.LENIENT = False
    if not m.stack or m.stack[-1][0] != 'T':
        return [], [], gen.enc_all(instrs)
    claim = m.stack[-1][1]
    return [], gen.enc_all(pm.build(claim) + [('publish',)]), gen.enc_all(instrs + [('publish',)])


def steered_triple(rng, length, lenient=False):
    """(gamma, claim, proof) with empty gamma: a steered proof-phase walk; the top proved terms
    of its final stack are turned into claims and published."""
    instrs, m = gen.gen_proof_stream(rng, length, 'proof', lenient_ok=lenient)
    claim_instrs = []
    if m is not None:
        proved_top = []
        for kind, t in reversed(m.stack):
            if kind != 'T':
                break
            proved_top.append(t)
        k = rng.randint(0, min(3, len(proved_top)))
        chosen = proved_top[:k]                      # top first
        for t in reversed(chosen):                   # last pushed claim = first popped
            claim_instrs += pm.build(t) + [('publish',)]
        instrs = instrs + [('publish',)] * k
    return [], gen.enc_all(claim_instrs), gen.enc_all(instrs)


def gamma_triple(rng, length):
    """a theory with axioms: gamma publishes a few patterns, the proof loads and uses them"""
    g, c, p = [], [], []
    n_ax = rng.randint(1, 3)
    m = pm.Mach()
    for _ in range(n_ax):
        ax = gen.gen_pat(rng, 2, wf_shape=True)
        seq = pm.build(ax) + [('publish',)]
        ok = True
        m2 = m.copy()
        for ins in seq:
            try:
                m2.step(ins, 'gamma')
            except pm.Rej:
                ok = False
                break
        if ok:
            m = m2
            g += seq
    m.stack = []
    instrs, m2 = gen.gen_proof_stream(rng, length, 'proof', mach=m)
    return gen.enc_all(g), [], gen.enc_all(instrs)


TEMPLATES = [
    # the F1 witness: imp_refl(X0) ; Generalization 0 ; Substitution 0 with plug x0 ; Existence ; MP
    ('f1-gen-subst-capture', lambda: (
        [],
        pm.build(('evar', 0)) + [('publish',)],
        # Proved (X0 -> X0): via prop1/prop2 instantiated at φ0 := X0
        imp_refl(('svar', 0)) + [('gen', 0), ('save',), ('pop',)] + pm.build(('evar', 0)) +
        [('load', 0), ('subst', 0), ('existence',), ('mp',), ('publish',)])),
    ('esubst-under-mu-capture', lambda: (
        [], [],
        # quantifier: φ0[x1/x0] -> ∃x0.φ0 ; instantiate φ0 := μX0.x0 with plug... then esubst fires at instantiate
        pm.build(('mu', 0, ('evar', 0))) + [('quantifier',), ('instantiate', (0,))])),
    ('esubst-capture-svar-under-mu', lambda: (
        [], [],
        # build ESubst(φ0, x0, X0), then instantiate φ0 := μX0.x0 => apply_esubst under mu with plug X0 (captures X0)
        pm.build(('mu', 0, ('evar', 0))) + pm.build(('svar', 0)) + [('cleanmv', 0), ('esubst', 0), ('instantiate', (0,))])),
    ('ssubst-capture-evar-under-ex', lambda: (
        [], [],
        pm.build(('ex', 0, ('svar', 0))) + pm.build(('evar', 0)) + [('cleanmv', 0), ('ssubst', 0), ('instantiate', (0,))])),
    ('truncated-instantiate', lambda: ([], [], [12, 26, 2])),
    ('truncated-instantiate-1', lambda: ([], [], [137, 0, 12, 26, 2, 0])),
    ('truncated-metavar', lambda: ([], [], [9, 0, 1])),
    ('zero-byte', lambda: ([], [], [0])),
    ('claims-left', lambda: ([], [137, 0, 30], [])),
    ('mu-nonpositive', lambda: ([], [], gen.enc_all(pm.build(('imp', ('svar', 0), ('svar', 1))) + [('mu', 0)]))),
    ('gen-not-fresh', lambda: ([], [], gen.enc_all([('cleanmv', 0), ('evar', 0), ('prop1',), ('instantiate', (0, 1)), ('gen', 0)]))),
    ('publish-type-confusion', lambda: ([], [12, 30], [])),
]


def imp_refl(t):
    """instructions proving t -> t from Prop1/Prop2 (t a pattern tuple)"""
    tt = ('imp', t, t)
    return (pm.build(t) + pm.build(tt) + pm.build(t) + [('prop2',), ('instantiate', (0, 1, 2))] +
            pm.build(tt) + pm.build(t) + [('prop1',), ('instantiate', (0, 1)), ('mp',)] +
            pm.build(t) + pm.build(t) + [('prop1',), ('instantiate', (0, 1)), ('mp',)])


def norm_bytes(x):
    out = []
    for b in x:
        if isinstance(b, tuple):
            out += pm.enc(b)
        else:
            out.append(b)
    return out


def shipped_triples():
    out = []
    roots = [os.path.join(core.REPO, 'proofs'), os.path.join(core.REPO, 'proofs', 'translated'),
             os.path.join(core.REPO, 'proofs', 'generated-from-k')]
    for root in roots:
        if not os.path.isdir(root):
            continue
        for dp, _, files in os.walk(root):
            for fn in sorted(files):
                if fn.endswith('.ml-proof'):
                    base = os.path.join(dp, fn[:-len('.ml-proof')])
                    try:
                        t = tuple(list(open(base + ext, 'rb').read()) for ext in ('.ml-gamma', '.ml-claim', '.ml-proof'))
                    except OSError:
                        continue
                    if sum(map(len, t)) < 200000:
                        out.append((os.path.relpath(base, core.REPO), t))
    return out


def exhaustive_short(maxlen, alphabet):
    """every byte string over `alphabet` up to maxlen, as proof phase with empty gamma/claims"""
    for n in range(0, maxlen + 1):
        for t in itertools.product(alphabet, repeat=n):
            yield list(t)


def verify_lines(triples):
    return ['verify %s %s %s' % (sx.hexs(g), sx.hexs(c), sx.hexs(p)) for g, c, p in triples]


def parse_state(x):
    """['state', ['stack', ...], ['memory', ...], ['claims', ...]] -> dict of tuple patterns"""
    def term(t):
        return (t[0], sx.pat_of_sx(t[1]))
    return {'stack': [term(t) for t in x[1][1:]], 'memory': [term(t) for t in x[2][1:]],
            'claims': [sx.pat_of_sx(t) for t in x[3][1:]]}


def correspondence(rep, triples, tags):
    """run Lean model and Rust harness on the triples; returns (disagreements, stats, rust_answers)"""
    lines = verify_lines(triples)
    la = core.lean_drv(lines)
    ra = core.rust_h(lines)
    dis = []
    acc = 0
    for i, (a, b) in enumerate(zip(la, ra)):
        if a.startswith('(ok'):
            acc += 1
        if a != b:
            dis.append({'tag': tags[i], 'gamma': sx.hexs(triples[i][0]), 'claim': sx.hexs(triples[i][1]),
                        'proof': sx.hexs(triples[i][2]), 'model': a[:2000], 'rust': b[:2000]})
    return dis, {'accepted_by_model': acc}, ra


def opcode_histogram(triples):
    h = {}
    names = {v: k for k, v in pm.OPC.items()}
    for t in triples:
        for stream in t:
            # decode approximately with the python encoder's layout
            i = 0
            while i < len(stream):
                b = stream[i]
                nm = names.get(b, 'other')
                h[nm] = h.get(nm, 0) + 1
                if nm in ('evar', 'svar', 'sym', 'mu', 'ex', 'esubst', 'ssubst', 'gen', 'subst', 'load', 'cleanmv'):
                    i += 2
                elif nm == 'instantiate' and i + 1 < len(stream):
                    i += 2 + stream[i + 1]
                elif nm == 'metavar':
                    i += 2
                    for _ in range(5):
                        if i < len(stream):
                            i += 1 + stream[i]
                else:
                    i += 1
    return h


def make_triples(rng, tier, n_random):
    triples, tags = [], []
    for name, f in TEMPLATES:
        g, c, p = f()
        triples.append((norm_bytes(g), norm_bytes(c), norm_bytes(p))); tags.append('template:' + name)
    for name, t in shipped_triples():
        triples.append(t); tags.append('shipped:' + name)
        for k in range(3 if tier == 'quick' else 12):
            which = rng.randrange(3)
            mt = list(t)
            mt[which] = gen.mutate(rng, t[which])
            triples.append(tuple(mt)); tags.append(f'shipped-mut:{name}')
    for i in range(max(20, n_random // 8)):
        triples.append(positivity_triple(rng)); tags.append('positivity')
    for i in range(max(60, n_random // 3)):
        triples.append(side_condition_triple(rng)); tags.append('side-condition')
    for i in range(n_random):
        r = rng.random()
        if r < 0.2:
            t = steered_triple(rng, rng.choice((8, 15, 25, 40)), lenient=True)
            tag = 'steered-lenient'
        elif r < 0.7:
            t = steered_triple(rng, rng.choice((8, 15, 25, 40)))
            tag = 'steered'
        else:
            t = gamma_triple(rng, rng.choice((8, 15, 25)))
            tag = 'gamma'
        triples.append(t); tags.append(tag)
        if rng.random() < 0.5:
            which = rng.randrange(3)
            mt = list(t)
            mt[which] = gen.mutate(rng, t[which])
            triples.append(tuple(mt)); tags.append(tag + '-mut')
    return triples, tags


EXH_ALPHABET = [0, 1, 2, 5, 8, 12, 15, 19, 21, 22, 24, 26, 27, 28, 29, 30, 137]


# ----------------------------------------------------------------------------------------------
# C01 oracle on the real checker's accepted states
# ----------------------------------------------------------------------------------------------

def oracle_proved_terms(rep, rng, triples, tags, rust_answers, budget_terms, per_term):
    """for accepted triples with empty gamma: every Proved term the real checker holds must be valid.
    Returns (checked_terms, witnesses)."""
    seen = set()
    todo = []
    for i, ans in enumerate(rust_answers):
        if not ans.startswith('(ok') and not ans.startswith('(rej (state'):
            continue
        if triples[i][0]:
            continue
        try:
            x = sx.parse(ans)[0]
        except Exception:
            continue
        for stx in x[1:4]:
            st = parse_state(stx)
            for kind, t in st['stack'] + st['memory']:
                if kind == 'proved' and t not in seen:
                    seen.add(t)
                    todo.append((i, t))
        if x[0] == 'ok':
            # accepted: every claim published in the claim phase has been discharged, i.e. certified
            for t in parse_state(x[2])['claims']:
                if t not in seen:
                    seen.add(t)
                    todo.append((i, t))
    rng.shuffle(todo)
    # smaller terms first within the budget (they are the ones an exhaustive search can settle)
    todo = sorted(todo[:budget_terms * 3], key=lambda it: sx.size(it[1]))[:budget_terms]
    wit = []
    exh = 0
    for i, t in todo:
        w, tried = evalfin.exhaustive_small(t, max_n=2, cap=3000)
        if tried:
            exh += 1
        if w is None:
            w = evalfin.find_countermodel(t, rng, budget=per_term)
        if w is not None:
            wit.append({'tag': tags[i], 'gamma': sx.hexs(triples[i][0]), 'claim': sx.hexs(triples[i][1]),
                        'proof': sx.hexs(triples[i][2]), 'proved_term': sx.pat_to_s(t), 'countermodel': w})
    return len(todo), exh, wit
