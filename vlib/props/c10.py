"""C10 — every derived rule proves exactly its advertised schema."""
from __future__ import annotations

import json
import random

from .. import core, gen, sx, translemma
from .. import pymach as pm

THEOREMS = ['C10.all_schemas_hold_at_generic_point', 'C10.conclusion_is_schema', 'C10.replays_to_schema', 'C10.conc_stable']

BOT = ('mu', 0, ('svar', 0))


def neg(a):
    return ('imp', a, BOT)


def schema_pat(f, env):
    """a docstring formula (translemma.parse_formula) instantiated with patterns for its letters, fully expanded"""
    k = f[0]
    if k == 'var':
        return env[f[1]]
    if k == 'bot':
        return BOT
    if k == 'top':
        return neg(BOT)
    if k == 'neg':
        return neg(schema_pat(f[1], env))
    a, b = schema_pat(f[1], env), schema_pat(f[2], env)
    if k == 'imp':
        return ('imp', a, b)
    if k == 'and':
        return neg(('imp', a, neg(b)))
    if k == 'or':
        return ('imp', neg(a), b)
    if k == 'equiv':
        return neg(('imp', ('imp', a, b), neg(('imp', b, a))))
    raise ValueError(f)


def run(rep):
    rng = random.Random(rep.seed * 1000003 + 10)
    ok, detail = core.proof_gate(rep, 'Pi2.Props.C10', THEOREMS)
    quick = rep.tier == 'quick'
    findings = []
    methods = translemma.load_methods()
    table = sx.parse(core.lean_drv(['lemma-table'])[0])[0]
    index = {t[0]: (i, int(t[1]), int(t[2])) for i, t in enumerate(table)}
    per = 4 if quick else 40
    reqs = []      # (name, nat args, premise concs (npat), expected expanded conc or None, kind)
    n_spec = 0
    for name, (idx, nP, nT) in index.items():
        m = methods[name]
        pparams = [p for p, k, _ in m.params if k == 'P']
        spec = None
        if m.doc:
            try:
                prems, concl = translemma.docstring_schema(m.doc)
                pf, cf = [translemma.parse_formula(p) for p in prems], translemma.parse_formula(concl)
                letters = []
                for f in pf + [cf]:
                    translemma.vars_of(f, letters)
                pl = [translemma.PARAM_LETTER.get((name, p), translemma.PARAM_LETTER.get(('*', p), p)) for p in pparams]
                if len(pf) == nT and all(l in letters for l in pl) and len(set(pl)) == len(pl):
                    spec = (pf, cf, letters, pl)
            except ValueError:
                spec = None
        if spec:
            n_spec += 1
        for k in range(per):
            if spec:
                pf, cf, letters, pl = spec
                depth = rng.choice((0, 1, 1, 2))
                env = {l: (gen.gen_npat(rng, depth) if rng.random() < 0.6 else gen.gen_pat(rng, depth)) for l in letters}
                reqs.append((name, [env[l] for l in pl], [('schema', f, env) for f in pf], ('schema', cf, env), 'instance'))
            else:
                ps = [gen.gen_pat(rng, 1) for _ in range(nP)]
                cs = [('imp', gen.gen_pat(rng, 1), gen.gen_pat(rng, 1)) for _ in range(nT)]
                reqs.append((name, ps, [('lit', c) for c in cs], None, 'free'))
        if nT and spec:
            # premises of the wrong shape: both sides must refuse, or agree
            ps = [gen.gen_pat(rng, 1) for _ in range(nP)]
            cs = [gen.gen_pat(rng, 2) for _ in range(nT)]
            reqs.append((name, ps, [('lit', c) for c in cs], None, 'misshapen'))
    # expansions of all notation-carrying values by the real code (`expand`), so that schema instances are notation-free
    vals = []
    for _, ps, cs, exp, _ in reqs:
        for p in ps:
            vals.append(p)
        for c in cs:
            if c[0] == 'schema':
                vals += list(c[2].values())
    uniq = list({sx.pat_to_s(v): v for v in vals}.items())
    ea = core.py_h(['expand ' + s for s, _ in uniq])
    expand = {s: sx.pat_of_s(a) for (s, _), a in zip(uniq, ea)}

    def ex(v):
        return expand[sx.pat_to_s(v)]

    real_lines, model_lines, expected = [], [], []
    for name, ps, cs, exp, kind in reqs:
        idx = index[name][0]
        psx = [ex(p) for p in ps]
        csx = []
        for c in cs:
            if c[0] == 'schema':
                csx.append(schema_pat(c[1], {l: ex(v) for l, v in c[2].items()}))
            else:
                csx.append(c[1])
        # the real method gets the arguments WITH their notation, the premises notation-free
        real_lines.append('lemma-real %s (%s) (%s)' % (name, ' '.join(sx.pat_to_s(p) for p in ps), ' '.join(sx.pat_to_s(c) for c in csx)))
        model_lines.append('lemma-conc %d (%s) (%s)' % (idx, ' '.join(sx.pat_to_s(p) for p in psx), ' '.join(sx.pat_to_s(c) for c in csx)))
        expected.append(sx.pat_to_s(schema_pat(exp[1], {l: ex(v) for l, v in exp[2].items()})) if exp else None)
    ra, ma = core.py_h(real_lines), core.lean_drv(model_lines)
    outcomes = {}
    for (name, ps, cs, exp, kind), rl, r, m, e in zip(reqs, real_lines, ra, ma, expected):
        if r.startswith('(ok'):
            x = sx.parse(r)[0]
            conc, replay, rules = sx.dump(x[1]), x[2], x[3]
        else:
            conc, replay, rules = None, None, []
        outcomes[(kind, 'ok' if conc else 'raise')] = outcomes.get((kind, 'ok' if conc else 'raise'), 0) + 1
        mconc = None if m == '(raise)' else m
        if (conc or '(raise)') != (mconc or '(raise)'):
            findings.append({'key': 'model-conc', 'method': name, 'request': rl[:1500], 'python': r[:600], 'model': m[:600],
                             'what': f'correspondence: {name}: the conclusion advertised by the real method and by the translated body differ'})
        if e is not None:
            if conc is None:
                findings.append({'key': 'schema:' + name, 'method': name, 'request': rl[:1500], 'python': r[:300], 'expected': e[:600],
                                 'what': f'{name} fails on arguments and premises of the documented shape: {r[:80]}'})
            elif conc != e:
                findings.append({'key': 'schema:' + name, 'method': name, 'request': rl[:1500], 'python': conc[:600], 'expected': e[:600],
                                 'what': f'{name} proves a conclusion that is not its documented schema at these arguments'})
        if conc is not None:
            if replay != 'ok':
                findings.append({'key': 'replay:' + name, 'method': name, 'request': rl[:1500], 'python': r[:300],
                                 'what': f'{name}: the returned proof does not replay to its advertised conclusion ({replay})'})
            if rules:
                findings.append({'key': 'rules:' + name, 'method': name, 'request': rl[:1500], 'rules': rules,
                                 'what': f'{name}: the proof uses more than the propositional axioms, modus ponens, instantiation and the declared axioms: {rules}'})
    # ---- the matching variants (outside the straight-line language): "same as the transitivity rule, but one premise is
    # instantiated to match the other" — oracle: textbook matching on tuples; including the case where the matched side is
    # closed, so that the only solution is the EMPTY substitution
    def mfree(depth, ids):
        r = rng.random()
        if depth <= 0 or r < 0.3:
            return rng.choice([pm.phi(i) for i in ids] + [('sym', rng.choice(gen.IDS))]) if ids and rng.random() < 0.6 else ('sym', rng.choice(gen.IDS))
        return ('imp', mfree(depth - 1, ids), mfree(depth - 1, ids))

    def tinst(p, th):
        k = p[0]
        if k == 'mv':
            return th.get(p[1], p)
        if k == 'imp':
            return ('imp', tinst(p[1], th), tinst(p[2], th))
        return p

    def flat(p):
        return [p] if p[0] != 'imp' else flat(p[1]) + flat(p[2])

    def equivp(a, b):
        return neg(('imp', ('imp', a, b), neg(('imp', b, a))))
    mlines, mexp = [], []
    for _ in range(40 if quick else 600):
        ids = rng.choice(((), (0,), (0, 1), (1, 2)))
        a, b = mfree(2, (0, 1, 2)), mfree(rng.choice((0, 1, 2)), ids)
        th = {i: mfree(1, ()) for i in ids if pm.phi(i) in flat(b)}      # matching binds exactly the metavariables of the matched side
        d = mfree(1, (0, 3))
        which = rng.choice(('imp_trans_match1', 'imp_trans_match2', 'equiv_trans_match1', 'equiv_trans_match2'))
        if which == 'imp_trans_match1':
            h1, h2, want = ('imp', a, b), ('imp', tinst(b, th), d), ('imp', tinst(a, {k: v for k, v in th.items()}), d)
        elif which == 'imp_trans_match2':
            # h2 = (b -> a) is instantiated so that its antecedent matches h1's consequent
            h1, h2, want = ('imp', d, tinst(b, th)), ('imp', b, a), ('imp', d, tinst(a, th))
        elif which == 'equiv_trans_match1':
            h1, h2, want = equivp(a, b), equivp(tinst(b, th), d), equivp(tinst(a, th), d)
        else:
            h1, h2, want = equivp(d, tinst(b, th)), equivp(b, a), equivp(d, tinst(a, th))
        mlines.append('lemma-real %s () (%s %s)' % (which, sx.pat_to_s(h1), sx.pat_to_s(h2)))
        mexp.append(sx.pat_to_s(want))
    mra = core.py_h(mlines)
    n_match = 0
    for l, r, e in zip(mlines, mra, mexp):
        n_match += 1
        name = l.split()[1]
        if not r.startswith('(ok'):
            findings.append({'key': 'match:' + name, 'method': name, 'request': l[:1500], 'python': r[:300], 'expected': e[:600],
                             'what': f'{name} fails although the premise can be instantiated to match the other one (possibly by the empty substitution): {r[:80]}'})
            continue
        x = sx.parse(r)[0]
        if sx.dump(x[1]) != e or x[2] != 'ok':
            findings.append({'key': 'match:' + name, 'method': name, 'request': l[:1500], 'python': r[:600], 'expected': e[:600],
                             'what': f'{name}: conclusion / replay differ from the transitivity rule applied to the matched premises'})
    pr = translemma.gen_lemmas()[0]
    rep.coverage.update({
        'evaluations': len(reqs), 'distinct_nontrivial': len(set(real_lines)),
        'rule': 'every schematic method of proofs/propositional.py and tautology.py (translated from the Python ast on every run): arguments = random '
                'patterns of any kind (binders, applications, constrained metavariables, substitutions, notation), premises = axioms of the documented shape '
                'at those arguments; REAL method vs the translated body evaluated on conclusions (Lean) vs the documented schema instantiated '
                'independently; every returned proof replayed on a StatefulInterpreter (conclusion, stack discipline, rules used); premises of the wrong '
                'shape: both refuse or agree',
        'programs': len(index), 'matching_variants_checked': n_match, 'methods_translated': len(index), 'methods_with_schema': n_spec,
        'outcomes': {f'{k[0]}:{k[1]}': v for k, v in outcomes.items()}, 'translator_problems': pr,
        'disagreements_checked': len(findings),
        'samples': real_lines[:2],
    })
    rep.assumptions += ['methods outside the straight-line language (integer-indexed recursion, match_single: Gen.opaqueMethods) are not covered by the theorems; '
                        'the prover built from them is decided by C09 and by the replay oracle',
                        'the docstring parser is shared by the translator and the oracle (precedence: ~, /\\\\, \\\\/, ->, <->)']
    seen = set()
    for f in findings:
        if f['key'] in seen:
            continue
        seen.add(f['key'])
        rep.violation(f['what'], f, True, key='py-lemma:' + f['key'])
    if not ok and not findings:
        rep.violation('proof obligation used by C10 no longer checks: ' + json.dumps(detail)[:600], {'broken': detail}, False)
    return rep


def replay(path):
    rep = core.Report('C10', 'quick', json.load(open(path)).get('seed', 0))
    run(rep)
    return rep.finish()
