"""C07 — the Python proof rules apply exactly when the documented rule applies."""
from __future__ import annotations

import json
import random

from .. import core, gen, pymach as pm, sx

THEOREMS = ['C07.basic_rules_text_is_the_model', 'C07.mp_returns_iff', 'C07.mp_raises_iff', 'C07.gen_returns_iff', 'C07.gen_raises_iff', 'C07.inst_returns']


def perturb(rng, p):
    """change one leaf of a pattern"""
    k = p[0]
    if k in ('evar', 'svar', 'sym'):
        return (k, (p[1] + 1) % 3)
    if k == 'mv':
        return ('mv', (p[1] + 1) % 3) + p[2:]
    if k in ('imp', 'app'):
        if rng.random() < 0.5:
            return (k, perturb(rng, p[1]), p[2])
        return (k, p[1], perturb(rng, p[2]))
    if k in ('ex', 'mu'):
        return (k, p[1], perturb(rng, p[2]))
    if k in ('esub', 'ssub'):
        return (k, p[1], p[2], perturb(rng, p[3]))
    if k == 'inst':
        if p[2] and rng.random() < 0.7:
            i = rng.randrange(len(p[2]))
            m = list(p[2])
            m[i] = (m[i][0], perturb(rng, m[i][1]))
            return ('inst', p[1], tuple(m))
        return ('inst', perturb(rng, p[1]), p[2])
    return p


def wrap_notation(rng, p):
    """p written through a notation node that expands to p (identity notation with a metavariable body)"""
    r = rng.random()
    if r < 0.4:
        return ('inst', pm.phi(0), ((0, p),))
    if r < 0.7 and p[0] == 'imp':
        return ('inst', ('imp', pm.phi(0), pm.phi(1)), ((0, p[1]), (1, p[2])))
    return p


def run(rep):
    rng = random.Random(rep.seed * 1000003 + 7)
    ok, detail = core.proof_gate(rep, 'Pi2.Props.C04b', THEOREMS)
    quick = rep.tier == 'quick'
    N = 1200 if quick else 20000
    lines, meta = [], []
    for _ in range(N):
        l = gen.gen_npat(rng, rng.choice((0, 1, 2)))
        r = gen.gen_npat(rng, rng.choice((0, 1, 2)))
        a = wrap_notation(rng, ('imp', l, r))
        mode = rng.random()
        if mode < 0.45:
            b = wrap_notation(rng, l)                       # applicable
        elif mode < 0.8:
            b = perturb(rng, l)                             # mismatching antecedent by one leaf
        else:
            b = gen.gen_npat(rng, 2)
        if rng.random() < 0.1:
            a = gen.gen_npat(rng, 2)                         # (probably) not an implication
        lines.append(f'rule-mp {sx.pat_to_s(a)} {sx.pat_to_s(b)}'); meta.append(('mp', a, b))
        x = rng.choice(gen.IDS)
        lines.append(f'rule-gen {sx.pat_to_s(a)} {x}'); meta.append(('gen', a, x))
        d = gen.gen_delta(rng, rng.choice((0, 1, 2)))
        lines.append(f'rule-inst {sx.pat_to_s(a)} {gen.delta_to_s(d)}'); meta.append(('inst', a, d))
    la = core.lean_drv(lines)
    pa = core.py_h(lines)
    dis = [{'request': l, 'model': a, 'python': b} for l, a, b in zip(lines, la, pa) if a != b]
    # oracle: the documented rule on full expansions (obtained from the real code), judged by the mirror of the
    # checker's e_fresh
    need = []
    for m in meta:
        need.append(m[1])
        if m[0] == 'mp':
            need.append(m[2])
    exp = core.py_h([f'expand {sx.pat_to_s(p)}' for p in need])
    emap = {sx.pat_to_s(p): sx.pat_of_s(e) for p, e in zip(need, exp) if e.startswith('(')}
    outs = [a for a in pa if a.startswith('(') and not a.startswith('(raise') and not a.startswith('(interp')]
    oexp = core.py_h([f'expand {a}' for a in outs])
    omap = dict(zip(outs, oexp))
    wit = []
    stats = {'mp-applied': 0, 'mp-refused': 0, 'gen-applied': 0, 'gen-refused': 0, 'inst': 0}
    for m, l, ans in zip(meta, lines, pa):
        if ans.startswith('(interpreters-disagree'):
            wit.append({'request': l, 'python': ans, 'problem': 'interpreters disagree on applicability/conclusion'})
            continue
        ea = emap.get(sx.pat_to_s(m[1]))
        if ea is None:
            continue
        got = sx.pat_of_s(omap[ans]) if ans in omap and omap[ans].startswith('(') else None
        if m[0] == 'mp':
            eb = emap.get(sx.pat_to_s(m[2]))
            applicable = ea[0] == 'imp' and ea[1] == eb
            want = ea[2] if applicable else None
            stats['mp-applied' if applicable else 'mp-refused'] += 1
        elif m[0] == 'gen':
            applicable = ea[0] == 'imp' and pm.e_fresh(ea[2], m[2])
            want = ('imp', ('ex', m[2], ea[1]), ea[2]) if applicable else None
            stats['gen-applied' if applicable else 'gen-refused'] += 1
        else:
            stats['inst'] += 1
            continue     # instantiate: decided by C11's laws (transparency of instantiate)
        if want is None and got is not None:
            wit.append({'request': l, 'python': ans, 'problem': 'rule returned a conclusion although it is inapplicable'})
        elif want is not None and got is None:
            wit.append({'request': l, 'python': ans, 'problem': 'rule raised although it is applicable', 'documented': sx.pat_to_s(want)})
        elif want is not None and got != want:
            wit.append({'request': l, 'python': ans, 'problem': 'wrong conclusion', 'documented': sx.pat_to_s(want)})
    rep.coverage.update({
        'evaluations': len(lines), 'distinct_nontrivial': len(set(lines)),
        'rule': 'premises (l→r written with and without notation, incl. identity notation around metavariables) with an '
                'applicable minor premise, one perturbed at a single leaf, or unrelated; generalization over every id; '
                'instantiate with random maps; each request runs BasicInterpreter, StatefulInterpreter and ProofExp and they '
                'must agree; oracle: documented rule on full expansions',
        'programs': len(lines), 'disagreements_checked': len(dis) + len(wit), 'oracle_outcomes': stats,
        'samples': [lines[0], lines[1], lines[2], pa[0], pa[1]],
    })
    rep.assumptions.append('Python runs without -O (the side conditions are assert statements)')
    for w in wit[:8]:
        rep.violation('Python proof rule deviates from the documented rule: ' + w['problem'], w, True,
                      key='py-rule:' + w['request'])
    if not wit:
        for d in dis[:5]:
            rep.violation('Python rule differs from the model; no deviation from the documented rule found',
                          dict(d, broken='correspondence rule-* Python↔Pi2.Rules'), False)
    if not ok and not (wit or dis):
        rep.violation('proof obligation of C07 no longer checks: ' + json.dumps(detail)[:600], {'broken': detail}, False)
    return rep


def replay(path):
    rep = core.Report('C07', 'quick', json.load(open(path)).get('seed', 0))
    run(rep)
    return rep.finish()
