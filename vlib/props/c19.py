"""C19 — pretty-printed notation shows the arguments it depends on; pretty steps ↔ binary instructions."""
from __future__ import annotations

import json
import random

from .. import core, gen, sx

THEOREMS = ['C19.shipped_notations_show_their_arguments', 'C19.shipped_notations_arity', 'C19.shipped_notations_shaped',
            'C19.different_denotation_different_argument', 'C19.shown_argument_is_visible',
            'C19.unshown_argument_is_invisible',
            # the source text: pattern.py `pretty` / pretty_printing_interpreter.py (vlib/transpretty.py -> Pi2/Gen/PyPretty.lean, Pi2/PrettyTie.lean)
            'C19.pretty_printer_translated', 'C19.pretty_text_is_the_model', 'C19.pretty_text_sound_at_every_fuel', 'C19.pretty_outside_table',
            'C19.pretty_table_lookup', 'C19.str_is_pretty_default',
            'C19.pretty_steps_match_binary_instructions', 'C19.pretty_steps_match_serializer_bytes', 'C19.pretty_wrapper_shape',
            'C19.pretty_one_step_line_per_call', 'C19.pretty_step_keyword_is_a_word', 'C19.pretty_stack_dump_indented', 'C19.pretty_file_lists_the_calls',
            # operands of the pretty steps (Props/C19b.lean, PrettyOperands.lean): the slot a pretty `Load` line names is the operand of the
            # binary Load; ids, keys (the binary reverses them), symbol names through the table
            'C19.pretty_step_operands_match_binary', 'C19.pretty_call_operands_match_binary', 'C19.pretty_line_shows_operand',
            'C19.pretty_load_names_the_binary_slot', 'C19.pretty_load_line_format', 'C19.pretty_symbol_through_the_table', 'C19.pretty_metavar_text',
            # ... and for a constrained MetaVar (Props/C19c.lean): the text format is injective, the reader is total, the len= field is the length
            'C19.pretty_step_operands_match_binary_all', 'C19.pretty_line_shows_operand_all', 'C19.pretty_metavar_text_injective',
            'C19.pretty_metavar_text_shows_operands', 'C19.pretty_metavar_len_field', 'C19.pretty_step_operands_match_binary_checked']


SYMS = ("s0", "s1", "foo", "⌈_⌉")
# names that exercise `repr(str)` in the fallback branch of `Instantiate.pretty` (quotes, backslash)
SYMS_Q = SYMS + ("it's", 'say"x"', "a'b\"c", "back\\slash", "Lbl'-LT-'k'-GT-'")


def gen_pp(rng, depth, nots, syms=SYMS):
    if depth <= 0 or rng.random() < 0.3:
        r = rng.random()
        if r < 0.3:
            return f'(evar {rng.choice(gen.IDS)})'
        if r < 0.5:
            return f'(svar {rng.choice(gen.IDS)})'
        if r < 0.7:
            return f'(sym {rng.choice(syms)})'
        return f'(mv {rng.choice((0, 1, 2, 3))})'
    r = rng.random()
    d = depth - 1
    if r < 0.2:
        return f'(imp {gen_pp(rng, d, nots, syms)} {gen_pp(rng, d, nots, syms)})'
    if r < 0.3:
        return f'(app {gen_pp(rng, d, nots, syms)} {gen_pp(rng, d, nots, syms)})'
    if r < 0.4:
        return f'(ex {rng.choice(gen.IDS)} {gen_pp(rng, d, nots, syms)})'
    if r < 0.45:
        return f'(mu {rng.choice(gen.IDS)} {gen_pp(rng, d, nots, syms)})'
    if r < 0.5:
        return f'(esub (mv {rng.choice(gen.IDS)}) {rng.choice(gen.IDS)} {gen_pp(rng, d, nots, syms)})'
    idx = rng.randrange(len(nots))
    return '(napp %d %s)' % (idx, ' '.join(gen_pp(rng, d, nots, syms) for _ in range(nots[idx][1])))


def run(rep):
    rng = random.Random(rep.seed * 1000003 + 19)
    ok, detail = core.proof_gate(rep, 'Pi2.Props.C19c', THEOREMS)
    quick = rep.tier == 'quick'
    nots = gen.shipped_notations()
    lines, laws = [], []
    reps = 12 if quick else 200
    for idx, (label, arity, body, fmt, group) in enumerate(nots):
        for _ in range(reps):
            args = [gen_pp(rng, rng.choice((0, 1, 2)), nots) for _ in range(arity)]
            lines.append('pretty (napp %d %s)' % (idx, ' '.join(args)))
            for i in range(arity):
                laws.append('law-pretty-shows %d %d (%s) %s' % (idx, i, ' '.join(args), gen_pp(rng, rng.choice((0, 1, 2)), nots)))
    for _ in range(600 if quick else 10000):
        lines.append('pretty ' + gen_pp(rng, 3, nots))
    # the TRANSLATED pretty() (Gen.PyPretty.pretty, regenerated from pattern.py) against the real one, in all four option
    # settings: the shipped table, `PrettyOptions()` (the fallback branch: str(pattern)[str(dict)]), simplify_instantiations
    glines = []
    import os
    symtab = '(' + ' '.join(f'({k} {nm})' for nm, k in json.load(open(os.path.join(core.BUILD, 'notations.json')))['symbols'].items()) + ')'
    for mode in ('table', 'empty', 'simplify', 'simplify-empty'):
        for _ in range(150 if quick else 2500):
            glines.append(f'pretty-gen {mode} {symtab} ' + gen_pp(rng, rng.choice((1, 2, 3)), nots, SYMS_Q))
    ga = core.lean_gen(glines)
    gp = core.py_h(glines)
    gdis = [] if ga is None else [{'request': l, 'translated': a, 'python': b} for l, a, b in zip(glines, ga, gp) if a != b]
    la = core.lean_drv(lines)
    pa = core.py_h(lines)
    dis = [{'request': l, 'model': a, 'python': b} for l, a, b in zip(lines, la, pa) if a != b]
    lw = core.py_h(laws)
    bad = [{'request': l, 'python': a} for l, a in zip(laws, lw) if a.startswith('(false') or a.startswith('(raise')]
    # ---- second half: the steps of the pretty files correspond one-to-one, in order, to the instructions of the binary files
    from . import modside as ms
    from .. import genpf, pymach as pm
    mods = ms.gen_modules(rng, 40 if quick else 800)
    # a third of the modules additionally call the interpreter's own `instantiate` with an empty map (no step may be lost
    # in either format)
    mods = [(m[0], m[1], m[2], [genpf.with_raw_instantiate(rng, pf) for pf in m[3]], m[4]) if rng.random() < 0.34 else m for m in mods]
    strs = [genpf.module_to_s(m) for m in mods]
    memo = core.py_h([f'module-memo {m}' for m in strs])
    breqs, preqs = [], []
    for m, S in zip(strs, memo):
        for mm in (['(memo)'] + ([S] if S.startswith('(memo') else [])):
            breqs.append(f'module {m} {mm}'); preqs.append(f'module-pretty {m} {mm}')
    bans = core.py_h(breqs)
    pans = core.py_h(preqs)
    KW = {'EVar': 'evar', 'SVar': 'svar', 'Symbol': 'sym', 'MetaVar': 'metavar', 'Implies': 'implies', 'App': 'app',
          'Exists': 'ex', 'Mu': 'mu', 'ESubst': 'esubst', 'SSubst': 'ssubst', 'Prop1': 'prop1', 'Prop2': 'prop2', 'Prop3': 'prop3',
          'ModusPonens': 'mp', 'Quantifier': 'quantifier', 'Generalization': 'gen', 'Instantiate': 'instantiate', 'Pop': 'pop',
          'Save': 'save', 'Load': 'load', 'Publish': 'publish'}
    step_bad = []
    n_files = n_steps = 0
    for br, b, pz in zip(breqs, bans, pans):
        if b.startswith('(ok') != pz.startswith('(ok'):
            step_bad.append({'request': br[:3000], 'binary': b[:100], 'pretty': pz[:100], 'problem': 'one format serialises, the other raises'})
            continue
        if not b.startswith('(ok'):
            continue
        bx, px = sx.parse(b)[0], sx.parse(pz)[0]
        for fi in (1, 2, 3):
            bs = [] if bx[fi] == '-' else list(bytes.fromhex(bx[fi]))
            text = '' if px[fi] == '-' else bytes.fromhex(px[fi]).decode('utf-8')
            ins = pm.decode(bs)
            kinds = [('metavar' if i[0] == 'cleanmv' else i[0]) for i in (ins or [])]
            steps = []
            load_slots = []          # the memory slot every pretty `Load <id>=<slot>` line names, in order
            for line in text.split('\n'):
                if line[:1] in ('\t', ' ', ''):
                    continue
                tok = ''
                for kw in KW:
                    if line.startswith(kw) and len(kw) > len(tok):
                        tok = kw
                if tok:
                    steps.append(KW[tok])
                    if tok == 'Load':
                        tail = line.rsplit('=', 1)[-1].strip()
                        load_slots.append(int(tail) if tail.isdigit() else None)
            n_files += 1
            n_steps += len(kinds)
            bin_slots = [i[1] for i in (ins or []) if i[0] == 'load']
            if ins is not None and steps == kinds and load_slots != bin_slots:
                j = next((j for j, (x, y) in enumerate(zip(load_slots, bin_slots)) if x != y), 0)
                step_bad.append({'request': br[:3000], 'file': ('gamma', 'claim', 'proof')[fi - 1], 'load_number': j,
                                 'pretty_slot': load_slots[j] if j < len(load_slots) else None, 'binary_slot': bin_slots[j] if j < len(bin_slots) else None,
                                 'problem': 'a pretty Load step names another memory slot than the binary Load instruction'})
            if ins is None or steps != kinds:
                j = next((j for j, (x, y) in enumerate(zip(steps, kinds)) if x != y), min(len(steps), len(kinds)))
                step_bad.append({'request': br[:3000], 'file': ('gamma', 'claim', 'proof')[fi - 1], 'first_difference_at': j,
                                 'pretty_steps': steps[max(0, j - 3):j + 3], 'binary_instructions': kinds[max(0, j - 3):j + 3],
                                 'problem': 'pretty steps and binary instructions differ'})
    rep.coverage.update({
        'pretty_vs_binary_files': n_files, 'pretty_vs_binary_steps': n_steps,
    })
    for b in step_bad[:5]:
        rep.violation('pretty-printed steps do not correspond to the binary instructions: ' + b['problem'], b, True,
                      key='py-steps:' + b['request'][:200])
    rep.coverage.update({
        'evaluations': len(lines) + len(laws), 'distinct_nontrivial': len(set(lines)) + len(set(laws)),
        'rule': 'every shipped notation (%d table entries: propositional, definedness, Kore, generated n-ary/cell, sorted and '
                'Kore quantifiers, forall) at %d random argument tuples each (nested notation to depth 2), plus random patterns: '
                'pretty() model vs real; law on the REAL code: tuples differing at one position that changes the denotation '
                'and whose two arguments print differently must print differently' % (len(nots), reps),
        'programs': len(lines) + len(laws) + len(breqs), 'disagreements_checked': len(dis) + len(bad) + len(step_bad),
        'law_outcomes': {k: sum(1 for a in lw if a == k) for k in ('true', 'same-denotation', 'args-print-equal')},
        'samples': [lines[0], lines[-1], laws[0], pa[0], pa[-1]],
    })
    for b in bad[:8]:
        rep.violation('a notation application hides an argument its denotation depends on: ' + b['python'][:80], b, True,
                      key='py-pretty:' + b['request'].split(' (')[0])
    rep.coverage['translated_pretty_vs_real'] = {'evaluations': len(glines), 'distinct': len(set(glines)), 'disagreements': len(gdis)}
    for d in gdis[:5]:
        rep.violation('the translated pretty() (Gen.PyPretty.pretty) differs from the real one',
                      dict(d, broken='translation pattern.py -> Pi2/Gen/PyPretty.lean or the library models of Pi2/PrettySupport.lean'), False)
    if not bad:
        for d in dis[:5]:
            rep.violation('pretty() differs from the model; no hidden argument found',
                          dict(d, broken='correspondence pretty Python↔Pi2.PrettyPat'), False)
    if not ok and not (bad or dis or step_bad):
        rep.violation('proof obligation of C19 no longer checks: ' + json.dumps(detail)[:600], {'broken': detail}, False)
    return rep


def replay(path):
    rep = core.Report('C19', 'quick', json.load(open(path)).get('seed', 0))
    run(rep)
    return rep.finish()
