"""Translator: `MetamathConverter` (generation/src/proof_generation/metamath/converter/converter.py), the scopes it works on
(converter/scope.py) and `Notation.__call__` / the dataclasses of converter/representation.py (Python `ast`)
-> `Pi2/Gen/MMConv.lean` (namespace `Gen.MMConv`), statement by statement, regenerated on every run.
`Pi2/MM/ConvTie.lean` proves the generated converter equal, on every database of the supported fragment, to the specification
`Pi2/MM/ConvSpec.lean` (`dbOfMDb`) read through `XProofTie.ofDB`.

Target language: `Res` and the primitives of `Pi2/ConvSupport.lean` (conventions: header of that file), the `isinstance` tests and
accessors of `Pi2/SliceSupport.lean`.

How the text is read
  * every method is one Lean definition `name σ fuel self args`; a method that (transitively) assigns to a field of `self` or calls
    a mutating method of one returns the new `self` in front of its result, the caller rebinds `self`; the same for a local object
    (`scope.add_notation(..)`) and for the locals a nested function appends to (`sort_axiom`: `notations`, `axioms`).
  * nested functions are local `fun`s; the ones with the signature `(*args: Pattern) -> Pattern | bool` and the `lambda *args:`
    are closure VALUES: they take the `SelfView` of the converter at call time and `args`; inside them `self.m(..)` is the read-only
    variant `m_ro` of the method (generated from the same text; a statement that modifies the converter there is `.outside`).
  * `if`/`elif`/`else` chains, `match` cases and the ten predicates of `_check_axiom` are translated IN SOURCE ORDER; an `if` that is
    followed by further statements either continues in its single fall-through branch or is joined over the variables its branches
    assign; `for` is `forM'` over those variables (a `return` inside a loop travels in `ret?`), `while` is `whileM` on `fuel`,
    recursion (`_to_pattern`) is on `fuel`.
  * `a and b` / `a or b` with an operand that can raise is `andR` / `orR` (short-circuit), `x if c else y` likewise.
  * OUTSIDE THE MODELLED FRAGMENT: a simple statement (or the header of a compound one) that mentions one of the names in
    `OUTSIDE` (sugar notations, substitutions, metaconditions, element / set variables), and a `for … else`, turn the rest of their
    block into `Res.outside`; a `lambda` that mentions one becomes `fun _ _ => Res.outside`; a nested function or a method whose NAME
    is in `OUTSIDE` is not translated.  All of them are listed with their source text in the header of the generated file, so a
    change there changes the file.  The tests that DECIDE whether such a path is taken are translated.
Everything else that is not recognised is a problem and makes the generated file define `translated := false`."""
from __future__ import annotations

import ast
import os

from . import core

DIR = ('proof_generation', 'metamath', 'converter')
FILES = {'converter': 'converter.py', 'scope': 'scope.py', 'representation': 'representation.py', 'vardict': 'vardict.py'}

OUTSIDE = {'_add_notation', 'unambiguize', 'add_variable', 'add_element_var', 'add_set_var', 'supercede_metavariable', 'add_fresh_mc',
           'new_metavariable', 'get_subst_lambda', 'ESubst', 'SSubst', 'Exists', 'Mu'}

# methods that are deliberately not translated (not reached by translate.py / already translated elsewhere)
NOT_TRANSLATED = {
    'MetamathConverter': {'exported_axioms_as_objects', 'missing_notations', 'publish_axioms', 'publish_lemmas', 'resolve',
                          'get_metavar_name_by_label', '_import_proof'},
    'Scope': set(), 'GlobalScope': set(), 'NotationScope': set(), 'Notation': set(),
}
CLASS_SELF = {'MetamathConverter': 'conv', 'Scope': 'scope', 'GlobalScope': 'scope', 'NotationScope': 'scope', 'Notation': 'notation'}

KEYWORDS = {'match', 'axiom', 'from', 'at', 'end', 'in', 'fun', 'do', 'then', 'else', 'have', 'show', 'open', 'by', 'let', 'if', 'with',
            'where', 'instance', 'class', 'structure', 'theorem', 'def', 'section', 'namespace', 'import', 'prefix', 'infix',
            'notation', 'macro', 'syntax', 'universe', 'mutual', 'local', 'private', 'example', 'abbrev', 'inductive', 'new',
            'deriving', 'attribute', 'return', 'for', 'unless', 'try', 'catch', 'finally', 'break', 'continue', 'Type', 'Prop',
            'Sort', 'suffices', 'calc', 'using', 'extends', 'mut', 'this', 'variable', 'include', 'omit', 'export', 'type', 'term', 'exists',
            'forall', 'nomatch', 'nofun', 'partial', 'unsafe', 'protected', 'set_option', 'true', 'false'}


class TrErr(Exception):
    pass


# ---------------------------------------------------------------------------------------------- types
SET = ('set',)
ATOMS = {'str': 'String', 'mvobj': 'String', 'bool': 'Bool', 'nat': 'Nat', 'term': 'MTerm', 'stmt': 'MStmt', 'pat': 'NPat',
         'pytype': 'PyType', 'closure': 'Closure', 'tcclosure': 'TCClosure', 'notation': 'Notation', 'axiom': 'AxiomObj',
         'scope': 'ScopeObj', 'vardict': 'VarDict', 'conv': 'ConvObj', 'view': 'SelfView', 'axtype': 'AxiomType',
         'proof': 'Gen.ImportProof.Proof', 'unit': 'Unit', 'db': 'MDb', 'strormv': 'StrOrMv', 'regex': 'Unit'}


def lty(t):
    if isinstance(t, str):
        return ATOMS[t]
    if t == SET:
        return 'List String'
    if t[0] == 'list':
        return 'List ' + paren(lty(t[1]))
    if t[0] == 'dict':
        return 'PyDict ' + paren(lty(t[1]))
    if t[0] == 'opt':
        return 'Option ' + paren(lty(t[1]))
    if t[0] == 'tuple':
        return ' × '.join(paren(lty(x)) for x in t[1])
    raise TrErr(f'internal: type {t}')


def paren(s):
    s = s.strip()
    if ' ' not in s and '\n' not in s:
        return s
    if s[0] == '(' and _closes(s, 0) == len(s) - 1:
        return s
    if s[0] == '[' and _closes(s, 0) == len(s) - 1:
        return s
    if s[0] == '"' and s.count('"') == 2 and s[-1] == '"':
        return s
    return '(' + s + ')'


def _closes(s, i):
    """index of the bracket closing the one at i (strings are skipped), or -1"""
    depth, k, n = 0, i, len(s)
    while k < n:
        c = s[k]
        if c == '"':
            k += 1
            while k < n and s[k] != '"':
                k += 2 if s[k] == '\\' else 1
        elif c in '([{⟨':
            depth += 1
        elif c in ')]}⟩':
            depth -= 1
            if depth == 0:
                return k
        k += 1
    return -1


STMT_CLASSES = {'ConstantStatement': 'isConstant', 'VariableStatement': 'isVariable', 'DisjointStatement': 'isDisjoint',
                'FloatingStatement': 'isFloating', 'EssentialStatement': 'isEssential', 'AxiomaticStatement': 'isAxiomatic',
                'ProvableStatement': 'isProvable', 'Block': 'isBlock', 'StructuredStatement': 'isStructured',
                'ConclusionStatement': 'isConclusion'}
TERM_CLASSES = {'Application': 'isApplication', 'Metavariable': 'isMetavariable'}
PAT_CLASSES = {'MetaVar': 'PyType.MetaVar', 'EVar': 'PyType.EVar', 'SVar': 'PyType.SVar', 'Symbol': 'PyType.Symbol'}
AX_CLASSES = {'Axiom', 'AxiomWithAntecedents', 'Lemma', 'LemmaWithAntecedents'}

ANN_NAMES = {'str': 'str', 'bool': 'bool', 'int': 'nat', 'None': 'unit', 'Database': 'db', 'Term': 'term', 'Pattern': 'pat',
             'MetaVar': 'pat', 'Scope': 'scope', 'NotationScope': 'scope', 'GlobalScope': 'scope', 'Notation': 'notation',
             'Axiom': 'axiom', 'Lemma': 'axiom', 'Proof': 'proof', 'AxiomType': 'axtype', 'VarDict': 'vardict',
             'Metavariable': 'term', 'Statement': 'stmt'}
ANN_NAMES.update({c: 'stmt' for c in STMT_CLASSES})
# parameters / results whose annotation is too coarse: (function, parameter or 'return') -> type
OVERRIDE = {
    ('Scope.add_metavariable', 'var'): 'mvobj',
    ('GlobalScope.is_ambiguous', 'name'): 'strormv',
    ('MetamathConverter._import_floating.get_pattern', 'return'): ('opt', 'mvobj'),
    ('MetamathConverter._import_floating.get_symbol', 'return'): ('opt', 'mvobj'),
    ('MetamathConverter._import_floating.get_var', 'return'): ('opt', 'mvobj'),
    ('MetamathConverter._import_floating.get_element_var', 'return'): ('opt', 'mvobj'),
    ('MetamathConverter._import_floating.get_set_var', 'return'): ('opt', 'mvobj'),
}

FIELDS = {
    'conv': {'parsed': 'db', '_scope': 'scope', '_declared_constants': SET, '_declared_variables': ('dict', 'mvobj'),
             '_symbols': 'vardict', '_domain_values': SET, '_axioms': ('dict', ('list', 'axiom')), '_pattern_constructors': SET,
             '_proof_rules': SET, '_ignored_axioms': ('list', 'stmt'), '_lemmas': ('dict', ('list', 'axiom')),
             '_ignored_lemmas': ('list', 'stmt'), '_missing_declarations': SET, '_floating_patterns': ('list', 'str'),
             '_fp_label_to_pattern': ('dict', ('list', 'pat'))},
    'view': {'_symbols': 'vardict', '_declared_constants': SET},
    'scope': {'_metavars': 'vardict', '_element_vars': 'vardict', '_set_vars': 'vardict', '_notations': ('dict', ('list', 'notation')),
              '_ambiguous_vars': SET, '_args': ('list', 'str')},
    'notation': {'name': 'str', 'args': ('list', 'str'), 'type_check': 'tcclosure', 'callable': 'closure'},
    'axiom': {'name': 'str', 'args': ('list', 'str'), 'type_check': 'tcclosure', 'pattern': 'pat', 'metavars': ('list', 'str')},
    'stmt': {'label': 'str', 'terms': ('list', 'term'), 'constants': ('list', 'str'), 'metavariables': ('list', 'mvobj'),
             'statements': ('list', 'stmt')},
    'term': {'symbol': 'str', 'subterms': ('list', 'term'), 'name': 'str'},
    'db': {'statements': ('list', 'stmt')},
    'proof': {},
}
# attributes whose reading can raise (`AttributeError`): type -> attr -> (Lean function, type)
RES_ATTRS = {'pat': {'name': ('patName', 'nat')}, 'axiom': {'antecedents': ('AxiomObj.antecedents', ('list', 'pat')), 'proof': ('AxiomObj.proof', 'proof')}}


def ann_type(node, what):
    """the type a source annotation denotes"""
    if node is None:
        raise TrErr(f'missing annotation ({what})')
    if isinstance(node, ast.Constant) and node.value is None:
        return 'unit'
    if isinstance(node, ast.Constant) and isinstance(node.value, str):
        return ann_type(ast.parse(node.value, mode='eval').body, what)
    if isinstance(node, ast.Name):
        if node.id not in ANN_NAMES:
            raise TrErr(f'annotation `{node.id}` ({what})')
        return ANN_NAMES[node.id]
    if isinstance(node, ast.BinOp) and isinstance(node.op, ast.BitOr):
        parts = []
        n = node
        while isinstance(n, ast.BinOp) and isinstance(n.op, ast.BitOr):
            parts.insert(0, n.right)
            n = n.left
        parts.insert(0, n)
        nones = [p for p in parts if isinstance(p, ast.Constant) and p.value is None]
        ts = [ann_type(p, what) for p in parts if p not in nones]
        if any(t != ts[0] for t in ts):
            raise TrErr(f'union annotation `{ast.unparse(node)}` mixes types ({what})')
        return ('opt', ts[0]) if nones else ts[0]
    if isinstance(node, ast.Subscript) and isinstance(node.value, ast.Name):
        h = node.value.id
        sl = node.slice
        if h == 'tuple' and isinstance(sl, ast.Tuple) and len(sl.elts) == 2 and isinstance(sl.elts[1], ast.Constant) and sl.elts[1].value is Ellipsis:
            return ('list', ann_type(sl.elts[0], what))
        if h == 'list':
            return ('list', ann_type(sl, what))
        if h == 'set' and ann_type(sl, what) == 'str':
            return SET
        if h == 'dict' and isinstance(sl, ast.Tuple) and ann_type(sl.elts[0], what) == 'str':
            return ('dict', ann_type(sl.elts[1], what))
        if h == 'Callable' and isinstance(sl, ast.Tuple) and ast.unparse(sl.elts[0]) == '[VarArg(Pattern)]':
            r = ann_type(sl.elts[1], what)
            if r == 'pat':
                return 'closure'
            if r == 'bool':
                return 'tcclosure'
    raise TrErr(f'annotation `{ast.unparse(node)}` ({what})')


def lname(n):
    return f'«{n}»' if n in KEYWORDS else n


def lean_str(s):
    out = []
    for c in s:
        if c == '"':
            out.append('\\"')
        elif c == '\\':
            out.append('\\\\')
        elif c == '\n':
            out.append('\\n')
        else:
            out.append(c)
    return '"' + ''.join(out) + '"'


def src1(node):
    s = ast.unparse(node).split('\n')
    return s[0] + (' …' if len(s) > 1 else '')


def walk_no_lambda(node):
    stack = [node]
    while stack:
        n = stack.pop()
        yield n
        for c in ast.iter_child_nodes(n):
            if not isinstance(c, ast.Lambda):
                stack.append(c)


def mentions_outside(node, lambdas=True):
    for n in (ast.walk(node) if lambdas else walk_no_lambda(node)):
        if isinstance(n, ast.Name) and n.id in OUTSIDE:
            return True
        if isinstance(n, ast.Attribute) and n.attr in OUTSIDE:
            return True
        if isinstance(n, ast.FunctionDef) and n.name in OUTSIDE:
            return True
    return False


def header_nodes(st):
    """the part of a statement that is evaluated at its own level (for compound statements: the header)"""
    if isinstance(st, ast.If):
        return [st.test]
    if isinstance(st, (ast.For,)):
        return [st.iter]
    if isinstance(st, ast.While):
        return [st.test]
    if isinstance(st, ast.Match):
        return [st.subject]
    if isinstance(st, ast.FunctionDef):
        return []
    return [st]


def stmt_is_outside(st):
    if isinstance(st, ast.For) and st.orelse:
        return True
    if isinstance(st, ast.FunctionDef):
        return False
    return any(mentions_outside(n, lambdas=False) for n in header_nodes(st))


def live(stmts):
    """the statements of a block up to (excluding) the first one that is outside the fragment"""
    out = []
    for st in stmts:
        if stmt_is_outside(st):
            break
        out.append(st)
    return out


def sub_blocks(st):
    if isinstance(st, ast.If):
        return [st.body, st.orelse]
    if isinstance(st, (ast.For, ast.While)):
        return [st.body]
    if isinstance(st, ast.Match):
        return [c.body for c in st.cases]
    return []


def live_walk(stmts):
    """all live statements, descending into live sub-blocks but not into nested function definitions"""
    for st in live(stmts):
        yield st
        for b in sub_blocks(st):
            yield from live_walk(b)


def expr_nodes(st):
    """the expression nodes evaluated by statement `st` itself (not its sub-blocks, not nested defs / lambdas bodies)"""
    for h in header_nodes(st):
        stack = [h]
        while stack:
            n = stack.pop()
            yield n
            for c in ast.iter_child_nodes(n):
                if isinstance(c, (ast.FunctionDef,)):
                    continue
                stack.append(c)


# ---------------------------------------------------------------------------------------------- functions
MUTATORS = {'add', 'update', 'append', 'extend', 'setdefault'}


class FInfo:
    def __init__(self, qual, node, cls, self_ty, outer=None):
        self.qual, self.node, self.cls, self.self_ty, self.outer = qual, node, cls, self_ty, outer
        self.name = node.name
        self.is_property = any(isinstance(d, ast.Name) and d.id == 'property' for d in node.decorator_list)
        a = node.args
        pos = list(a.args)
        if self_ty is not None and outer is None:
            pos = pos[1:]
        if a.kwonlyargs or a.kwarg or a.posonlyargs:
            raise TrErr(f'{qual}: keyword-only / positional-only parameters')
        self.params = []
        ndef = len(a.defaults)
        for i, p in enumerate(pos):
            t = OVERRIDE.get((qual, p.arg)) or ann_type(p.annotation, f'{qual}, parameter {p.arg}')
            default = a.defaults[i - (len(pos) - ndef)] if i >= len(pos) - ndef else None
            self.params.append((p.arg, t, default))
        self.vararg = None
        if a.vararg:
            self.vararg = a.vararg.arg
            if ann_type(a.vararg.annotation, f'{qual}, *{a.vararg.arg}') != 'pat':
                raise TrErr(f'{qual}: *{a.vararg.arg} is not a list of patterns')
        if node.name == '__init__':
            self.ret = 'unit'
        else:
            self.ret = OVERRIDE.get((qual, 'return')) or ann_type(node.returns, f'{qual}, result')
        # a closure VALUE: `def f(*args: Pattern) -> Pattern | bool`
        self.closure_value = outer is not None and not self.params and self.vararg is not None and self.ret in ('pat', 'bool')
        self.mut_self = False
        self.caps = []
        self.kind = None          # 'pure' | 'res'
        self.ro = False
        self.recursive = False
        self.children = {}
        base = node.name.strip('_') if node.name.startswith('__') else node.name
        if cls == 'MetamathConverter' and outer is None:
            self.lean = 'MetamathConverter_init' if node.name == '__init__' else lname(node.name)
        elif outer is None:
            self.lean = (cls + '_' if cls else '') + base
        else:
            self.lean = lname(node.name)

    def body(self):
        b = self.node.body
        if b and isinstance(b[0], ast.Expr) and isinstance(b[0].value, ast.Constant) and isinstance(b[0].value.value, str):
            b = b[1:]
        return b


def is_self_field(e, field=None):
    return isinstance(e, ast.Attribute) and isinstance(e.value, ast.Name) and e.value.id == 'self' and (field is None or e.attr == field)


class Mod:
    """all translated functions, their kinds, the output"""
    def __init__(self, trees):
        self.trees = trees
        self.problems = []
        self.outside = []       # (where, source text)
        self.funcs = {}         # qual -> FInfo
        self.by_class = {}      # class -> {method -> FInfo}
        self.order = []
        self.enums = {}
        self.dataclasses = {}
        self.skipped = []
        self.collect()

    def problem(self, where, msg):
        self.problems.append(f'{where}: {msg}')

    def collect(self):
        for mod in ('representation', 'scope', 'converter'):
            for node in self.trees[mod].body:
                if isinstance(node, ast.ClassDef):
                    self.collect_class(mod, node)
                elif isinstance(node, ast.FunctionDef):
                    if mod == 'scope' and node.name == 'to_notation_scope':
                        self.add(FInfo(node.name, node, None, None))
                    else:
                        self.problem(mod, f'unexpected module-level function `{node.name}`')

    def collect_class(self, mod, node):
        bases = [ast.unparse(b) for b in node.bases]
        if 'Enum' in bases:
            members = []
            for st in node.body:
                if isinstance(st, ast.Assign) and len(st.targets) == 1 and isinstance(st.targets[0], ast.Name) and isinstance(st.value, ast.Constant):
                    members.append((st.targets[0].id, st.value.value))
                else:
                    self.problem(node.name, f'enum member `{src1(st)}`')
            self.enums[node.name] = members
            return
        if mod == 'representation':
            fields = []
            for st in node.body:
                if isinstance(st, ast.AnnAssign) and isinstance(st.target, ast.Name):
                    fields.append(st.target.id)
            deco = any('dataclass' in ast.unparse(d) for d in node.decorator_list)
            self.dataclasses[node.name] = (deco, bases, fields)
        if node.name not in CLASS_SELF:
            if mod != 'representation':
                self.problem(mod, f'unexpected class `{node.name}`')
            return
        for st in node.body:
            if isinstance(st, ast.FunctionDef):
                if st.name in NOT_TRANSLATED[node.name] or st.name in OUTSIDE:
                    self.skipped.append(f'{node.name}.{st.name}')
                    if st.name in OUTSIDE:
                        self.outside.append((f'{node.name}.{st.name}', 'the whole method'))
                    continue
                try:
                    self.add(FInfo(f'{node.name}.{st.name}', st, node.name, CLASS_SELF[node.name]))
                except TrErr as ex:
                    self.problem(f'{node.name}.{st.name}', str(ex))

    def add(self, fi):
        self.funcs[fi.qual] = fi
        self.by_class.setdefault(fi.cls, {})[fi.name] = fi
        self.order.append(fi)
        self.nested(fi)

    def nested(self, fi):
        for st in ast.walk(fi.node):
            if isinstance(st, ast.FunctionDef) and st is not fi.node and self.parent_def(fi.node, st) is fi.node:
                if st.name in OUTSIDE:
                    continue
                try:
                    ch = FInfo(f'{fi.qual}.{st.name}', st, fi.cls, fi.self_ty, outer=fi)
                except TrErr as ex:
                    self.problem(f'{fi.qual}.{st.name}', str(ex))
                    continue
                fi.children[st.name] = ch
                self.funcs[ch.qual] = ch
                self.nested(ch)

    @staticmethod
    def parent_def(root, target):
        """the innermost FunctionDef (starting at root) that directly contains `target`"""
        best = None

        def go(n, cur):
            nonlocal best
            for c in ast.iter_child_nodes(n):
                if c is target:
                    best = cur
                    return
                go(c, c if isinstance(c, ast.FunctionDef) else cur)
        go(root, root)
        return best

    def method(self, cls, name):
        """method lookup with inheritance (GlobalScope / NotationScope -> Scope)"""
        for c in (cls, 'Scope') if cls in ('GlobalScope', 'NotationScope') else (cls,):
            if name in self.by_class.get(c, {}):
                return self.by_class[c][name]
        return None

    def scope_method(self, name):
        for c in ('Scope', 'GlobalScope', 'NotationScope'):
            if name in self.by_class.get(c, {}):
                return self.by_class[c][name]
        return None

    # ---- mutation analysis (fixpoint over live statements)
    def analyse(self):
        changed = True
        while changed:
            changed = False
            for fi in list(self.funcs.values()):
                if fi.closure_value:
                    continue
                m = self.mutates(fi)
                if m and not fi.mut_self:
                    fi.mut_self = True
                    changed = True
        for fi in self.funcs.values():
            if fi.outer is not None and not fi.closure_value:
                fi.caps = self.captured_mutated(fi)

    def callee(self, fi, call):
        """the translated function a call refers to (or None)"""
        f = call.func
        if isinstance(f, ast.Name):
            o = fi
            while o is not None:
                if f.id in o.children:
                    return o.children[f.id]
                o = o.outer
            if f.id in self.funcs and self.funcs[f.id].cls is None:
                return self.funcs[f.id]
            return None
        if isinstance(f, ast.Attribute):
            if isinstance(f.value, ast.Name) and f.value.id == 'self' and fi.cls:
                return self.method(fi.cls, f.attr)
        return None

    def mutates(self, fi):
        for st in live_walk(fi.body()):
            if isinstance(st, (ast.Assign, ast.AugAssign, ast.AnnAssign)):
                tgts = st.targets if isinstance(st, ast.Assign) else [st.target]
                for t in tgts:
                    if is_self_field(t) or (isinstance(t, ast.Subscript) and is_self_field(t.value)):
                        return True
            for n in expr_nodes(st):
                if isinstance(n, ast.Lambda):
                    continue
                if isinstance(n, ast.Call):
                    f = n.func
                    if isinstance(f, ast.Attribute) and is_self_field(f.value):
                        if f.attr in MUTATORS:
                            return True
                        sm = self.scope_method(f.attr)
                        if fi.self_ty == 'conv' and f.value.attr == '_scope' and sm is not None and sm.mut_self:
                            return True
                    if isinstance(f, ast.Attribute) and isinstance(f.value, ast.Call) and isinstance(f.value.func, ast.Name) and f.value.func.id == 'super':
                        return True
                    c = self.callee(fi, n)
                    if c is not None and c.mut_self and (c.self_ty == fi.self_ty):
                        if isinstance(f, ast.Name) or (isinstance(f.value, ast.Name) and f.value.id == 'self'):
                            return True
        return False

    def captured_mutated(self, fi):
        own = {p for p, _, _ in fi.params}
        for st in ast.walk(fi.node):
            if isinstance(st, (ast.Assign, ast.AnnAssign, ast.AugAssign)):
                for t in (st.targets if isinstance(st, ast.Assign) else [st.target]):
                    for n in ast.walk(t):
                        if isinstance(n, ast.Name) and isinstance(n.ctx, ast.Store):
                            own.add(n.id)
        caps = []
        for st in live_walk(fi.body()):
            for n in expr_nodes(st):
                if isinstance(n, ast.Call) and isinstance(n.func, ast.Attribute) and n.func.attr in MUTATORS and isinstance(n.func.value, ast.Name):
                    v = n.func.value.id
                    if v not in own and v != 'self' and v not in caps:
                        caps.append(v)
        return caps


# ---------------------------------------------------------------------------------------------- expressions
class E:
    def __init__(self, text, ty, eff=False):
        self.text, self.ty, self.eff = text, ty, eff

    @property
    def binds(self):
        return '(←' in self.text


def is_list(t):
    return isinstance(t, tuple) and t[0] == 'list'


def is_dict(t):
    return isinstance(t, tuple) and t[0] == 'dict'


def is_opt(t):
    return isinstance(t, tuple) and t[0] == 'opt'


def tup(names):
    if not names:
        return '()'
    if len(names) == 1:
        return paren(names[0])
    return '(' + ', '.join(names) + ')'


class Fn:
    """translation of one function body"""
    def __init__(self, mod, fi, ro=False, outer=None):
        self.mod, self.fi, self.ro, self.outer = mod, fi, ro, outer
        self.vars = dict(outer.vars) if outer else {}
        self.closures = dict(outer.closures) if outer else {}     # local helper closures: name -> FInfo
        self.regex = dict(outer.regex) if outer else {}
        self.ntmp = outer.ntmp if outer else [0]
        self.seen = outer.seen if outer else {}      # types of names bound anywhere in the function (for `x = ()`)
        self.pre = []
        self.loop_tail = None
        self.loop_vars = []
        self.branch_vars = []
        self.pending_ret = False
        self.ret_hook = lambda v: [self.pack(v)]
        self.in_value = fi.closure_value or (outer is not None and outer.in_value)
        self.self_ty = None if fi.self_ty is None else ('view' if (ro or self.in_value) and fi.self_ty == 'conv' else fi.self_ty)
        if fi.self_ty is not None and not self.in_value:
            self.vars['self'] = self.self_ty
        for p, t, _ in fi.params:
            self.vars[p] = t
        if fi.vararg:
            self.vars[fi.vararg] = ('list', 'pat')
        self.where = fi.qual + ('[ro]' if ro else '')

    # ---- helpers
    def tmp(self):
        self.ntmp[0] += 1
        return f't{self.ntmp[0]}_'

    def view(self):
        if self.in_value:
            return 'view'
        if self.self_ty == 'view':
            return 'self'
        if self.self_ty == 'conv':
            return 'self.view'
        if self.self_ty == 'notation':
            return 'view'
        raise TrErr('a closure is called where the converter is not in reach')

    def val(self, e, expect=None):
        r = self.expr(e, expect)
        if r.eff:
            return E(f'(← {r.text})', r.ty)
        return r

    def as_res(self, r):
        """text of type `Res ty`, usable under a `fun`"""
        t = r.text if r.eff else f'pure {paren(r.text)}'
        return ('do ' + t) if r.binds else t

    def emit(self, line):
        if self.pre is None:
            raise TrErr('a call that modifies an object occurs where no statement can be placed (lambda / comprehension / condition)')
        self.pre.append(line)

    # ---- calls of translated functions
    def raw_call(self, c, recv, args):
        if c.outer is not None:
            if c.closure_value:
                raise TrErr(f'closure value `{c.name}` is called directly')
            extra = (['self'] if self.uses_self(c) else []) + [lname(x) for x in c.caps]
            return c.lean + ''.join(' ' + a for a in extra) + ''.join(' ' + paren(a) for a in args)
        name = c.lean + ('_ro' if (self.self_ty == 'view' and c.self_ty == 'conv') else '')
        t = name + ' σ fuel'
        if recv is not None:
            t += ' ' + paren(recv)
        if c.self_ty == 'notation':
            t += ' ' + paren(self.view())
        return t + ''.join(' ' + paren(a) for a in args)

    def uses_self(self, c):
        """does a helper closure mention `self`?  then it takes it as its first parameter (Python reads the live object)"""
        return any(isinstance(n, ast.Name) and n.id == 'self' for n in ast.walk(c.node))

    def call_fn(self, c, recv, recv_node, args, arg_nodes=None):
        """call of a translated function; `recv`: text of the receiver (None for closures / module functions)"""
        if self.self_ty == 'view' and c.self_ty == 'conv' and c.outer is None:
            self.mod.need_ro.add(c.qual)
        # fill in defaults
        if len(args) < len(c.params):
            for (p, t, d) in c.params[len(args):]:
                if d is None:
                    raise TrErr(f'call of {c.qual}: argument `{p}` missing')
                if isinstance(d, ast.Constant) and d.value is None and is_opt(t):
                    args = args + ['none']
                else:
                    raise TrErr(f'call of {c.qual}: default of `{p}`')
        raw = self.raw_call(c, recv, args)
        if c.kind == 'pure':
            return E(raw, c.ret)
        if self.self_ty == 'view' and c.self_ty == 'conv' and c.outer is None:
            return E(raw, c.ret, eff=True)
        mutating = c.mut_self or c.caps
        if not mutating:
            return E(raw, c.ret, eff=True)
        if self.self_ty == 'view':
            raise TrErr(f'call of the modifying method {c.qual} in a read-only context')
        outs = []
        rebind = None
        if c.mut_self:
            if c.outer is not None or recv == 'self':
                outs.append('self')
            elif recv_node is not None and isinstance(recv_node, ast.Name):
                outs.append(lname(recv_node.id))
            elif recv_node is not None and is_self_field(recv_node):
                t = self.tmp()
                outs.append(t)
                rebind = f'let self := {{ self with {recv_node.attr} := {t} }}'
            else:
                raise TrErr(f'receiver of the modifying call {c.qual}')
        outs += [lname(x) for x in c.caps]
        res = None
        if c.ret != 'unit':
            res = self.tmp()
            outs.append(res)
        self.emit(f'let {tup(outs)} ← {raw}')
        if rebind:
            self.emit(rebind)
        return E(res if res else '()', c.ret)

    # ---- expressions
    def expr(self, e, expect=None):
        if isinstance(e, ast.Constant):
            if isinstance(e.value, bool):
                return E('true' if e.value else 'false', 'bool')
            if isinstance(e.value, str):
                return E(lean_str(e.value), 'str')
            if isinstance(e.value, int):
                return E(str(e.value), 'nat')
            if e.value is None:
                return E('none', expect if is_opt(expect) else ('opt', 'unit'))
            raise TrErr(f'constant {e.value!r}')
        if isinstance(e, ast.Name):
            if e.id in self.vars:
                return E(lname(e.id), self.vars[e.id])
            if e.id in PAT_CLASSES:
                return E(PAT_CLASSES[e.id], 'pytype')
            raise TrErr(f'unknown name `{e.id}`')
        if isinstance(e, ast.Attribute):
            return self.attribute(e)
        if isinstance(e, ast.Subscript):
            return self.subscript(e)
        if isinstance(e, ast.Call):
            return self.call(e, expect)
        if isinstance(e, ast.BoolOp):
            return self.boolop(e)
        if isinstance(e, ast.UnaryOp) and isinstance(e.op, ast.Not):
            c = self.cond(e.operand)
            if c.eff:
                return E(f'(fun b => !b) <$> {paren(c.text)}', 'bool', True)
            return E(f'!{paren(c.text)}', 'bool')
        if isinstance(e, ast.Compare):
            return self.compare(e)
        if isinstance(e, ast.IfExp):
            c = self.cond(e.test)
            empty = lambda n: isinstance(n, (ast.Tuple, ast.List)) and not n.elts
            if empty(e.body) and not empty(e.orelse):
                b = self.expr(e.orelse, expect)
                a = self.expr(e.body, b.ty)
            else:
                a = self.expr(e.body, expect)
                b = self.expr(e.orelse, a.ty)
            if a.ty != b.ty:
                raise TrErr(f'conditional expression of types {a.ty} / {b.ty}')
            if c.eff or c.binds:
                return E(f'(do let c_ ← {paren(self.as_res(c))}; if c_ then {paren(self.as_res(a))} else {paren(self.as_res(b))})', a.ty, True)
            if a.eff or b.eff or a.binds or b.binds:
                return E(f'(if {c.text} then {self.as_res(a)} else {self.as_res(b)})', a.ty, True)
            return E(f'(if {c.text} then {a.text} else {b.text})', a.ty)
        if isinstance(e, (ast.Tuple, ast.List)):
            if not e.elts:
                if expect is None or not is_list(expect):
                    raise TrErr('empty sequence of unknown element type')
                return E(f'([] : {lty(expect)})', expect)
            items = []
            star_tail = None
            for x in e.elts:
                if isinstance(x, ast.Starred):
                    raise TrErr('starred element')
                items.append(self.val(x, expect[1] if is_list(expect) else None))
            t = items[0].ty
            if any(i.ty != t for i in items):
                raise TrErr(f'sequence literal of mixed types {[i.ty for i in items]}')
            return E('[' + ', '.join(i.text for i in items) + ']', ('list', t))
        if isinstance(e, ast.Dict) and not e.keys:
            if not is_dict(expect):
                raise TrErr('empty dict of unknown type')
            return E(f'([] : {lty(expect)})', expect)
        if isinstance(e, (ast.GeneratorExp, ast.ListComp, ast.SetComp)):
            return self.comprehension(e)
        if isinstance(e, ast.Lambda):
            return self.lambda_value(e, expect)
        if isinstance(e, ast.BinOp) and isinstance(e.op, ast.Add):
            a, b = self.val(e.left), self.val(e.right, None)
            if is_list(a.ty) and a.ty == b.ty:
                return E(f'({a.text} ++ {b.text})', a.ty)
            if a.ty == 'nat' and b.ty == 'nat':
                return E(f'({a.text} + {b.text})', 'nat')
            raise TrErr(f'`+` on {a.ty} / {b.ty}')
        if isinstance(e, ast.NamedExpr):
            raise TrErr('`:=` outside the test of an `if`')
        raise TrErr(f'expression `{src1(e)}`')

    def cond(self, e):
        """an expression in a boolean position (Python truthiness)"""
        r = self.expr(e)
        if r.ty == 'bool':
            return r
        if is_list(r.ty) or r.ty == SET:
            if r.eff:
                raise TrErr('truth value of a sequence that can raise')
            return E(f'!{paren(r.text)}.isEmpty', 'bool')
        if is_opt(r.ty):
            if r.eff:
                raise TrErr('truth value of an optional that can raise')
            return E(f'{paren(r.text)}.isSome', 'bool')
        raise TrErr(f'truth value of type {r.ty}: `{src1(e)}`')

    def boolop(self, e):
        vals = [self.cond(v) for v in e.values]
        op, fn = ('&&', 'andR') if isinstance(e.op, ast.And) else ('||', 'orR')
        if not any(v.eff or v.binds for v in vals):
            return E('(' + f' {op} '.join(paren(v.text) for v in vals) + ')', 'bool')
        t = self.as_res(vals[-1])
        for v in reversed(vals[:-1]):
            t = f'{fn} {paren(self.as_res(v))} fun _ => {t}'
        return E(t, 'bool', True)

    def compare(self, e):
        if len(e.ops) != 1:
            raise TrErr('chained comparison')
        op, l, r = e.ops[0], e.left, e.comparators[0]
        if isinstance(op, (ast.Is, ast.IsNot)):
            if isinstance(r, ast.Constant) and r.value is None:
                a = self.val(l)
                if not is_opt(a.ty):
                    raise TrErr(f'`is None` on type {a.ty}')
                return E(f'{paren(a.text)}.{"isNone" if isinstance(op, ast.Is) else "isSome"}', 'bool')
            a, b = self.val(l), self.val(r)
            if a.ty == 'pytype' and b.ty == 'pytype':
                return E(f'({a.text} {"==" if isinstance(op, ast.Is) else "!="} {b.text})', 'bool')
            raise TrErr(f'`is` on {a.ty} / {b.ty}')
        if isinstance(op, (ast.In, ast.NotIn)):
            a = self.val(l)
            neg = '!' if isinstance(op, ast.NotIn) else ''
            if isinstance(r, ast.Tuple):
                items = [self.val(x) for x in r.elts]
                return E(f'{neg}([' + ', '.join(i.text for i in items) + f'].contains {paren(a.text)})', 'bool')
            b = self.val(r)
            key = a.text
            if a.ty == 'term' and is_list(b.ty) and b.ty[1] == 'term':
                return E(f'{neg}({paren(b.text)}.contains {paren(a.text)})', 'bool')
            if a.ty == 'term':
                key = f'{paren(a.text)}.name'
            elif a.ty == 'strormv':
                key = f'{paren(a.text)}.key'
            elif a.ty not in ('str', 'mvobj'):
                raise TrErr(f'`in` with a key of type {a.ty}')
            if b.ty == 'vardict':
                return E(f'{neg}(vdHas {paren(b.text)} {paren(key)})', 'bool')
            if is_dict(b.ty):
                return E(f'{neg}(dictHas {paren(b.text)} {paren(key)})', 'bool')
            if b.ty == SET or b.ty in (('list', 'str'), ('list', 'mvobj')):
                return E(f'{neg}({paren(b.text)}.contains {paren(key)})', 'bool')
            if is_opt(b.ty) and b.ty[1] == ('list', 'str'):
                return E(f'{neg}(({paren(b.text)}.getD []).contains {paren(key)})', 'bool')
            raise TrErr(f'`in` on a container of type {b.ty}')
        a, b = self.val(l), self.val(r)
        if isinstance(op, (ast.Eq, ast.NotEq)):
            if a.ty != b.ty and {a.ty, b.ty} != {'str', 'mvobj'}:
                raise TrErr(f'`==` on {a.ty} / {b.ty}')
            if a.ty not in ('str', 'mvobj', 'nat', 'axtype', 'bool', 'pytype'):
                raise TrErr(f'`==` on type {a.ty}')
            return E(f'({a.text} {"==" if isinstance(op, ast.Eq) else "!="} {b.text})', 'bool')
        if a.ty == 'nat' and b.ty == 'nat':
            sym = {ast.Gt: '>', ast.GtE: '≥', ast.Lt: '<', ast.LtE: '≤'}.get(type(op))
            if sym:
                return E(f'decide ({a.text} {sym} {b.text})', 'bool')
        raise TrErr(f'comparison `{src1(e)}`')

    def attribute(self, e):
        # enum members
        if isinstance(e.value, ast.Name) and e.value.id in self.mod.enums and e.value.id not in self.vars:
            if e.attr not in [m for m, _ in self.mod.enums[e.value.id]]:
                raise TrErr(f'unknown member {e.value.id}.{e.attr}')
            return E(f'{e.value.id}.{e.attr}', 'axtype')
        if isinstance(e.value, ast.Name) and e.value.id == 'self' and 'self' not in self.vars:
            raise TrErr(f'a closure value reads `self.{e.attr}` directly')
        o = self.val(e.value)
        t = o.ty
        if t in ('mvobj',) and e.attr == 'name':
            return E(o.text, 'str')
        if t == 'strormv' and e.attr == 'name':
            return E(f'{paren(o.text)}.key', 'str')
        if t in RES_ATTRS and e.attr in RES_ATTRS[t]:
            f, rt = RES_ATTRS[t][e.attr]
            return E(f'{f} {paren(o.text)}', rt, True)
        if t == 'db' and e.attr == 'statements':
            return E(o.text, ('list', 'stmt'))
        if t in FIELDS and e.attr in FIELDS[t]:
            return E(f'{paren(o.text)}.{e.attr}', FIELDS[t][e.attr])
        # properties
        if t in ('conv', 'view', 'scope'):
            c = self.mod.method('MetamathConverter', e.attr) if t in ('conv', 'view') else self.mod.scope_method(e.attr)
            if c is not None and c.is_property:
                return self.call_fn(c, o.text, e.value, [])
        raise TrErr(f'attribute `.{e.attr}` of type {t}')

    def subscript(self, e):
        o = self.val(e.value)
        sl = e.slice
        if isinstance(sl, ast.Slice):
            if sl.lower is None and sl.step is None and isinstance(sl.upper, ast.UnaryOp) and isinstance(sl.upper.op, ast.USub) \
                    and isinstance(sl.upper.operand, ast.Constant) and sl.upper.operand.value == 1 and is_list(o.ty):
                return E(f'{paren(o.text)}.dropLast', o.ty)
            if sl.upper is None and sl.step is None and isinstance(sl.lower, ast.Constant) and isinstance(sl.lower.value, int) and is_list(o.ty):
                return E(f'({paren(o.text)}.drop {sl.lower.value})', o.ty)
            raise TrErr(f'slice `{src1(e)}`')
        if is_list(o.ty):
            if isinstance(sl, ast.UnaryOp) and isinstance(sl.op, ast.USub) and isinstance(sl.operand, ast.Constant) and sl.operand.value == 1:
                return E(f'listLast {paren(o.text)}', o.ty[1], True)
            i = self.val(sl)
            if i.ty != 'nat':
                raise TrErr(f'index of type {i.ty}')
            return E(f'listGet {paren(o.text)} {paren(i.text)}', o.ty[1], True)
        k = self.val(sl)
        key = k.text
        if k.ty == 'term':
            key = f'{paren(k.text)}.name'
        elif k.ty not in ('str', 'mvobj'):
            raise TrErr(f'key of type {k.ty}')
        if o.ty == 'vardict':
            return E(f'vdGet {paren(o.text)} {paren(key)}', 'pat', True)
        if is_dict(o.ty):
            return E(f'dictGet {paren(o.text)} {paren(key)}', o.ty[1], True)
        raise TrErr(f'subscript on type {o.ty}')

    # ---- calls
    def class_test(self, x, cls_node):
        """`isinstance(x, C)`"""
        if isinstance(cls_node, ast.BinOp) and isinstance(cls_node.op, ast.BitOr):
            a, b = self.class_test(x, cls_node.left), self.class_test(x, cls_node.right)
            return f'({a} || {b})'
        if isinstance(cls_node, ast.Tuple):
            return '(' + ' || '.join(self.class_test(x, c) for c in cls_node.elts) + ')'
        if not isinstance(cls_node, ast.Name):
            raise TrErr(f'class `{src1(cls_node)}`')
        c = cls_node.id
        t = x.ty
        if c in self.vars and self.vars[c] == 'pytype' and t == 'pat':
            return f'isinstanceTy {paren(x.text)} {lname(c)}'
        if t == 'stmt' and c in STMT_CLASSES:
            return f'{STMT_CLASSES[c]} {paren(x.text)}'
        if t == 'term' and c in TERM_CLASSES:
            return f'{TERM_CLASSES[c]} {paren(x.text)}'
        if t == 'term' and c == 'Term':
            return 'true'
        if t == 'mvobj' and c == 'Metavariable':
            return 'true'
        if t == 'pat' and c in PAT_CLASSES:
            return f'isinstanceTy {paren(x.text)} {PAT_CLASSES[c]}'
        if t == 'pat' and c == 'Pattern':
            return f'isPattern {paren(x.text)}'
        if t == 'axiom' and c == 'Axiom':
            return 'true'
        if t == 'axiom' and c == 'Lemma':
            return f'{paren(x.text)}.cls.isLemma'
        if t == 'axiom' and c == 'AxiomWithAntecedents':
            return f'{paren(x.text)}.cls.isWithAntecedents'
        if t == 'strormv' and c == 'str':
            return f'(match {x.text} with | StrOrMv.str _ => true | StrOrMv.mv _ => false)'
        raise TrErr(f'isinstance({x.ty}, {c})')

    def arg_list(self, nodes, elem_expect='pat'):
        """the list passed for `*args`"""
        if len(nodes) == 1 and isinstance(nodes[0], ast.Starred):
            r = self.val(nodes[0].value)
            if not is_list(r.ty):
                raise TrErr(f'`*` on type {r.ty}')
            return r.text
        if any(isinstance(n, ast.Starred) for n in nodes):
            raise TrErr('mixed starred arguments')
        return '[' + ', '.join(self.val(n, elem_expect).text for n in nodes) + ']'

    def fn_args(self, c, nodes, keywords=()):
        """argument texts for a translated function (positional parameters, then the `*args` list)"""
        n = len(c.params)
        pos = [x for x in nodes[:n] if not isinstance(x, ast.Starred)]
        if len(pos) != min(n, len(nodes)) and n:
            raise TrErr(f'call of {c.qual}: starred argument among the positional ones')
        out = []
        for (p, t, _), a in zip(c.params, pos):
            out.append(self.coerce(self.val(a, t), t, f'argument `{p}` of {c.qual}').text)
        for kw in keywords:
            names = [p for p, _, _ in c.params]
            if kw.arg not in names or names.index(kw.arg) != len(out):
                raise TrErr(f'call of {c.qual}: keyword argument `{kw.arg}`')
            t = c.params[len(out)][1]
            out.append(self.coerce(self.val(kw.value, t), t, f'argument `{kw.arg}` of {c.qual}').text)
        if c.vararg:
            out.append(self.arg_list(nodes[len(pos):]))
        elif len(nodes) > n:
            raise TrErr(f'call of {c.qual}: too many arguments')
        return out

    def coerce(self, r, t, what):
        if r.ty == t:
            return r
        if {r.ty, t} == {'str', 'mvobj'}:
            return E(r.text, t)
        if t == 'strormv' and r.ty in ('str', 'mvobj'):
            return E(f'StrOrMv.str {paren(r.text)}', t)
        if t == 'strormv' and r.ty == 'term':
            return E(f'StrOrMv.mv {paren(r.text)}.name', t)
        if is_opt(t) and r.ty == t[1]:
            return E(f'some {paren(r.text)}', t)
        if is_opt(t) and is_opt(r.ty) and r.text == 'none':
            return E('none', t)
        if is_opt(t) and r.ty == ('list', 'mvobj') and t[1] == ('list', 'str'):
            return E(f'some {paren(r.text)}', t)
        if t == ('list', 'str') and r.ty in (SET, ('list', 'mvobj')):
            return E(r.text, t)
        if t == SET and r.ty == ('list', 'str'):
            return E(r.text, t)
        raise TrErr(f'{what}: type {r.ty} where {t} is expected')

    def init_fields(self, cls):
        deco, bases, fields = self.mod.dataclasses[cls]
        if not deco:
            return self.init_fields(bases[0])
        out = []
        for b in bases:
            if b in self.mod.dataclasses:
                for f in self.init_fields(b):
                    if f not in out:
                        out.append(f)
        for f in fields:
            if f not in out:
                out.append(f)
        return out

    def construct(self, name, e):
        if e.keywords:
            raise TrErr(f'keyword arguments of {name}(..)')
        if name in ('Scope', 'GlobalScope', 'NotationScope'):
            c = self.mod.by_class[name]['__init__']
            args = self.fn_args(c, e.args)
            return E(f'{c.lean} σ fuel default' + ''.join(' ' + paren(a) for a in args), 'scope', True)
        if name == 'VarDict':
            a = e.args
            if len(a) == 2 and isinstance(a[0], ast.Constant) and a[0].value is None:
                return E(f'vdEmpty {self.val(a[1]).text}', 'vardict')
            if len(a) == 1:
                r = self.val(a[0])
                if r.ty != 'vardict':
                    raise TrErr(f'VarDict({r.ty})')
                return E(f'vdCopy {paren(r.text)}', 'vardict', True)
            if len(a) == 2 and isinstance(a[0], ast.DictComp):
                d = a[0]
                if len(d.generators) != 1 or not (isinstance(d.key, ast.Name) and isinstance(d.value, ast.Name)):
                    raise TrErr('dict comprehension')
                g = d.generators[0]
                if not (isinstance(g.target, ast.Tuple) and [ast.unparse(x) for x in g.target.elts] == [d.key.id, d.value.id]):
                    raise TrErr('dict comprehension that is not a filter')
                it = self.val(g.iter)
                if it.ty != ('dict', 'pat'):
                    raise TrErr(f'dict comprehension over {it.ty}')
                saved, savedpre = dict(self.vars), self.pre
                self.vars[d.key.id], self.vars[d.value.id] = 'str', 'pat'
                self.pre = None
                conds = [self.cond(c) for c in g.ifs]
                self.vars, self.pre = saved, savedpre
                if any(c.eff or c.binds for c in conds):
                    raise TrErr('dict comprehension whose condition can raise')
                items = it.text
                if conds:
                    items = f'({paren(it.text)}.filter fun ({lname(d.key.id)}, {lname(d.value.id)}) => ' + ' && '.join(paren(c.text) for c in conds) + ')'
                return E(f'vdOfDict {items} (some {self.val(a[1]).text})', 'vardict', True)
            raise TrErr('VarDict(..) of this shape')
        if name == 'Notation':
            fields = self.init_fields('Notation')
            if fields != ['name', 'args', 'type_check', 'callable'] or len(e.args) != 4:
                raise TrErr(f'fields of Notation: {fields}')
            vals = [self.val(a, FIELDS['notation'][f]) for a, f in zip(e.args, fields)]
            vals = [self.coerce(v, FIELDS['notation'][f], f'Notation.{f}') for v, f in zip(vals, fields)]
            return E('({ ' + ', '.join(f'{f} := {v.text}' for f, v in zip(fields, vals)) + ' } : Notation)', 'notation')
        if name in AX_CLASSES:
            fields = self.init_fields(name)
            if len(e.args) != len(fields):
                raise TrErr(f'{name}(..) with {len(e.args)} arguments for the fields {fields}')
            ft = dict(FIELDS['axiom'], antecedents=('list', 'pat'), proof='proof')
            parts = [f'cls := AxCls.{name}']
            got = {}
            for a, f in zip(e.args, fields):
                if f not in ft:
                    raise TrErr(f'field {name}.{f}')
                got[f] = self.coerce(self.val(a, ft[f]), ft[f], f'{name}.{f}')
            for f in ['name', 'args', 'type_check', 'pattern', 'metavars']:
                if f not in got:
                    raise TrErr(f'{name}(..) does not set `{f}`')
                parts.append(f'{f} := {got[f].text}')
            parts.append('antecedents? := ' + (f'some {paren(got["antecedents"].text)}' if 'antecedents' in got else 'none'))
            parts.append('proof? := ' + (f'some {paren(got["proof"].text)}' if 'proof' in got else 'none'))
            return E('({ ' + ', '.join(parts) + ' } : AxiomObj)', 'axiom')
        prim = {'MetaVar': ('mkMetaVar', ['nat']), 'Symbol': ('mkSymbol σ', ['str']), 'App': ('mkApp', ['pat', 'pat']),
                'Implies': ('mkImplies', ['pat', 'pat'])}
        if name in prim:
            fn, ts = prim[name]
            if len(e.args) != len(ts):
                raise TrErr(f'{name}(..) with {len(e.args)} arguments')
            vs = [self.coerce(self.val(a, t), t, f'{name}(..)') for a, t in zip(e.args, ts)]
            return E(fn + ''.join(' ' + paren(v.text) for v in vs), 'pat')
        return None

    def call(self, e, expect=None):
        f = e.func
        if isinstance(f, ast.Name):
            n = f.id
            if n in self.vars and self.vars[n] in ('closure', 'tcclosure'):
                return E(f'{lname(n)} {paren(self.view())} {paren(self.arg_list(e.args))}', 'pat' if self.vars[n] == 'closure' else 'bool', True)
            if n in self.vars and self.vars[n] == 'notation':
                c = self.mod.by_class['Notation']['__call__']
                return E(f'{c.lean} σ fuel {lname(n)} {paren(self.view())} {paren(self.arg_list(e.args))}', 'pat', True)
            if n in self.closures:
                c = self.closures[n]
                return self.call_fn(c, None, None, self.fn_args(c, e.args, e.keywords))
            if n == 'isinstance' and len(e.args) == 2:
                x = self.val(e.args[0])
                return E(self.class_test(x, e.args[1]), 'bool')
            if n == 'len' and len(e.args) == 1:
                x = self.val(e.args[0])
                if x.ty == 'vardict':
                    return E(f'vdLen {paren(x.text)}', 'nat')
                if is_list(x.ty) or x.ty == SET or is_dict(x.ty):
                    return E(f'{paren(x.text)}.length', 'nat')
                raise TrErr(f'len of {x.ty}')
            if n in ('tuple', 'list') and len(e.args) == 1:
                x = self.expr(e.args[0])
                if is_list(x.ty):
                    return x
                if x.ty == SET:
                    return E(x.text, ('list', 'str'), x.eff)
                raise TrErr(f'{n}({x.ty})')
            if n == 'set':
                if not e.args:
                    return E('([] : List String)', SET)
                x = self.val(e.args[0])
                if x.ty == SET:
                    return x
                if x.ty in (('list', 'str'), ('list', 'mvobj')):
                    return E(f'setOf {paren(x.text)}', SET)
                raise TrErr(f'set({x.ty})')
            if n == 'sorted' and len(e.args) == 1:
                x = self.val(e.args[0])
                if x.ty in (SET, ('list', 'str')):
                    return E(f'sortedStrs {paren(x.text)}', ('list', 'str'))
                raise TrErr(f'sorted({x.ty})')
            if n == 'all' and len(e.args) == 1 and isinstance(e.args[0], ast.GeneratorExp):
                return self.comprehension(e.args[0], mode='all')
            if n == 'filter' and len(e.args) == 2 and isinstance(e.args[0], ast.Lambda):
                lam = e.args[0]
                xs = self.val(e.args[1])
                if not is_list(xs.ty) or len(lam.args.args) != 1:
                    raise TrErr('filter(..)')
                v = lam.args.args[0].arg
                saved, savedpre = dict(self.vars), self.pre
                self.vars[v] = xs.ty[1]
                self.pre = None
                c = self.cond(lam.body)
                self.vars, self.pre = saved, savedpre
                if c.eff or c.binds:
                    raise TrErr('filter with a test that can raise')
                return E(f'({paren(xs.text)}.filter fun {lname(v)} => {c.text})', xs.ty)
            if n == 'type' and len(e.args) == 1:
                x = self.val(e.args[0])
                if x.ty != 'pat':
                    raise TrErr(f'type({x.ty})')
                return E(f'typeOf {paren(x.text)}', 'pytype')
            if n == 'dict' and len(e.args) == 1:
                x = self.val(e.args[0])
                if is_dict(x.ty):
                    return x
            r = self.construct(n, e)
            if r is not None:
                return r
            if n in self.mod.funcs and self.mod.funcs[n].cls is None:
                c = self.mod.funcs[n]
                return self.call_fn(c, None, None, self.fn_args(c, e.args, e.keywords))
            raise TrErr(f'call of `{n}`')
        if not isinstance(f, ast.Attribute):
            raise TrErr(f'call `{src1(e)}`')
        m = f.attr
        # super().__init__()
        if isinstance(f.value, ast.Call) and isinstance(f.value.func, ast.Name) and f.value.func.id == 'super' and m == '__init__':
            base = self.mod.dataclasses  # unused
            c = self.mod.by_class['Scope']['__init__']
            return self.call_fn(c, 'self', ast.Name('self', ast.Load()), self.fn_args(c, e.args))
        if isinstance(f.value, ast.Name) and f.value.id == 'self' and self.fi.cls:
            if m == '_import_proof' and self.fi.cls == 'MetamathConverter' and len(e.args) == 1:
                st = self.val(e.args[0])
                if st.ty != 'stmt' or self.self_ty != 'conv':
                    raise TrErr('_import_proof(..)')
                return E(f'callImportProof self._floating_patterns {paren(st.text)}', 'proof', True)
            c = self.mod.method(self.fi.cls, m)
            if c is None and 'self' in self.vars and FIELDS.get(self.self_ty, {}).get(m) in ('closure', 'tcclosure'):
                k = FIELDS[self.self_ty][m]
                return E(f'self.{m} {paren(self.view())} {paren(self.arg_list(e.args))}', 'pat' if k == 'closure' else 'bool', True)
            if c is None:
                raise TrErr(f'method `self.{m}` is not translated')
            recv = 'self' if 'self' in self.vars else 'view'
            return self.call_fn(c, recv, f.value, self.fn_args(c, e.args, e.keywords))
        if isinstance(f.value, ast.Name) and f.value.id in self.regex and m == 'match' and len(e.args) == 1:
            return E(f'reConstantMatch {paren(self.val(e.args[0]).text)}', 'bool')
        o = self.val(f.value)
        if o.ty == 'scope':
            c = self.mod.scope_method(m)
            if c is None:
                raise TrErr(f'Scope method `{m}` is not translated')
            return self.call_fn(c, o.text, f.value, self.fn_args(c, e.args, e.keywords))
        if o.ty in ('str', 'mvobj') and m == 'startswith' and len(e.args) == 1:
            return E(f'strStartsWith {paren(o.text)} {paren(self.val(e.args[0]).text)}', 'bool')
        if is_dict(o.ty) and m == 'keys' and not e.args:
            return E(f'dictKeys {paren(o.text)}', ('list', 'str'))
        if o.ty == 'vardict' and m == 'items' and not e.args:
            return E(f'vdItems {paren(o.text)}', ('dict', 'pat'))
        if is_list(o.ty) and m == 'index' and len(e.args) == 1:
            return E(f'{paren(o.text)}.idxOf {paren(self.val(e.args[0]).text)}', 'nat')
        raise TrErr(f'call `{src1(e)}` (receiver of type {o.ty})')

    def comprehension(self, e, mode='list'):
        if len(e.generators) != 1 or e.generators[0].is_async:
            raise TrErr('comprehension with several generators')
        g = e.generators[0]
        it = self.val(g.iter)
        if it.ty == SET and mode != 'all' and not isinstance(e, ast.SetComp):
            raise TrErr('order-sensitive iteration over a set')
        et = it.ty[1] if is_list(it.ty) else ('str' if it.ty == SET else None)
        if et is None or not isinstance(g.target, ast.Name):
            raise TrErr(f'comprehension over {it.ty}')
        v = g.target.id
        saved, savedpre = dict(self.vars), self.pre
        self.vars[v] = et
        self.pre = []
        try:
            conds = [self.cond(c) for c in g.ifs]
            elt = self.expr(e.elt)
            inner = self.pre
        finally:
            self.vars, self.pre = saved, savedpre
        if any(c.eff or c.binds for c in conds):
            raise TrErr('comprehension whose condition can raise')
        base = it.text
        if conds:
            base = f'({paren(base)}.filter fun {lname(v)} => ' + ' && '.join(paren(c.text) for c in conds) + ')'
        if mode == 'all':
            if elt.eff or elt.binds or inner:
                raise TrErr('all(..) over a test that can raise')
            return E(f'({paren(base)}.all fun {lname(v)} => {elt.text})', 'bool')
        rt = SET if isinstance(e, ast.SetComp) else ('list', elt.ty)
        if isinstance(e, ast.SetComp) and elt.ty not in ('str', 'mvobj'):
            raise TrErr('set comprehension of non-strings')
        wrap = (lambda s: f'setOf {paren(s)}') if isinstance(e, ast.SetComp) else (lambda s: s)
        if inner:
            # the element is a call that modifies `self`: thread it through (`mapS`)
            if len(inner) != 1 or not inner[0].startswith('let (self, ') or not inner[0].split(' ← ')[0].endswith(f'{elt.text})'):
                raise TrErr('comprehension whose element modifies more than `self`')
            raw = inner[0].split(' ← ', 1)[1]
            t = self.tmp()
            self.emit(f'let (self, {t}) ← mapS {paren(base)} self fun self {lname(v)} => {raw}')
            return E(wrap(t), rt)
        if elt.eff or elt.binds:
            return E(wrap(f'(← mapR {paren(base)} fun {lname(v)} => {self.as_res(elt)})'), rt)
        if isinstance(e.elt, ast.Name) and e.elt.id == v:
            return E(wrap(base), rt)
        return E(wrap(f'({paren(base)}.map fun {lname(v)} => {elt.text})'), rt)

    def lambda_value(self, e, expect):
        a = e.args
        if not (a.vararg and not a.args and not a.kwonlyargs):
            raise TrErr('lambda that is not `lambda *args:`')
        if expect not in ('closure', 'tcclosure'):
            raise TrErr('`lambda *args:` where no closure is expected')
        if mentions_outside(e.body):
            self.mod.outside.append((self.where, 'lambda: ' + src1(e.body)))
            return E('(fun _ _ => Res.outside)', expect)
        sub = Fn(self.mod, self.fi, self.ro, outer=self)
        sub.in_value = True
        sub.vars.pop('self', None)
        sub.self_ty = 'view' if self.fi.self_ty == 'conv' else sub.self_ty
        sub.vars[a.vararg.arg] = ('list', 'pat')
        sub.pre = None
        r = sub.cond(e.body) if expect == 'tcclosure' else sub.expr(e.body)
        want = 'bool' if expect == 'tcclosure' else 'pat'
        if r.ty != want:
            raise TrErr(f'lambda of result type {r.ty}')
        return E(f'(fun view {lname(a.vararg.arg)} => {sub.as_res(r)})', expect)

    # ---- statements
    def pack(self, value):
        """the result of the function: changed objects first"""
        fi = self.fi
        if fi.closure_value or (self.in_value and fi.outer is None):
            return f'pure {paren(value)}' if value is not None else 'pure ()'
        outs = (['self'] if fi.mut_self and not self.ro else []) + [lname(x) for x in fi.caps]
        if fi.ret != 'unit':
            if value is None:
                raise TrErr('a path returns no value')
            outs.append(value)
        if fi.kind == 'pure':
            return value
        if not outs:
            return 'pure ()'
        return 'pure ' + tup(outs)

    def block_mutates_self(self, stmts):
        fake = self.fi
        saved = fake.node
        try:
            holder = ast.FunctionDef(name=fake.name, args=fake.node.args, body=list(stmts) or [ast.Pass()], decorator_list=[], returns=None)
            fake.node = holder
            return self.mod.mutates(fake)
        finally:
            fake.node = saved

    def assigned(self, stmts):
        """names (re)bound by the live part of a block, in order of first occurrence; `self` if a field of it changes"""
        out = []

        def add(n):
            if n not in out:
                out.append(n)

        def tgt(t):
            if isinstance(t, ast.Name):
                add(t.id)
            elif isinstance(t, (ast.Tuple, ast.List)):
                for x in t.elts:
                    tgt(x)
            elif isinstance(t, ast.Starred):
                tgt(t.value)
            elif isinstance(t, ast.Subscript) and isinstance(t.value, ast.Name):
                add(t.value.id)
        for st in live_walk(stmts):
            if isinstance(st, ast.Assign):
                for t in st.targets:
                    tgt(t)
            elif isinstance(st, ast.AnnAssign) and st.value is not None:
                tgt(st.target)
            elif isinstance(st, ast.AugAssign):
                tgt(st.target)
            elif isinstance(st, ast.For):
                tgt(st.target)
            for n in expr_nodes(st):
                if isinstance(n, ast.NamedExpr):
                    tgt(n.target)
                if isinstance(n, ast.Call) and isinstance(n.func, ast.Attribute) and isinstance(n.func.value, ast.Name):
                    v = n.func.value.id
                    if v != 'self' and (n.func.attr in MUTATORS or n.func.attr == 'pop'):
                        add(v)
                    if v != 'self' and self.vars.get(v) == 'scope':
                        c = self.mod.scope_method(n.func.attr)
                        if c is not None and c.mut_self:
                            add(v)
                if isinstance(n, ast.Call) and isinstance(n.func, ast.Name) and n.func.id in self.closures:
                    for c in self.closures[n.func.id].caps:
                        add(c)
        if 'self' in self.vars and self.self_ty != 'view' and self.block_mutates_self(stmts):
            out = ['self'] + [x for x in out if x != 'self']
        return out

    def loads(self, nodes):
        s = set()
        for n in nodes:
            for x in ast.walk(n):
                if isinstance(x, ast.Name):
                    s.add(x.id)
        return s

    def terminates(self, stmts):
        """does every path through the block leave it (return / raise / continue / outside)?"""
        for st in stmts:
            if stmt_is_outside(st):
                return True
            if isinstance(st, (ast.Return, ast.Raise, ast.Continue)):
                return True
            if isinstance(st, ast.If) and st.orelse and self.terminates(st.body) and self.terminates(st.orelse):
                return True
            if isinstance(st, ast.Match) and any(isinstance(c.pattern, ast.MatchAs) and c.pattern.pattern is None for c in st.cases) \
                    and all(self.terminates(c.body) for c in st.cases):
                return True
        return False

    def fall_leaves(self, st):
        """number of branches of a compound statement that fall through to what follows it"""
        if isinstance(st, ast.If):
            n = 0
            for b in (st.body, st.orelse):
                if not b:
                    n += 1
                elif not self.terminates(b):
                    n += 1
            return n
        if isinstance(st, ast.Match):
            n = sum(0 if self.terminates(c.body) else 1 for c in st.cases)
            if not any(isinstance(c.pattern, ast.MatchAs) and c.pattern.pattern is None for c in st.cases) and not self.exhaustive(st):
                n += 1
            return n
        return 1

    def exhaustive(self, st):
        pats = [ast.unparse(c.pattern).split('(')[0] for c in st.cases]
        return 'Application' in pats and 'Metavariable' in pats

    def block(self, stmts, tail):
        if not stmts:
            return tail()
        st, rest = stmts[0], stmts[1:]
        if isinstance(st, ast.Expr) and isinstance(st.value, ast.Constant) and isinstance(st.value.value, str):
            return self.block(rest, tail)
        if isinstance(st, ast.Pass):
            return self.block(rest, tail)
        if stmt_is_outside(st):
            self.mod.outside.append((self.where, src1(st)))
            return [f'-- {src1(st)}', '-- (outside the modelled fragment)', 'Res.outside']
        if self.self_ty == 'view' and not self.in_value and self.block_mutates_self_header(st):
            self.mod.outside.append((self.where, src1(st) + '   [modifies the converter: outside when reached from a closure]'))
            return [f'-- {src1(st)}', '-- (modifies the converter: outside the modelled fragment when reached from a closure)', 'Res.outside']
        head = [f'-- {src1(st)}']
        self.pre = []
        try:
            if isinstance(st, ast.If):
                return head + self.if_stmt(st, rest, tail)
            if isinstance(st, ast.Match):
                return head + self.match_stmt(st, rest, tail)
            if isinstance(st, ast.Return):
                if self.ret_hook is None:
                    raise TrErr('`return` inside a joined `if`')
                if st.value is None:
                    return head + self.ret_hook(None)
                v = self.val(st.value, self.fi.ret)
                v = self.coerce(v, self.fi.ret if not self.fi.closure_value else ('pat' if self.fi.ret == 'pat' else 'bool'), 'returned value')
                pre = self.pre
                return head + pre + self.ret_hook(v.text)
            if isinstance(st, ast.Raise):
                return head + ['Res.raise']
            if isinstance(st, ast.Continue):
                if self.loop_tail is None:
                    raise TrErr('`continue` outside a loop')
                return head + self.loop_tail()
            self.pending_ret = False
            lines = self.simple(st, rest)
            if self.pending_ret:
                self.pending_ret = False
                if self.ret_hook is None:
                    raise TrErr('`return` inside a loop that is itself inside a loop / joined `if`')
                return head + lines + ['match ret? with', '| some r_ =>'] + self.do_block(self.ret_hook('r_')) + ['| none =>'] + \
                    self.do_block(self.block(rest, tail))
            return head + lines + self.block(rest, tail)
        except TrErr as ex:
            self.mod.problem(self.where, f'line {st.lineno}: {ex}   [{src1(st)}]')
            return head + ['Res.raise  -- PROBLEM']

    def block_mutates_self_header(self, st):
        if isinstance(st, (ast.If, ast.For, ast.While, ast.Match)):
            return False
        return self.block_mutates_self([st])

    def do_block(self, lines):
        return ['  ' + l for l in lines]

    def simple(self, st, rest):
        """a statement that always continues with the next one: the lines that perform it"""
        if isinstance(st, ast.FunctionDef):
            return self.closure_def(st)
        if isinstance(st, ast.Assert):
            c = self.cond(st.test)
            return self.pre + [f'pyAssert {paren(c.text)}' if not c.eff else f'pyAssert (← {c.text})']
        if isinstance(st, ast.AnnAssign):
            if st.value is None:
                return []
            t = ann_type(st.annotation, 'local annotation')
            return self.assign(st.target, st.value, t)
        if isinstance(st, ast.Assign):
            if len(st.targets) != 1:
                raise TrErr('chained assignment')
            return self.assign(st.targets[0], st.value, None)
        if isinstance(st, ast.AugAssign):
            return self.augassign(st)
        if isinstance(st, ast.Expr):
            return self.expr_stmt(st.value)
        if isinstance(st, ast.For):
            return self.for_stmt(st, rest)
        if isinstance(st, ast.While):
            return self.while_stmt(st)
        raise TrErr(f'statement `{src1(st)}`')

    def let(self, name, r, ann=None):
        self.vars[name] = r.ty
        a = f' : {lty(ann)}' if ann is not None else ''
        return f'let {lname(name)}{a} {"←" if r.eff else ":="} {r.text}'

    def field_update(self, obj, field, text):
        return f'let {obj} := {{ {obj} with {field} := {text} }}'

    def assign(self, tgt, value, ann):
        # regular expression objects
        if isinstance(tgt, ast.Name) and isinstance(value, ast.Call) and ast.unparse(value.func) == 're.compile':
            if not (len(value.args) == 1 and isinstance(value.args[0], ast.Constant) and value.args[0].value == '"\\S+"'):
                raise TrErr('regular expression other than "\\S+"')
            self.regex[tgt.id] = True
            return []
        if isinstance(tgt, ast.Name):
            # x = xs.pop()
            if isinstance(value, ast.Call) and isinstance(value.func, ast.Attribute) and value.func.attr == 'pop' and not value.args \
                    and isinstance(value.func.value, ast.Name) and is_list(self.vars.get(value.func.value.id)):
                xs = value.func.value.id
                self.vars[tgt.id] = self.vars[xs][1]
                return [f'let ({lname(xs)}, {lname(tgt.id)}) ← listPop {lname(xs)}']
            if ann is None and isinstance(value, (ast.Tuple, ast.List)) and not value.elts:
                ann = self.vars.get(tgt.id) or self.seen.get(tgt.id)
            r = self.expr(value, ann)
            if ann is not None:
                c = self.coerce(E(r.text, r.ty), ann, f'assignment to `{tgt.id}`')
                r = E(c.text if not r.eff else r.text, ann, r.eff)
                if r.eff and c.text != r.text:
                    raise TrErr(f'assignment to `{tgt.id}`: coercion of a value that can raise')
            return self.pre + [self.let(tgt.id, r)]
        if isinstance(tgt, ast.Tuple):
            if len(tgt.elts) == 2 and isinstance(tgt.elts[0], ast.Name) and isinstance(tgt.elts[1], ast.Starred) and isinstance(tgt.elts[1].value, ast.Name):
                r = self.val(value)
                if not is_list(r.ty):
                    raise TrErr('unpacking of a non-sequence')
                self.vars[tgt.elts[0].id] = r.ty[1]
                self.vars[tgt.elts[1].value.id] = r.ty
                return self.pre + [f'let ({lname(tgt.elts[0].id)}, {lname(tgt.elts[1].value.id)}) ← headRest {paren(r.text)}']
            raise TrErr('tuple assignment of this shape')
        if isinstance(tgt, ast.Attribute) and isinstance(tgt.value, ast.Name) and tgt.value.id == 'self' and 'self' in self.vars:
            ft = FIELDS[self.self_ty].get(tgt.attr)
            if ft is None:
                raise TrErr(f'unknown field `self.{tgt.attr}`')
            r = self.coerce(self.val(value, ft), ft, f'self.{tgt.attr}')
            return self.pre + [self.field_update('self', tgt.attr, r.text)]
        if isinstance(tgt, ast.Subscript):
            d = tgt.value
            k = self.val(tgt.slice)
            key = f'{paren(k.text)}.name' if k.ty == 'term' else k.text
            if k.ty not in ('str', 'mvobj', 'term'):
                raise TrErr(f'key of type {k.ty}')
            if is_self_field(d) and 'self' in self.vars:
                ft = FIELDS[self.self_ty].get(d.attr)
                if ft == 'vardict':
                    v = self.val(value, 'pat')
                    return self.pre + [self.field_update('self', d.attr, f'(← vdSet self.{d.attr} {paren(key)} {paren(v.text)})')]
                if is_dict(ft):
                    v = self.coerce(self.val(value, ft[1]), ft[1], f'self.{d.attr}[..]')
                    return self.pre + [self.field_update('self', d.attr, f'SliceSup.dictSet self.{d.attr} {paren(key)} {paren(v.text)}')]
            raise TrErr(f'assignment to `{src1(tgt)}`')
        raise TrErr(f'assignment to `{src1(tgt)}`')

    def augassign(self, st):
        if not isinstance(st.op, ast.Add):
            raise TrErr('augmented assignment')
        t = st.target
        if isinstance(t, ast.Subscript) and is_self_field(t.value) and 'self' in self.vars:
            ft = FIELDS[self.self_ty].get(t.value.attr)
            k = self.val(t.slice)
            if is_dict(ft) and is_list(ft[1]) and k.ty == 'str':
                v = self.coerce(self.val(st.value, ft[1]), ft[1], 'augmented assignment')
                f = t.value.attr
                return self.pre + [self.field_update('self', f, f'SliceSup.dictSet self.{f} {paren(k.text)} ((← dictGet self.{f} {paren(k.text)}) ++ {v.text})')]
        if isinstance(t, ast.Name) and t.id in self.vars:
            v = self.val(st.value, self.vars[t.id])
            if self.vars[t.id] == 'nat' and v.ty == 'nat':
                return self.pre + [f'let {lname(t.id)} := {lname(t.id)} + {v.text}']
            if is_list(self.vars[t.id]) and v.ty == self.vars[t.id]:
                return self.pre + [f'let {lname(t.id)} := {lname(t.id)} ++ {v.text}']
        raise TrErr(f'augmented assignment `{src1(st)}`')

    def expr_stmt(self, e):
        if isinstance(e, ast.Call) and isinstance(e.func, ast.Attribute) and e.func.attr in MUTATORS:
            m, recv = e.func.attr, e.func.value
            if m == 'append' and isinstance(recv, ast.Subscript) and is_self_field(recv.value) and 'self' in self.vars and len(e.args) == 1:
                f = recv.value.attr
                ft = FIELDS[self.self_ty].get(f)
                k = self.val(recv.slice)
                if is_dict(ft) and is_list(ft[1]) and k.ty == 'str':
                    v = self.coerce(self.val(e.args[0], ft[1][1]), ft[1][1], 'append')
                    return self.pre + [self.field_update('self', f, f'SliceSup.dictSet self.{f} {paren(k.text)} ((← dictGet self.{f} {paren(k.text)}) ++ [{v.text}])')]
            if is_self_field(recv) and 'self' in self.vars:
                ft = FIELDS[self.self_ty].get(recv.attr)
                cur = f'self.{recv.attr}'
                new = self.mutated(cur, ft, m, e.args)
                return self.pre + [self.field_update('self', recv.attr, new)]
            if isinstance(recv, ast.Name) and recv.id in self.vars:
                new = self.mutated(lname(recv.id), self.vars[recv.id], m, e.args)
                return self.pre + [f'let {lname(recv.id)} := {new}']
            raise TrErr(f'`{src1(e)}`: receiver')
        r = self.expr(e)
        if r.eff:
            return self.pre + [f'let _ ← {r.text}']
        if r.text == '()':
            return self.pre
        raise TrErr(f'expression statement `{src1(e)}` without effect')

    def mutated(self, cur, ty, m, args):
        if ty == SET and m == 'add' and len(args) == 1:
            return f'setAdd {cur} {paren(self.coerce(self.val(args[0]), "str", "set.add").text)}'
        if ty == SET and m == 'update' and len(args) == 1:
            v = self.val(args[0])
            if v.ty not in (SET, ('list', 'str')):
                raise TrErr(f'set.update({v.ty})')
            return f'setUnion {cur} {paren(v.text)}'
        if is_list(ty) and m == 'append' and len(args) == 1:
            return f'{cur} ++ [{self.coerce(self.val(args[0], ty[1]), ty[1], "append").text}]'
        if is_list(ty) and m == 'extend' and len(args) == 1:
            return f'{cur} ++ {paren(self.coerce(self.val(args[0], ty), ty, "extend").text)}'
        if is_dict(ty) and m == 'setdefault' and len(args) == 2:
            return f'dictSetDefault {cur} {paren(self.val(args[0]).text)} {paren(self.val(args[1], ty[1]).text)}'
        raise TrErr(f'`.{m}` on type {ty}')

    # ---- compound statements
    def branch(self, stmts, rest, tail, joinvars):
        """a branch of a compound statement: continue with `rest` (duplicated) or, when joining, return the join variables"""
        saved = dict(self.vars)
        try:
            if joinvars is None:
                return self.block(list(stmts) + list(rest), tail)
            hook, self.ret_hook = self.ret_hook, None
            try:
                return self.block(list(stmts), lambda: ['pure ' + tup([lname(v) for v in joinvars])])
            finally:
                self.ret_hook = hook
        finally:
            after = self.vars
            self.vars = saved
            self.branch_vars.append(after)

    def join_plan(self, st, rest):
        """None: the (single) fall-through branch continues with `rest`; else the variables to join over"""
        if not rest or self.fall_leaves(st) <= 1:
            return None
        blocks = sub_blocks(st)
        names = []
        for b in blocks:
            for n in self.assigned(b):
                if n not in names:
                    names.append(n)
        later = self.loads(rest) | ({'self'} if 'self' in self.vars else set())
        if self.loop_vars:
            later |= set(self.loop_vars)
        later |= set(self.fi.caps)
        return [n for n in names if n in later or n in self.vars and n in self.loop_vars]

    def finish_join(self, joinvars, lines, rest, tail):
        # types of the joined variables: from any branch that defined them
        for v in joinvars:
            if v not in self.vars:
                for bv in self.branch_vars:
                    if v in bv:
                        self.vars[v] = bv[v]
                        break
        if joinvars:
            lines = [f'let {tup([lname(v) for v in joinvars])} ←'] + self.do_block(lines)
        else:
            lines = ['let _ ←'] + self.do_block(lines)
        return lines + self.block(rest, tail)

    def if_stmt(self, st, rest, tail):
        joinvars = self.join_plan(st, rest)
        self.branch_vars = []
        brest = rest if joinvars is None else []
        lines = self.if_lines(st, brest, tail, joinvars)
        if joinvars is None:
            return lines
        return self.finish_join(joinvars, lines, rest, tail)

    def if_lines(self, st, rest, tail, joinvars):
        """`if` / `elif` chain in source order"""
        pre = []
        if isinstance(st.test, ast.NamedExpr):
            # `if var := f(..):` with f returning `T | None`
            self.pre = []
            r = self.val(st.test.value)
            if not is_opt(r.ty):
                raise TrErr(f'`:=` of type {r.ty} in a test')
            pre = self.pre
            v = st.test.target.id
            saved = dict(self.vars)
            self.vars[v] = r.ty[1]
            body = self.branch(st.body, rest, tail, joinvars)
            self.vars = saved
            els = self.else_lines(st, rest, tail, joinvars)
            return pre + [f'match {r.text} with', f'| some {lname(v)} =>'] + self.do_block(body) + ['| none =>'] + self.do_block(els)
        t = st.test
        if isinstance(t, ast.Compare) and len(t.ops) == 1 and isinstance(t.ops[0], ast.IsNot) and isinstance(t.left, ast.Name) \
                and isinstance(t.comparators[0], ast.Constant) and t.comparators[0].value is None and is_opt(self.vars.get(t.left.id)):
            v = t.left.id
            saved = dict(self.vars)
            self.vars[v] = saved[v][1]
            body = self.branch(st.body, rest, tail, joinvars)
            self.vars = saved
            els = self.else_lines(st, rest, tail, joinvars)
            return [f'match {lname(v)} with', f'| some {lname(v)} =>'] + self.do_block(body) + ['| none =>'] + self.do_block(els)
        self.pre = []
        c = self.cond(st.test)
        pre = self.pre
        ctext = f'(← {c.text})' if c.eff else c.text
        body = self.branch(st.body, rest, tail, joinvars)
        els = self.else_lines(st, rest, tail, joinvars)
        return pre + [f'if {ctext} then'] + self.do_block(body) + ['else'] + self.do_block(els)

    def else_lines(self, st, rest, tail, joinvars):
        if len(st.orelse) == 1 and isinstance(st.orelse[0], ast.If):
            inner = st.orelse[0]
            if stmt_is_outside(inner):
                return self.branch(st.orelse, rest, tail, joinvars)
            try:
                return [f'-- elif {src1(inner.test)}:'] + self.if_lines(inner, rest, tail, joinvars)
            except TrErr as ex:
                self.mod.problem(self.where, f'line {inner.lineno}: {ex}   [{src1(inner)}]')
                return ['Res.raise  -- PROBLEM']
        if not st.orelse:
            return self.branch([], rest, tail, joinvars)
        return ['-- else:'] + self.branch(st.orelse, rest, tail, joinvars)

    def match_stmt(self, st, rest, tail):
        self.pre = []
        subj = self.val(st.subject)
        pre = self.pre
        joinvars = self.join_plan(st, rest)
        self.branch_vars = []
        brest = rest if joinvars is None else []
        lines = pre + [f'match {subj.text} with']
        has_default = False
        for c in st.cases:
            if c.guard is not None:
                raise TrErr('guarded case')
            p = c.pattern
            saved = dict(self.vars)
            if isinstance(p, ast.MatchAs) and p.pattern is None and p.name is None:
                if subj.ty == 'term' and self.exhaustive(st):
                    lines.append(f'-- case _: {src1(c.body[0])}   (unreachable: `Application` and `Metavariable` are all the terms)')
                    continue
                pat = '_'
                has_default = True
            elif isinstance(p, ast.MatchValue) and subj.ty == 'axtype':
                pat = self.val(p.value).text
            elif isinstance(p, ast.MatchClass) and subj.ty == 'term' and isinstance(p.cls, ast.Name) and not p.kwd_patterns \
                    and all(isinstance(x, ast.MatchAs) and x.pattern is None and x.name for x in p.patterns):
                names = [x.name for x in p.patterns]
                if p.cls.id == 'Application' and len(names) == 2:
                    pat = f'MTerm.app {lname(names[0])} {lname(names[1])}'
                    self.vars[names[0]], self.vars[names[1]] = 'str', ('list', 'term')
                    self.seen[names[0]], self.seen[names[1]] = 'str', ('list', 'term')
                elif p.cls.id == 'Metavariable' and len(names) == 1:
                    pat = f'MTerm.mv {lname(names[0])}'
                    self.vars[names[0]] = 'str'
                else:
                    raise TrErr(f'class pattern `{ast.unparse(p)}`')
            else:
                raise TrErr(f'case `{ast.unparse(p)}`')
            lines.append(f'-- case {ast.unparse(p)}:')
            body = self.branch(c.body, brest, tail, joinvars)
            self.vars = saved
            lines += [f'| {pat} =>'] + self.do_block(body)
        if not has_default and subj.ty != 'term':
            lines += ['| _ =>'] + self.do_block(self.branch([], brest, tail, joinvars))
        if joinvars is None:
            return lines
        return self.finish_join(joinvars, lines, rest, tail)

    def has_return(self, stmts):
        for st in live_walk(stmts):
            if isinstance(st, ast.Return):
                return True
        return False

    def for_stmt(self, st, rest):
        if st.orelse:
            raise TrErr('for/else')
        # the iterable
        it_node = st.iter
        enum = isinstance(it_node, ast.Call) and isinstance(it_node.func, ast.Name) and it_node.func.id == 'enumerate' and len(it_node.args) == 1
        xs = self.val(it_node.args[0] if enum else it_node)
        if xs.ty == SET:
            raise TrErr('`for` over a set (iteration order)')
        if not is_list(xs.ty):
            raise TrErr(f'`for` over type {xs.ty}')
        pre = self.pre
        saved = dict(self.vars)
        if enum:
            if not (isinstance(st.target, ast.Tuple) and len(st.target.elts) == 2 and all(isinstance(x, ast.Name) for x in st.target.elts)):
                raise TrErr('target of `for .. in enumerate(..)`')
            i, x = st.target.elts[0].id, st.target.elts[1].id
            self.vars[i], self.vars[x] = 'nat', xs.ty[1]
            target, iter_text = f'({lname(i)}, {lname(x)})', f'ImpSup.pyEnumerate {paren(xs.text)}'
        elif isinstance(st.target, ast.Name):
            self.vars[st.target.id] = xs.ty[1]
            target, iter_text = lname(st.target.id), xs.text
        else:
            raise TrErr('target of `for`')
        state = [v for v in self.assigned(st.body) if v in saved or v == 'self']
        rets = self.has_return(st.body)
        svars = [lname(v) for v in state]
        full = (['ret?'] if rets else []) + svars
        old = (self.loop_tail, self.ret_hook, self.loop_vars)
        self.loop_vars = state
        self.loop_tail = lambda: ['pure ' + tup((['none'] if rets else []) + svars)]
        if rets:
            self.ret_hook = lambda v: ['pure ' + tup([f'some {paren(v)}'] + svars)]
        else:
            self.ret_hook = None
        try:
            body = self.block(st.body, self.loop_tail)
        finally:
            self.loop_tail, self.ret_hook, self.loop_vars = old
        loopvars_types = dict(self.vars)
        self.vars = saved
        init = tup((['none'] if rets else []) + svars)
        if rets:
            rt = self.fi.ret if not self.fi.closure_value else ('pat' if self.fi.ret == 'pat' else 'bool')
            init = tup([f'(none : Option {paren(lty(rt))})'] + svars)
            body = ['match ret? with', f'| some _ => pure {tup(full)}', '| none =>'] + self.do_block(body)
        lines = pre + [f'let {tup(full)} ← forM\' {paren(iter_text)} {init} fun {tup(full)} {target} => do'] + self.do_block(body)
        if rets:
            self.pending_ret = True
        return lines

    def while_stmt(self, st):
        if st.orelse:
            raise TrErr('while/else')
        state = [v for v in self.assigned(st.body) if v in self.vars or v == 'self']
        if 'self' in state:
            raise TrErr('`while` loop that modifies the converter')
        if self.has_return(st.body):
            raise TrErr('`return` inside `while`')
        saved_pre = self.pre
        self.pre = None
        c = self.cond(st.test)
        self.pre = saved_pre
        if c.eff or c.binds:
            raise TrErr('`while` test that can raise')
        svars = tup([lname(v) for v in state])
        saved = dict(self.vars)
        old = (self.loop_tail, self.ret_hook, self.loop_vars)
        self.loop_vars = state
        self.loop_tail = lambda: ['pure ' + svars]
        self.ret_hook = None
        try:
            body = self.block(st.body, self.loop_tail)
        finally:
            self.loop_tail, self.ret_hook, self.loop_vars = old
        self.vars = saved
        return [f'let {svars} ← whileM (fun {svars} => {c.text}) (fun {svars} => do'] + \
            self.do_block(body[:-1] + [body[-1] + ')']) + [f'  fuel {svars}']

    # ---- nested functions
    def closure_def(self, st):
        fi = self.fi.children.get(st.name) if self.fi.outer is None or True else None
        o = self.fi
        while fi is None and o is not None:
            fi = o.children.get(st.name)
            o = o.outer
        if st.name in OUTSIDE:
            self.mod.outside.append((self.where, f'def {st.name}(..): the whole nested function'))
            return ['-- (outside the modelled fragment)']
        if fi is None:
            raise TrErr(f'nested function `{st.name}` was not collected')
        # a captured local must not be rebound after the definition (Lean captures the value, Python the variable)
        free = {n.id for n in ast.walk(st) if isinstance(n, ast.Name) and isinstance(n.ctx, ast.Load)}
        own = {p for p, _, _ in fi.params} | ({fi.vararg} if fi.vararg else set())
        own |= {n.id for n in ast.walk(st) if isinstance(n, ast.Name) and isinstance(n.ctx, ast.Store)}
        own |= {a.arg for n in ast.walk(st) if isinstance(n, (ast.FunctionDef, ast.Lambda)) for a in n.args.args + ([n.args.vararg] if n.args.vararg else [])}
        for n in ast.walk(self.fi.node):
            if isinstance(n, ast.Name) and isinstance(n.ctx, ast.Store) and n.id in free and n.id not in own and n.id not in fi.caps \
                    and n.lineno > st.end_lineno and self.mod.parent_def(self.fi.node, n) is self.fi.node:
                raise TrErr(f'`{n.id}` is captured by `{st.name}` and assigned again at line {n.lineno}')
        sub = Fn(self.mod, fi, self.ro, outer=self)
        if fi.closure_value:
            sub.vars.pop('self', None)
            kind = 'closure' if fi.ret == 'pat' else 'tcclosure'
            body = sub.function_body()
            self.vars[st.name] = kind
            return [f'let {lname(st.name)} : {lty(kind)} := fun view {lname(fi.vararg)} => do'] + self.do_block(body)
        if fi.vararg:
            raise TrErr(f'nested function `{st.name}` with *{fi.vararg}')
        fi.kind = 'res'
        takes_self = self.uses_self(fi)
        if takes_self and self.self_ty == 'view' and fi.mut_self:
            fi.mut_self_ro = True
        ptypes, pnames = [], []
        if takes_self:
            ptypes.append(lty(self.self_ty)); pnames.append('self')
        for c in fi.caps:
            if c not in self.vars:
                raise TrErr(f'`{st.name}` modifies `{c}`, which is not defined before it')
            ptypes.append(lty(self.vars[c])); pnames.append(lname(c))
        for p, t, _ in fi.params:
            ptypes.append(lty(t)); pnames.append(lname(p))
        sub.ro = self.ro
        outs = ([lty(self.self_ty)] if fi.mut_self and self.self_ty != 'view' else []) + [lty(self.vars[c]) for c in fi.caps] + \
            ([lty(fi.ret)] if fi.ret != 'unit' else [])
        rt = ' × '.join(paren(x) for x in outs) if outs else 'Unit'
        body = sub.function_body()
        self.closures[st.name] = fi
        sig = ' → '.join([paren(x) for x in ptypes] + [f'Res {paren(rt)}'])
        return [f'let {lname(st.name)} : {sig} := fun {" ".join(pnames)} => do'] + self.do_block(body)

    def function_body(self):
        fi = self.fi

        def tail():
            if fi.ret != 'unit' and not (fi.closure_value):
                raise TrErr('the end of the function is reached without `return`')
            if fi.closure_value:
                raise TrErr('the end of a closure is reached without `return`')
            return [self.pack(None)]
        return self.block(fi.body(), tail)


# ---------------------------------------------------------------------------------------------- whole module



def deps(mod, fi):
    out = []

    def add(c):
        if c is not None and c.outer is None and c is not fi and c not in out:
            out.append(c)
    for n in ast.walk(fi.node):
        if isinstance(n, ast.Call):
            f = n.func
            if isinstance(f, ast.Attribute):
                if isinstance(f.value, ast.Name) and f.value.id == 'self' and fi.cls:
                    add(mod.method(fi.cls, f.attr))
                elif isinstance(f.value, ast.Call) and isinstance(f.value.func, ast.Name) and f.value.func.id == 'super':
                    add(mod.by_class.get('Scope', {}).get('__init__'))
                else:
                    add(mod.scope_method(f.attr))
            elif isinstance(f, ast.Name):
                if f.id in ('Scope', 'GlobalScope', 'NotationScope'):
                    add(mod.by_class.get(f.id, {}).get('__init__'))
                elif f.id in mod.funcs and mod.funcs[f.id].cls is None:
                    add(mod.funcs[f.id])
        elif isinstance(n, ast.Attribute) and isinstance(n.value, ast.Name) and n.value.id == 'self' and fi.cls:
            c = mod.method(fi.cls, n.attr)
            if c is not None and c.is_property:
                add(c)
        elif isinstance(n, ast.Attribute):
            c = mod.scope_method(n.attr)
            if c is not None and c.is_property:
                add(c)
    if fi.cls == 'MetamathConverter':
        add(mod.by_class.get('Notation', {}).get('__call__'))
    return out


def toposort(mod):
    order, state = [], {}

    def visit(fi, path):
        if state.get(fi.qual) == 2:
            return
        if state.get(fi.qual) == 1:
            mod.problem(fi.qual, 'mutual recursion: ' + ' -> '.join(p.qual for p in path + [fi]))
            return
        state[fi.qual] = 1
        for d in deps(mod, fi):
            visit(d, path + [fi])
        state[fi.qual] = 2
        order.append(fi)
    for fi in mod.order:
        visit(fi, [])
    return order


def self_recursive(mod, fi):
    for n in ast.walk(fi.node):
        if isinstance(n, ast.Call) and isinstance(n.func, ast.Attribute) and isinstance(n.func.value, ast.Name) \
                and n.func.value.id == 'self' and n.func.attr == fi.name and fi.cls and mod.method(fi.cls, fi.name) is fi:
            return True
    return False


def decide_kinds(mod):
    for fi in mod.funcs.values():
        fi.kind = 'res'
    cands = [fi for fi in mod.order if not fi.mut_self and not fi.recursive and len(fi.body()) == 1
             and isinstance(fi.body()[0], ast.Return) and fi.body()[0].value is not None]
    changed = True
    while changed:
        changed = False
        for fi in cands:
            if fi.kind == 'pure':
                continue
            saved = (list(mod.problems), list(mod.outside), set(mod.need_ro))
            try:
                fn = Fn(mod, fi)
                r = fn.expr(fi.body()[0].value, fi.ret)
                ok = not r.eff and not r.binds and not fn.pre
                if ok:
                    fn.coerce(r, fi.ret, 'result')
            except TrErr:
                ok = False
            mod.problems, mod.outside, mod.need_ro = saved[0], saved[1], saved[2]
            if ok:
                fi.kind = 'pure'
                changed = True


def emit_function(mod, fi, ro=False):
    fn = Fn(mod, fi, ro=ro)
    name = fi.lean + ('_ro' if ro else '')
    loc = f'line {fi.node.lineno}'
    doc = f'/-- `{fi.qual}` ({FILES["converter" if fi.cls == "MetamathConverter" else ("representation" if fi.cls == "Notation" else "scope")]} {loc})' + \
        (': the read-only variant used inside closures' if ro else '') + ' -/'
    params = []
    if fi.self_ty is not None:
        params.append(('self', lty(fn.self_ty)))
    if fi.self_ty == 'notation':
        params.append(('view', 'SelfView'))
    for p, t, _ in fi.params:
        params.append((lname(p), lty(t)))
    if fi.vararg:
        params.append((lname(fi.vararg), 'List NPat'))
    if fi.kind == 'pure':
        r = fn.expr(fi.body()[0].value, fi.ret)
        r = fn.coerce(r, fi.ret, 'result')
        sig = ''.join(f' ({p} : {t})' for p, t in params)
        return [doc, f'def {name} (σ : String → Nat) (fuel : Nat){sig} : {lty(fi.ret)} :=', f'  -- {src1(fi.body()[0])}', f'  {r.text}']
    outs = ([lty(fn.self_ty)] if fi.mut_self and not ro else []) + ([lty(fi.ret)] if fi.ret != 'unit' else [])
    rt = ' × '.join(paren(x) for x in outs) if outs else 'Unit'
    try:
        body = fn.function_body()
    except TrErr as ex:
        mod.problem(fn.where, str(ex))
        body = ['Res.raise  -- PROBLEM']
    if fi.recursive:
        tys = ' → '.join(['Nat'] + [paren(t) for _, t in params] + [f'Res {paren(rt)}'])
        lines = [doc, f'def {name} (σ : String → Nat) : {tys}',
                 '  | 0' + ''.join(', _' for _ in params) + ' => Res.nofuel',
                 '  | fuel + 1' + ''.join(f', {p}' for p, _ in params) + ' => do']
        return lines + ['    ' + l for l in body]
    sig = ''.join(f' ({p} : {t})' for p, t in params)
    return [doc, f'def {name} (σ : String → Nat) (fuel : Nat){sig} : Res {paren(rt)} := do'] + ['  ' + l for l in body]


HEADER = '''import Pi2.ConvSupport
/-! GENERATED by /verif/vlib/transconv.py from `MetamathConverter` (generation/src/proof_generation/metamath/converter/converter.py),
`Scope` / `GlobalScope` / `NotationScope` / `to_notation_scope` (converter/scope.py) and `Notation.__call__` + the dataclasses of
converter/representation.py, statement by statement — do not edit.  `Pi2/MM/ConvTie.lean` proves the generated converter equal to
the specification `Pi2/MM/ConvSpec.lean` on every database of the supported fragment.
`Res`: `.ok` = returns, `.raise` = raises, `.outside` = a path outside the modelled fragment (listed below), `.nofuel` = out of fuel.
Every definition takes `σ` (the numbering of the constants: `Symbol(name)` is `NPat.sym (σ name)`) and `fuel`; a method that
modifies `self` returns the new `self` in front of its result; closures take the converter's `SelfView` at call time.
%s-/
set_option linter.unusedVariables false
namespace Gen.MMConv
open MM SliceSup ConvSup'''


def translate_sources(srcs):
    trees = {k: ast.parse(v) for k, v in srcs.items()}
    mod = Mod(trees)
    mod.need_ro = set()
    lines = []
    # converter/vardict.py is hand-translated (Pi2/ConvSupport.lean: VarDict): any change of its text is a problem
    import hashlib
    import io
    import tokenize
    # fingerprint of the token stream (comments, blank lines and layout do not count; independent of the Python version)
    toks = [(t.type, t.string) for t in tokenize.generate_tokens(io.StringIO(srcs['vardict']).readline)
            if t.type not in (tokenize.COMMENT, tokenize.NL, tokenize.NEWLINE, tokenize.INDENT, tokenize.DEDENT, tokenize.ENDMARKER)]
    vd_hash = hashlib.sha256(''.join(s for _, s in toks).encode()).hexdigest()[:16]   # f-strings are split differently by 3.12
    if vd_hash != VARDICT_HASH:
        mod.problem('vardict.py', f'class VarDict changed (fingerprint {vd_hash}, expected {VARDICT_HASH}): Pi2/ConvSupport.lean models the old text')
    # the enum
    if list(mod.enums) != ['AxiomType']:
        mod.problem('converter.py', f'enums {list(mod.enums)}')
    for en, members in mod.enums.items():
        lines.append(f'/-- the enum `{en}`, members in source order: ' + ', '.join(f'{m} = {v}' for m, v in members) + ' -/')
        lines.append(f'inductive {en} where')
        lines.append('  ' + ' '.join(f'| {m}' for m, _ in members))
        lines.append('deriving DecidableEq, Repr, Inhabited')
    # the dataclasses: field orders are used for positional constructor calls
    for cn, (deco, bases, fields) in mod.dataclasses.items():
        lines.append(f'-- class {cn}({", ".join(bases)}){" @dataclass" if deco else ""}: fields {fields}')
    for fi in mod.funcs.values():
        fi.recursive = fi.outer is None and self_recursive(mod, fi)
    mod.analyse()
    decide_kinds(mod)
    order = toposort(mod)
    done_ro = set()
    for fi in order:
        lines += emit_function(mod, fi)
        # read-only variants needed so far (a later closure may still ask for one: checked at the end)
        if fi.qual in mod.need_ro or fi.cls == 'MetamathConverter' and fi.name in RO_METHODS:
            mod.need_ro.add(fi.qual)
            lines += emit_function(mod, fi, ro=True)
            done_ro.add(fi.qual)
    for q in sorted(mod.need_ro - done_ro):
        mod.problem(q, 'a closure calls this method, but its read-only variant was not generated in time (add it to RO_METHODS)')
    return lines, mod


# methods of the converter that closures call (checked: a closure calling any other method is a problem)
RO_METHODS = ('_resolve', '_is_symbol')
VARDICT_HASH = '8a25ee99f55bafa7'


def gen_mm_conv(src_dir=None, out_dir=None):
    """regenerate Pi2/Gen/MMConv.lean; `src_dir` overrides the directory of converter.py / scope.py / representation.py / vardict.py"""
    src_dir = src_dir or os.path.join(core.PYSRC, *DIR)
    problems, lines, outside, skipped = [], [], [], []
    try:
        srcs = {k: open(os.path.join(src_dir, f)).read() for k, f in FILES.items()}
        lines, mod = translate_sources(srcs)
        problems, outside, skipped = mod.problems, mod.outside, mod.skipped
    except SyntaxError as ex:
        problems = [f'cannot parse: {ex}']
    except Exception as ex:   # noqa
        problems = [f'translator failure {type(ex).__name__}: {ex}']
    problems = ['MMConv: ' + p for p in problems]
    seen, olines = set(), []
    for w, s in outside:
        if (w, s) not in seen:
            seen.add((w, s))
            olines.append(f'  * {w}: `{s}`')
    hdr = 'OUTSIDE THE MODELLED FRAGMENT (`Res.outside`; the tests that lead there are translated):\n' + '\n'.join(olines) + '\n' + \
        'NOT TRANSLATED (not used by translate.py, or translated elsewhere: `_import_proof` is Pi2/Gen/ImportProof.lean): ' + ', '.join(skipped) + \
        '\nconverter/vardict.py (`VarDict`) is modelled by hand in Pi2/ConvSupport.lean; its text is fingerprinted.\n'
    out = [HEADER % hdr] + lines
    out.append(f'def translated : Bool := {"true" if not problems else "false"}')
    for p in problems:
        out.append('-- PROBLEM: ' + p.replace('\n', ' '))
    out.append('end Gen.MMConv')
    from .translate import _write_if_changed, GEN
    _write_if_changed(os.path.join(out_dir or GEN, 'MMConv.lean'), '\n'.join(out) + '\n')
    return problems


if __name__ == '__main__':
    import sys
    print(gen_mm_conv(*sys.argv[1:3]))
