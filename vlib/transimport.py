"""Translator: `MetamathConverter._import_proof` with its closures `parse_lemmas`, `split_proof`, `convert_to_number`
(generation/src/proof_generation/metamath/converter/converter.py, Python `ast`) and the dataclass `Proof`
(converter/representation.py) -> the Lean functions of `Pi2/Gen/ImportProof.lean` (namespace `Gen.ImportProof`), statement by
statement, at the CHARACTER level, regenerated on every run.  `Pi2/MM/ImportTie.lean` proves them equal to the hand-written
token-level model `Pi2/MM/Compressed.lean`.  Target language: the primitives of `Pi2/ImportSupport.lean`.

Conventions
  * `str` -> `List Char` (`Str`); a one-character string that comes out of iterating over a string, and a one-character literal it is
    compared with / a key of a dict literal, is a `Char`.  All integers are naturals (only `+ * pow len enumerate`; `-` is refused).
  * every function returns `Option _` (`none` = the Python code raises) and is written in `do` notation; an operation that can raise
    (`d[k]`, a call of a closure, reading a variable that may be unbound) is bound to a temporary `t<k>` / re-bound before the
    statement it occurs in, in evaluation order.
  * a dict literal of constants assigned once at the top of `_import_proof` becomes a top-level constant; a closure becomes a
    top-level function whose first parameters are the variables of `_import_proof` it reads (`self`, `statement`); a parameter
    that a closure mutates in place (`declared_lemmas[k] = v`) is returned next to the result and re-bound by the caller.
  * `for T in ITER: BODY` -> a function `<f>_for<k>` (the k-th loop of f) by structural recursion on the list: `break` returns the
    state, `continue` / the end of BODY goes on with the rest.  The state = the variables BODY (or the target) assigns that exist
    before the loop, and the loop targets that are read after the loop; the latter as `Option` (`none` = the body never ran;
    reading it afterwards is `← x?`, i.e. `UnboundLocalError`).
  * `if` statements in source order; an `if` that is followed by further statements must end in `break / continue / return`.
  * a `set` may only be tested for membership or iterated inside `sorted(..)`.
Everything that is not recognised is reported as a problem and makes the generated file define `translated := false`."""
from __future__ import annotations

import ast
import os

from . import core

CLOSURES = ['parse_lemmas', 'split_proof', 'convert_to_number']
KEYWORDS = {'include', 'from', 'at', 'end', 'in', 'fun', 'match', 'do', 'then', 'else', 'have', 'show', 'open', 'variable',
            'omit', 'by', 'let', 'if', 'with', 'where', 'instance', 'class', 'structure', 'theorem', 'def', 'section',
            'namespace', 'import', 'export', 'prefix', 'infix', 'notation', 'macro', 'syntax', 'universe', 'mutual', 'local',
            'private', 'protected', 'partial', 'unsafe', 'axiom', 'example', 'abbrev', 'inductive', 'deriving', 'set_option',
            'attribute', 'return', 'for', 'unless', 'try', 'catch', 'finally', 'break', 'continue', 'nomatch', 'nofun', 'type',
            'Type', 'Prop', 'Sort', 'suffices', 'calc', 'using', 'extends', 'mut', 'this', 'pure', 'some', 'none'}
RESERVED = {'it_',           # names the translation introduces (besides t<k>) and names the generated text refers to
            'some', 'none', 'pure', 'dictSet', 'dictGet', 'dictHas', 'dictLen', 'pyAssert', 'pyAssertStr', 'pyHeadRest',
            'pyEnumerate', 'pyEnumerateFrom', 'pySliceFrom', 'pySorted', 'pyIsSpace', 'Proof', 'Str', 'PyDict', 'Nat', 'List',
            'Option', 'Char', 'Bool', 'Converter', 'ProvableStatement', 'translated', 'import_proof', 'decide', 'true', 'false'}

D_INT_STR = ('dict', 'nat', 'str')
ANN = {
    'str': 'str', 'int': 'nat', 'bool': 'bool', 'str | None': ('opt', 'str'),
    'dict[int, str]': D_INT_STR, 'list[int]': ('list', 'nat'), 'list[str]': ('list', 'str'),
    'tuple[dict[int, str], str]': ('pair', D_INT_STR, 'str'),
    'ProvableStatement': 'Stmt', 'Proof': 'Proof',
}
# what `_import_proof` may read of `self` / `statement` (Pi2/ImportSupport.lean)
SELF_ATTRS = {'_floating_patterns': ('list', 'str')}
STMT_ATTRS = {'proof': ('opt', 'str')}
STMT_METHODS = {'get_metavariables': ('set', 'str')}
MUTABLE = ('dict', 'list')


class TrErr(Exception):
    pass


def lname(n, maybe=False):
    n = n + '?' if maybe else n
    return f'«{n}»' if n in KEYWORDS else n


def first_line(node):
    return ast.unparse(node).splitlines()[0][:150]


def lean_char(c):
    if c == "'":
        return "'\\''"
    if c == '\\':
        return "'\\\\'"
    if c == '\n':
        return "'\\n'"
    if c == '\t':
        return "'\\t'"
    if ord(c) < 32 or ord(c) == 127:
        return "(Char.ofNat %d)" % ord(c)
    return "'" + c + "'"


def lean_str(s):
    """a Python string constant as a `List Char`"""
    if not s:
        return '([] : Str)'
    return '[' + ', '.join(lean_char(c) for c in s) + ']'


def lean_ty(t):
    if t == 'str':
        return 'Str'
    if t == 'char':
        return 'Char'
    if t == 'nat':
        return 'Nat'
    if t == 'bool':
        return 'Bool'
    if t == 'Proof':
        return 'Proof'
    if t == 'Stmt':
        return 'ProvableStatement'
    if t == 'Self':
        return 'Converter'
    if isinstance(t, tuple):
        if t[0] == 'opt':
            return f'Option {paren_ty(lean_ty(t[1]))}'
        if t[0] in ('list', 'set', 'iter'):
            if t[1] is None:
                raise TrErr('the element type of an empty container is unknown')
            return f'List {paren_ty(lean_ty(t[1]))}'
        if t[0] == 'dict':
            if t[1] is None:
                raise TrErr('the type of an empty dict is unknown')
            return f'PyDict {paren_ty(lean_ty(t[1]))} {paren_ty(lean_ty(t[2]))}'
        if t[0] == 'pair':
            return f'{paren_ty(lean_ty(t[1]))} × {paren_ty(lean_ty(t[2]))}'
    raise TrErr(f'type {t}')


def paren_ty(s):
    return f'({s})' if ' ' in s else s


def is_kind(t, *kinds):
    return isinstance(t, tuple) and t[0] in kinds


def compatible(t, want):
    """may a value of type t be used where `want` is expected (empty containers take the expected type)"""
    if t == want:
        return True
    if is_kind(t, 'list') and is_kind(want, 'list'):
        return t[1] is None or want[1] is None or compatible(t[1], want[1])
    if is_kind(t, 'dict') and is_kind(want, 'dict'):
        return t[1] is None or want[1] is None or (t[1] == want[1] and compatible(t[2], want[2]))
    if is_kind(t, 'pair') and is_kind(want, 'pair'):
        return compatible(t[1], want[1]) and compatible(t[2], want[2])
    return False


def ann_of(node, what):
    if node is None:
        raise TrErr(f'missing type annotation of {what}')
    u = ast.unparse(node)
    if isinstance(node, ast.Constant) and isinstance(node.value, str):
        u = node.value
    if u not in ANN:
        raise TrErr(f'type annotation `{u}` of {what}')
    return ANN[u]


def atom(s):
    s = s.strip()
    if not s:
        return s
    if (s[0] == '(' and _closes(s, '(', ')')) or (s[0] == '[' and _closes(s, '[', ']')):
        return s
    if s[0] == "'" and s[-1] == "'" and len(s) <= 4:
        return s
    if all(c.isalnum() or c in "_.«»?" for c in s):
        return s
    return f'({s})'


def _closes(s, o, c):
    d, i, n = 0, 0, len(s)
    while i < n:
        ch = s[i]
        if ch == "'" and i + 2 < n and (s[i + 2] == "'" or (s[i + 1] == '\\' and i + 3 < n and s[i + 3] == "'")):
            i += 4 if s[i + 1] == '\\' else 3      # a character literal
            continue
        if ch == o:
            d += 1
        elif ch == c:
            d -= 1
            if d == 0:
                return i == n - 1
        i += 1
    return False


MUTATORS = {'append', 'add', 'update', 'extend', 'pop', 'remove', 'clear', 'insert', 'setdefault', 'sort', 'reverse'}


def root_name(e):
    """x / x.f / x.f.g -> x"""
    while isinstance(e, ast.Attribute):
        e = e.value
    return e.id if isinstance(e, ast.Name) else None


def assigned_names(stmts):
    """names (re)bound or mutated in place by the statements, in order of first occurrence"""
    out = []

    def add(n):
        if n is not None and n not in out:
            out.append(n)

    def target(t):
        if isinstance(t, ast.Name):
            add(t.id)
        elif isinstance(t, (ast.Tuple, ast.List)):
            for x in t.elts:
                target(x)
        elif isinstance(t, ast.Starred):
            target(t.value)
        elif isinstance(t, (ast.Subscript, ast.Attribute)):
            add(root_name(t.value))

    def visit(n):
        if isinstance(n, (ast.FunctionDef, ast.Lambda)):
            return
        if isinstance(n, ast.Assign):
            for t in n.targets:
                target(t)
        elif isinstance(n, (ast.AugAssign, ast.AnnAssign)):
            target(n.target)
        elif isinstance(n, ast.For):
            target(n.target)
        elif isinstance(n, ast.NamedExpr):
            target(n.target)
        elif isinstance(n, ast.Call) and isinstance(n.func, ast.Attribute) and n.func.attr in MUTATORS:
            add(root_name(n.func.value))
        for c in ast.iter_child_nodes(n):
            visit(c)

    for s in stmts:
        visit(s)
    return out


def loads(nodes):
    out = []
    for n in nodes:
        for x in ast.walk(n):
            if isinstance(x, ast.Name) and isinstance(x.ctx, ast.Load) and x.id not in out:
                out.append(x.id)
    return out


def terminal(stmts):
    if not stmts:
        return False
    s = stmts[-1]
    if isinstance(s, (ast.Return, ast.Raise, ast.Continue, ast.Break)):
        return True
    if isinstance(s, ast.If):
        return bool(s.orelse) and terminal(s.body) and terminal(s.orelse)
    return False


def contains(stmts, kinds):
    return any(isinstance(x, kinds) for s in stmts for x in ast.walk(s))


class FInfo:
    def __init__(self, fn):
        self.fn = fn
        self.name = fn.name
        self.params = []        # (name, type)
        self.captures = []      # (name, type): variables of _import_proof the closure reads
        self.ret = None
        self.mut = []           # names of the parameters mutated in place (returned after the result)


class Mod:
    """the translation of `_import_proof`"""

    def __init__(self, fn, proof_fields):
        self.fn = fn
        self.problems = []
        self.consts = {}        # name -> type (top-level dict literals)
        self.infos = {}         # closures
        self.proof_fields = proof_fields   # [(name, type)] in dataclass order
        self.out = []           # lines

    def problem(self, where, line, msg):
        self.problems.append(f'{where}: line {line}: {msg}')


class Fn:
    """translator of one function body (a closure or `_import_proof` itself)"""

    def __init__(self, mod, info, lean_name):
        self.mod = mod
        self.info = info
        self.fn = info.fn
        self.lean_name = lean_name
        self.env = {}               # name -> (kind, type); kind 'def' | 'maybe'
        self.pre = []               # lines hoisted before the statement being translated
        self.no_hoist = 0
        self.tcount = 0
        self.n_for = 0
        self.in_loop = None         # the exits of the loop being translated
        self.aux = []               # loop functions (lists of lines), emitted before the function
        self.frozen = {}            # name -> why it must not be mutated any more
        self.fresh_fields = {}      # variable holding a Proof -> fields initialised by fresh containers
        # the names the Python function binds (parameters, assignment / loop targets), also inside its closures
        self.pynames = {x.id for x in ast.walk(self.fn) if isinstance(x, ast.Name) and isinstance(x.ctx, (ast.Store, ast.Del))} \
            | {a.arg for f in ast.walk(self.fn) if isinstance(f, ast.FunctionDef) for a in f.args.args}

    # ------------------------------------------------------------------ environment
    def bind(self, name, t):
        if name in RESERVED or (name[:1] == 't' and name[1:].isdigit()) or name.endswith('?'):
            raise TrErr(f'the Python name {name} clashes with a name the translation introduces')
        if name in self.mod.consts or name in self.mod.infos:
            raise TrErr(f'{name} shadows a constant / closure of _import_proof')
        self.env[name] = ('def', t)

    def temp(self):
        self.tcount += 1
        return f't{self.tcount}'

    def hoist(self, line):
        if self.no_hoist:
            raise TrErr('an operation that can raise inside a lambda / short-circuit operand: ' + line[:70])
        self.pre.append(line)

    def read(self, name):
        """a variable is read -> (lean term, type)"""
        if name in self.mod.consts:
            return lname(name), self.mod.consts[name]
        if name not in self.env:
            raise TrErr(f'unknown name {name}')
        k, t = self.env[name]
        if k == 'maybe':
            self.hoist(f'let {lname(name)} ← {lname(name, True)}   -- UnboundLocalError if the loop body never ran')
            self.env[name] = ('def', t)
        return lname(name), t

    # ------------------------------------------------------------------ expressions
    def const(self, e, want):
        v = e.value
        if isinstance(v, bool):
            return ('true' if v else 'false'), 'bool'
        if isinstance(v, int) and v >= 0:
            return str(v), 'nat'
        if isinstance(v, str):
            if want == 'char':
                if len(v) != 1:
                    raise TrErr(f'the string literal {v!r} is compared with / used as a single character')
                return lean_char(v), 'char'
            return lean_str(v), 'str'
        raise TrErr('constant ' + ast.unparse(e))

    def expr(self, e, want=None):
        """-> (lean term, type)"""
        if isinstance(e, ast.Constant):
            return self.const(e, want)
        if isinstance(e, ast.Name):
            return self.read(e.id)
        if isinstance(e, ast.JoinedStr):
            parts = []
            for v in e.values:
                if isinstance(v, ast.Constant) and isinstance(v.value, str):
                    parts.append(lean_str(v.value))
                elif isinstance(v, ast.FormattedValue) and v.conversion == -1 and v.format_spec is None:
                    x, t = self.expr(v.value)
                    if t != 'str':
                        raise TrErr(f'formatted value {ast.unparse(v.value)} : {t}')
                    parts.append(atom(x))
                else:
                    raise TrErr('f-string ' + ast.unparse(e))
            return '(' + ' ++ '.join(parts) + ')', 'str'
        if isinstance(e, ast.Dict) and not e.keys:
            return '[]', ('dict', None, None)
        if isinstance(e, ast.List) and not e.elts:
            return '[]', ('list', None)
        if isinstance(e, ast.Tuple) and len(e.elts) == 2 and not any(isinstance(x, ast.Starred) for x in e.elts):
            a, ta = self.expr(e.elts[0])
            b, tb = self.expr(e.elts[1])
            return f'({a}, {b})', ('pair', ta, tb)
        if isinstance(e, ast.Attribute):
            return self.attribute(e)
        if isinstance(e, ast.Subscript):
            return self.subscript(e)
        if isinstance(e, ast.BinOp):
            return self.binop(e)
        if isinstance(e, ast.ListComp):
            return self.comprehension(e, False)
        if isinstance(e, ast.Call):
            return self.call(e)
        if isinstance(e, (ast.Compare, ast.BoolOp)) or (isinstance(e, ast.UnaryOp) and isinstance(e.op, ast.Not)):
            return self.cond(e), 'bool'
        raise TrErr('expression ' + ast.unparse(e)[:80])

    def attribute(self, e):
        o, t = self.expr(e.value)
        if t == 'Self' and e.attr in SELF_ATTRS:
            return f'{atom(o)}.{e.attr}', SELF_ATTRS[e.attr]
        if t == 'Stmt' and e.attr in STMT_ATTRS:
            return f'{atom(o)}.{e.attr}', STMT_ATTRS[e.attr]
        if t == 'Proof':
            for n, ft in self.mod.proof_fields:
                if n == e.attr:
                    return f'{atom(o)}.{n}', ft
        raise TrErr(f'attribute `{ast.unparse(e)}` of a value of type {t}')

    def subscript(self, e):
        v, tv = self.expr(e.value)
        sl = e.slice
        if isinstance(sl, ast.Slice):
            if sl.step is None and sl.lower is not None and sl.upper is None and (tv == 'str' or is_kind(tv, 'list')):
                lo, tlo = self.expr(sl.lower)
                if tlo != 'nat':
                    raise TrErr(f'slice bound {ast.unparse(sl.lower)} : {tlo}')
                return f'pySliceFrom {atom(v)} {atom(lo)}', tv
            raise TrErr('slice ' + ast.unparse(e))
        if is_kind(tv, 'dict'):
            k, tk = self.expr(sl, want=tv[1])
            if tk != tv[1]:
                raise TrErr(f'dictionary key {ast.unparse(sl)} : {tk} (the keys are {tv[1]})')
            t = self.temp()
            self.hoist(f'let {t} ← dictGet {atom(v)} {atom(k)}   -- KeyError')
            return t, tv[2]
        raise TrErr('subscript ' + ast.unparse(e))

    def binop(self, e):
        a, ta = self.expr(e.left)
        b, tb = self.expr(e.right)
        if isinstance(e.op, ast.Add):
            if ta == 'nat' and tb == 'nat':
                return f'({atom(a)} + {atom(b)})', 'nat'
            if ta == 'str' and tb == 'str':
                return f'({atom(a)} ++ {atom(b)})', 'str'
            if ta == 'str' and tb == 'char':
                return f'({atom(a)} ++ [{b}])', 'str'
            if ta == 'char' and tb == 'str':
                return f'({atom(a)} :: {atom(b)})', 'str'
            if is_kind(ta, 'list') and is_kind(tb, 'list') and compatible(tb, ta):
                return f'({atom(a)} ++ {atom(b)})', ta
        if isinstance(e.op, ast.Mult) and ta == 'nat' and tb == 'nat':
            return f'({atom(a)} * {atom(b)})', 'nat'
        if isinstance(e.op, ast.Pow) and ta == 'nat' and tb == 'nat':
            return f'({atom(a)} ^ {atom(b)})', 'nat'
        raise TrErr(f'operation {ast.unparse(e)[:80]} on {ta}, {tb}')

    def comprehension(self, e, in_sorted):
        if len(e.generators) != 1 or e.generators[0].is_async or not isinstance(e.generators[0].target, ast.Name):
            raise TrErr('comprehension ' + ast.unparse(e))
        g = e.generators[0]
        it, tit = self.expr(g.iter)
        if is_kind(tit, 'set'):
            if not in_sorted:
                raise TrErr('iteration over a set outside sorted(..): the iteration order would be observable: ' + ast.unparse(e)[:60])
        elif not is_kind(tit, 'list'):
            raise TrErr(f'comprehension over {ast.unparse(g.iter)} : {tit}')
        var = g.target.id
        saved = dict(self.env)
        self.no_hoist += 1
        try:
            self.bind(var, tit[1])
            res = it
            if g.ifs:
                cs = [atom(self.cond(c)) for c in g.ifs]
                res = f'({atom(res)}.filter fun {lname(var)} => {" && ".join(cs)})'
            same = isinstance(e.elt, ast.Name) and e.elt.id == var
            el, tel = self.expr(e.elt)
        finally:
            self.no_hoist -= 1
            self.env = saved
        if same:
            return res, ('list', tel)
        return f'({atom(res)}.map fun {lname(var)} => {el})', ('list', tel)

    def call_closure(self, info, args):
        """-> (the Option-valued lean call, the argument names of the mutated parameters)"""
        if len(args) != len(info.params):
            raise TrErr(f'call of {info.name} with {len(args)} arguments')
        out = [info.name]
        for cn, ct in info.captures:
            x, t = self.read(cn)
            if t != ct:
                raise TrErr(f'{cn} : {t} captured by {info.name} (expected {ct})')
            out.append(atom(x))
        mutated = []
        for a, (pn, pt) in zip(args, info.params):
            x, t = self.expr(a)
            if not compatible(t, pt):
                raise TrErr(f'argument {ast.unparse(a)} : {t} of {info.name} (expected {pt})')
            if pn in info.mut:
                if not isinstance(a, ast.Name) or a.id not in self.env:
                    raise TrErr(f'{info.name} mutates its parameter {pn}: the argument must be a local variable')
                self.check_mutation(a.id)
                mutated.append(a.id)
            out.append(atom(x))
        return ' '.join(out), mutated

    def call(self, e):
        f = e.func
        if isinstance(f, ast.Name) and f.id == 'Proof':
            return self.proof_ctor(e, None)
        if e.keywords:
            raise TrErr('keyword arguments ' + ast.unparse(e)[:80])
        if isinstance(f, ast.Name):
            n, a = f.id, e.args
            if n in self.env:
                raise TrErr(f'call of the local variable {n}')
            if n in self.mod.infos:
                info = self.mod.infos[n]
                if info.mut:
                    raise TrErr(f'{n} mutates a parameter: its call must be the whole right-hand side of an assignment')
                text, _ = self.call_closure(info, a)
                t = self.temp()
                self.hoist(f'let {t} ← {text}')
                return t, info.ret
            if n == 'len' and len(a) == 1:
                x, t = self.expr(a[0])
                if is_kind(t, 'dict'):
                    return f'(dictLen {atom(x)})', 'nat'
                if t == 'str' or is_kind(t, 'list'):
                    return f'{atom(x)}.length', 'nat'
                raise TrErr(f'len of {t}')
            if n == 'reversed' and len(a) == 1:
                x, t = self.expr(a[0])
                if t == 'str':
                    return f'{atom(x)}.reverse', ('iter', 'char')
                if is_kind(t, 'list'):
                    return f'{atom(x)}.reverse', ('iter', t[1])
                raise TrErr(f'reversed of {t}')
            if n == 'list' and len(a) == 1:
                x, t = self.expr(a[0])
                if t == 'str':
                    return x, ('list', 'char')
                if is_kind(t, 'list', 'iter'):
                    return x, ('list', t[1])
                raise TrErr(f'list(..) of {t}')
            if n == 'sorted' and len(a) == 1:
                if isinstance(a[0], (ast.GeneratorExp, ast.ListComp)):
                    x, t = self.comprehension(a[0], True)
                else:
                    x, t = self.expr(a[0])
                if not (is_kind(t, 'list', 'set') and t[1] == 'str'):
                    raise TrErr(f'sorted(..) of {t}')
                return f'(pySorted {atom(x)})', ('list', 'str')
            if n == 'pow' and len(a) == 2:
                x, tx = self.expr(a[0])
                y, ty = self.expr(a[1])
                if tx == 'nat' and ty == 'nat':
                    return f'({atom(x)} ^ {atom(y)})', 'nat'
                raise TrErr(f'pow of {tx}, {ty}')
            raise TrErr('call ' + ast.unparse(e)[:80])
        if isinstance(f, ast.Attribute):
            m, a = f.attr, e.args
            o, t = self.expr(f.value)
            if t == 'char' and m == 'isspace' and not a:
                return f'(pyIsSpace {atom(o)})', 'bool'
            if t == 'Stmt' and m in STMT_METHODS and not a:
                return f'{atom(o)}.{m}', STMT_METHODS[m]
            raise TrErr(f'method call {ast.unparse(e)[:80]} on {t}')
        raise TrErr('call ' + ast.unparse(e)[:80])

    def proof_ctor(self, e, target):
        """Proof(a, b): positional / keyword arguments in the field order of the dataclass"""
        fields = self.mod.proof_fields
        if not fields:
            raise TrErr('the dataclass Proof was not found')
        slots = [None] * len(fields)
        if len(e.args) > len(fields):
            raise TrErr('Proof(..) with too many arguments')
        for i, a in enumerate(e.args):
            slots[i] = a
        for kw in e.keywords:
            idx = [i for i, (n, _) in enumerate(fields) if n == kw.arg]
            if not idx or slots[idx[0]] is not None:
                raise TrErr('Proof(..) keyword ' + str(kw.arg))
            slots[idx[0]] = kw.value
        if any(s is None for s in slots):
            raise TrErr('Proof(..) with a missing argument')
        args, fresh = [], set()
        for s, (fname, ft) in zip(slots, fields):
            x, t = self.expr(s)
            if not compatible(t, ft):
                raise TrErr(f'argument {ast.unparse(s)} : {t} of Proof.{fname} (expected {ft})')
            if isinstance(s, (ast.List, ast.Dict)):
                fresh.add(fname)
            elif isinstance(s, ast.Name) and is_kind(t, *MUTABLE):
                self.frozen[s.id] = f'it is the field {fname} of a Proof object'
            elif is_kind(t, *MUTABLE):
                raise TrErr(f'Proof.{fname} is initialised by {ast.unparse(s)[:40]} (aliasing cannot be excluded)')
            args.append(atom(x))
        if target is not None:
            self.fresh_fields[target] = fresh
        return '(Proof.mk ' + ' '.join(args) + ')', 'Proof'

    def cond(self, e):
        """truth value of e as a lean Bool term"""
        if isinstance(e, ast.UnaryOp) and isinstance(e.op, ast.Not):
            return f'!{atom(self.cond(e.operand))}'
        if isinstance(e, ast.BoolOp):
            parts = []
            for i, x in enumerate(e.values):
                if i:
                    self.no_hoist += 1
                try:
                    parts.append(atom(self.cond(x)))
                finally:
                    if i:
                        self.no_hoist -= 1
            return '(' + (' && ' if isinstance(e.op, ast.And) else ' || ').join(parts) + ')'
        if isinstance(e, ast.Compare):
            return self.compare(e)
        x, t = self.expr(e)
        if t == 'bool':
            return x
        if t == 'str' or is_kind(t, 'list', 'dict', 'set'):
            return f'!{atom(x)}.isEmpty'
        raise TrErr(f'truth value of {ast.unparse(e)} : {t}')

    def compare(self, e):
        if len(e.ops) != 1:
            raise TrErr('chained comparison ' + ast.unparse(e))
        op, l, r = e.ops[0], e.left, e.comparators[0]
        if isinstance(op, (ast.In, ast.NotIn)):
            c, tc = self.expr(r)
            if is_kind(tc, 'dict'):
                x, tx = self.expr(l, want=tc[1])
                if tx != tc[1]:
                    raise TrErr(f'{ast.unparse(l)} : {tx} in a dict with keys {tc[1]}')
                res = f'dictHas {atom(c)} {atom(x)}'
            elif is_kind(tc, 'list', 'set'):
                x, tx = self.expr(l, want=tc[1])
                if tx != tc[1]:
                    raise TrErr(f'{ast.unparse(l)} : {tx} in a container of {tc[1]}')
                res = f'{atom(c)}.contains {atom(x)}'
            else:
                raise TrErr(f'membership in {ast.unparse(r)} : {tc}')
            return f'({res})' if isinstance(op, ast.In) else f'!({res})'
        # the non-constant side decides whether a string literal is a character
        if isinstance(l, ast.Constant) and not isinstance(r, ast.Constant):
            b, tb = self.expr(r)
            a, ta = self.expr(l, want=tb)
        else:
            a, ta = self.expr(l)
            b, tb = self.expr(r, want=ta)
        if ta != tb:
            raise TrErr(f'comparison {ast.unparse(e)} of {ta} with {tb}')
        if isinstance(op, (ast.Eq, ast.NotEq)):
            if ta not in ('str', 'char', 'nat', 'bool'):
                raise TrErr(f'comparison {ast.unparse(e)} of {ta}')
            return f'({atom(a)} {"==" if isinstance(op, ast.Eq) else "!="} {atom(b)})'
        sym = {ast.Lt: '<', ast.LtE: '≤', ast.Gt: '>', ast.GtE: '≥'}
        if type(op) in sym and ta == 'nat':
            return f'decide ({atom(a)} {sym[type(op)]} {atom(b)})'
        raise TrErr('comparison ' + ast.unparse(e))

    # ------------------------------------------------------------------ statements
    def comment(self, st, pad):
        return [pad + '-- ' + first_line(st)]

    def flush(self, pad):
        out = [pad + l for l in self.pre]
        self.pre = []
        return out

    def block(self, stmts, ind, tail):
        """lines for a statement list; `tail(ind)` = what happens when the list falls through its end"""
        if not stmts:
            return tail(ind)
        st, rest = stmts[0], stmts[1:]
        try:
            return self.stmt(st, rest, ind, tail)
        except TrErr as ex:
            self.pre = []
            self.mod.problem(self.info.name, getattr(st, 'lineno', '?'), str(ex))
            return ['  ' * ind + f'none /- UNTRANSLATED: {first_line(st)[:80]} -/']

    def check_mutation(self, name):
        if name in self.frozen:
            raise TrErr(f'{name} is mutated in place although {self.frozen[name]}')

    def let(self, name, text, t, pad, ann_t=None, arrow=':='):
        if ann_t is not None:
            if not compatible(t, ann_t):
                raise TrErr(f'{name}: value of type {t}, annotation {ann_t}')
            t = ann_t
        asc = ''
        if text == '[]' or ann_t is not None:
            asc = f' : {lean_ty(t)}'
        if name in self.env and self.env[name][0] == 'def' and not compatible(t, self.env[name][1]):
            raise TrErr(f'{name} changes its type from {self.env[name][1]} to {t}')
        self.bind(name, t)
        return [pad + f'let {lname(name)}{asc} {arrow} {text}']

    def stmt(self, st, rest, ind, tail):
        pad = '  ' * ind
        if isinstance(st, ast.Expr) and isinstance(st.value, ast.Constant) and isinstance(st.value.value, str):
            return self.block(rest, ind, tail)
        if isinstance(st, ast.Pass):
            return self.block(rest, ind, tail)
        out = self.comment(st, pad)
        if isinstance(st, ast.If):
            return out + self.if_stmt(st, rest, ind, tail)
        if isinstance(st, ast.For):
            return out + self.for_stmt(st, ind) + self.block(rest, ind, tail)
        if isinstance(st, ast.Return):
            if rest:
                raise TrErr('statements after return')
            if self.in_loop is not None:
                raise TrErr('return inside a for loop')
            return out + self.ret_stmt(st, pad)
        if isinstance(st, ast.Raise):
            if rest:
                raise TrErr('statements after raise')
            return out + [pad + 'none']
        if isinstance(st, (ast.Continue, ast.Break)):
            if rest:
                raise TrErr('statements after continue / break')
            if self.in_loop is None:
                raise TrErr('continue / break outside a loop')
            return out + (self.in_loop['cont'] if isinstance(st, ast.Continue) else self.in_loop['brk'])(ind)
        if isinstance(st, ast.Assert):
            body = self.assert_stmt(st, pad)
            return out + body + self.block(rest, ind, tail)
        if isinstance(st, (ast.Assign, ast.AnnAssign)):
            if isinstance(st, ast.Assign):
                if len(st.targets) != 1:
                    raise TrErr('multiple assignment targets')
                tgt, val, ann = st.targets[0], st.value, None
            else:
                tgt, val, ann = st.target, st.value, st.annotation
                if val is None:
                    raise TrErr('annotation without value')
            body = self.assign(tgt, val, ann, pad)
            return out + body + self.block(rest, ind, tail)
        if isinstance(st, ast.AugAssign):
            body = self.augassign(st, pad)
            return out + body + self.block(rest, ind, tail)
        if isinstance(st, ast.Expr):
            body = self.expr_stmt(st.value, pad)
            return out + body + self.block(rest, ind, tail)
        raise TrErr('statement ' + first_line(st)[:80])

    def ret_stmt(self, st, pad):
        if st.value is None:
            raise TrErr('return without a value')
        x, t = self.expr(st.value)
        if not compatible(t, self.info.ret):
            raise TrErr(f'return value {ast.unparse(st.value)} : {t}, expected {self.info.ret}')
        vals = [x]
        for p in self.info.mut:
            y, _ = self.read(p)
            vals.append(y)
        text = vals[0] if len(vals) == 1 else '(' + ', '.join(vals) + ')'
        return self.flush(pad) + [pad + f'pure {atom(text)}']

    def assert_stmt(self, st, pad):
        t = st.test
        if isinstance(t, ast.Name) and t.id in self.env and self.env[t.id][1] == ('opt', 'str'):
            # `assert s` with s : str | None narrows s to str
            x, _ = self.read(t.id)
            lines = self.flush(pad) + [pad + f'let {lname(t.id)} ← pyAssertStr {x}']
            self.env[t.id] = ('def', 'str')
            return lines
        c = self.cond(t)
        return self.flush(pad) + [pad + f'pyAssert {atom(c)}']

    def assign(self, tgt, val, ann, pad):
        if isinstance(tgt, ast.Name):
            ann_t = ann_of(ann, tgt.id) if ann is not None else None
            if isinstance(val, ast.Name) and val.id in self.env and is_kind(self.env[val.id][1], *MUTABLE):
                self.frozen[val.id] = f'{tgt.id} is a second name of the same object'
                self.frozen[tgt.id] = f'{val.id} is a second name of the same object'
            if isinstance(val, ast.Call) and isinstance(val.func, ast.Name) and val.func.id in self.mod.infos \
                    and self.mod.infos[val.func.id].mut and not val.keywords:
                info = self.mod.infos[val.func.id]
                text, mutated = self.call_closure(info, val.args)
                if ann_t is not None and not compatible(info.ret, ann_t):
                    raise TrErr(f'{tgt.id}: value of type {info.ret}, annotation {ann_t}')
                self.bind(tgt.id, info.ret)
                names = [lname(tgt.id)] + [lname(m) for m in mutated]
                return self.flush(pad) + [pad + f'let ({", ".join(names)}) ← {text}']
            if isinstance(val, ast.Call) and isinstance(val.func, ast.Name) and val.func.id == 'Proof':
                x, t = self.proof_ctor(val, tgt.id)
            else:
                x, t = self.expr(val)
            if is_kind(t, 'iter'):
                raise TrErr('an iterator is stored in a variable (it could be consumed twice)')
            return self.flush(pad) + self.let(tgt.id, x, t, pad, ann_t)
        if isinstance(tgt, ast.Tuple) and len(tgt.elts) == 2 and all(isinstance(x, ast.Name) for x in tgt.elts):
            if ann is not None:
                raise TrErr('annotated unpacking')
            x, t = self.expr(val)
            if not is_kind(t, 'pair'):
                raise TrErr(f'unpacking of {ast.unparse(val)} : {t}')
            a, b = tgt.elts
            self.bind(a.id, t[1])
            self.bind(b.id, t[2])
            return self.flush(pad) + [pad + f'let ({lname(a.id)}, {lname(b.id)}) := {x}']
        if isinstance(tgt, ast.Tuple) and len(tgt.elts) == 2 and isinstance(tgt.elts[0], ast.Name) \
                and isinstance(tgt.elts[1], ast.Starred) and isinstance(tgt.elts[1].value, ast.Name):
            # x, *xs = <list>   (the starred target is a new list)
            x, t = self.expr(val)
            if not is_kind(t, 'list'):
                raise TrErr(f'unpacking of {ast.unparse(val)} : {t}')
            a, b = tgt.elts[0].id, tgt.elts[1].value.id
            lines = self.flush(pad)
            self.bind(a, t[1])
            self.bind(b, t)
            return lines + [pad + f'let ({lname(a)}, {lname(b)}) ← pyHeadRest {atom(x)}   -- ValueError']
        if isinstance(tgt, ast.Subscript) and isinstance(tgt.value, ast.Name) and not isinstance(tgt.slice, ast.Slice):
            d = tgt.value.id
            if ann is not None:
                raise TrErr('annotated item assignment')
            v, tv = self.expr(val)
            dx, td = self.read(d)
            if d not in self.env:
                raise TrErr(f'item assignment to {d}, which is not a local variable')
            if not is_kind(td, 'dict'):
                raise TrErr(f'item assignment to {d} : {td}')
            k, tk = self.expr(tgt.slice, want=td[1])
            if tk != td[1] or not compatible(tv, td[2]):
                raise TrErr(f'{d}[{ast.unparse(tgt.slice)}] = {ast.unparse(val)} : key {tk}, value {tv}')
            self.check_mutation(d)
            return self.flush(pad) + [pad + f'let {lname(d)} := dictSet {lname(d)} {atom(k)} {atom(v)}']
        raise TrErr('assignment target ' + ast.unparse(tgt))

    def augassign(self, st, pad):
        if not isinstance(st.target, ast.Name):
            raise TrErr('augmented assignment target ' + ast.unparse(st.target))
        n = st.target.id
        if n not in self.env:
            raise TrErr(f'unknown name {n}')
        cur, t = self.read(n)
        x, tx = self.expr(st.value)
        if isinstance(st.op, ast.Add):
            if t == 'nat' and tx == 'nat':
                new = f'{cur} + {atom(x)}'
            elif t == 'str' and tx == 'char':
                new = f'{cur} ++ [{x}]'
            elif t == 'str' and tx == 'str':
                new = f'{cur} ++ {atom(x)}'
            elif is_kind(t, 'list') and is_kind(tx, 'list') and compatible(tx, t):
                self.check_mutation(n)          # list += list is in place
                new = f'{cur} ++ {atom(x)}'
            else:
                raise TrErr(f'{n} += {ast.unparse(st.value)} on {t}, {tx}')
        elif isinstance(st.op, ast.Mult) and t == 'nat' and tx == 'nat':
            new = f'{cur} * {atom(x)}'
        else:
            raise TrErr('augmented assignment ' + first_line(st))
        return self.flush(pad) + [pad + f'let {lname(n)} := {new}']

    def expr_stmt(self, e, pad):
        if isinstance(e, ast.Call) and isinstance(e.func, ast.Attribute) and e.func.attr == 'append' and len(e.args) == 1 \
                and not e.keywords:
            obj = e.func.value
            if isinstance(obj, ast.Name) and obj.id in self.env:
                cur, t = self.read(obj.id)
                if not is_kind(t, 'list'):
                    raise TrErr(f'{obj.id}.append on {t}')
                x, tx = self.expr(e.args[0])
                if t[1] is not None and tx != t[1]:
                    raise TrErr(f'{obj.id}.append({ast.unparse(e.args[0])}) : {tx}')
                self.check_mutation(obj.id)
                self.env[obj.id] = ('def', ('list', tx))
                return self.flush(pad) + [pad + f'let {cur} := {cur} ++ [{x}]']
            if isinstance(obj, ast.Attribute) and isinstance(obj.value, ast.Name) and obj.value.id in self.env:
                r = obj.value.id
                cur, t = self.read(r)
                if t == 'Proof':
                    ft = dict(self.mod.proof_fields).get(obj.attr)
                    if not is_kind(ft, 'list'):
                        raise TrErr(f'{r}.{obj.attr}.append')
                    if obj.attr not in self.fresh_fields.get(r, ()):
                        raise TrErr(f'{r}.{obj.attr} is mutated in place, but it is not known to be a fresh list')
                    x, tx = self.expr(e.args[0])
                    if tx != ft[1]:
                        raise TrErr(f'{r}.{obj.attr}.append({ast.unparse(e.args[0])}) : {tx}')
                    return self.flush(pad) + [pad + f'let {cur} := {{ {cur} with {obj.attr} := {cur}.{obj.attr} ++ [{x}] }}']
        raise TrErr('expression statement ' + ast.unparse(e)[:80])

    # ---- if
    def if_stmt(self, st, rest, ind, tail):
        pad = '  ' * ind
        if rest and not terminal(st.body):
            raise TrErr('an if statement whose body falls through to the statements after it')
        c = self.cond(st.test)
        lines = self.flush(pad) + [pad + f'if {c} then do']
        saved = dict(self.env)
        saved_frozen, saved_fresh = dict(self.frozen), dict(self.fresh_fields)
        lines += self.block(list(st.body), ind + 1, tail)
        self.env = dict(saved)
        self.frozen, self.fresh_fields = dict(saved_frozen), dict(saved_fresh)
        lines.append(pad + 'else do')
        # the else branch and the statements after the if are one block (kept at the same indentation)
        lines += self.block(list(st.orelse) + list(rest), ind + 1, tail)
        self.env = saved
        return lines

    # ---- for
    def after(self, st):
        end = st.end_lineno
        return [s for s in ast.walk(self.fn) if isinstance(s, ast.stmt) and s.lineno > end]

    def read_after(self, n, st):
        """is the name n read after the loop `st` without being bound again by the target of a later for loop first?"""
        later = [s for s in self.after(st) if isinstance(s, ast.For) and n in assigned_names([ast.For(
            target=s.target, iter=ast.Constant(0), body=[], orelse=[])])]
        for s in self.after(st):
            for x in ast.walk(s):
                if isinstance(x, ast.Name) and isinstance(x.ctx, ast.Load) and x.id == n:
                    if not any(f.body[0].lineno <= x.lineno <= f.end_lineno for f in later):
                        return True
        return False

    def iter_of(self, e):
        """the iterable of a for loop -> (lean list, element type)"""
        if isinstance(e, ast.Call) and isinstance(e.func, ast.Name) and e.func.id == 'enumerate' and len(e.args) == 1 \
                and not e.keywords:
            x, el = self.iter_of(e.args[0])
            return f'pyEnumerate {atom(x)}', ('pair', 'nat', el)
        x, t = self.expr(e)
        if t == 'str':
            return x, 'char'
        if is_kind(t, 'list', 'iter'):
            if t[1] is None:
                raise TrErr('iteration over an empty list literal')
            return x, t[1]
        if is_kind(t, 'set'):
            raise TrErr('a for loop over a set: the iteration order would be observable')
        raise TrErr(f'iteration over {ast.unparse(e)} : {t}')

    def for_stmt(self, st, ind):
        pad = '  ' * ind
        if st.orelse:
            raise TrErr('for-else')
        if self.in_loop is not None:
            raise TrErr('a for loop inside a for loop')
        if contains(st.body, (ast.Return, ast.For, ast.While, ast.FunctionDef, ast.Lambda)):
            raise TrErr('return / loop / function definition inside a for loop')
        it, el = self.iter_of(st.iter)
        # ---- targets
        if isinstance(st.target, ast.Name):
            targets = [(st.target.id, el)]
            tpat = lname(st.target.id)
        elif isinstance(st.target, ast.Tuple) and len(st.target.elts) == 2 and is_kind(el, 'pair') \
                and all(isinstance(x, ast.Name) for x in st.target.elts):
            a, b = st.target.elts
            if a.id == b.id:
                raise TrErr('loop target ' + ast.unparse(st.target))
            targets = [(a.id, el[1]), (b.id, el[2])]
            tpat = f'({lname(a.id)}, {lname(b.id)})'
        else:
            raise TrErr(f'loop target {ast.unparse(st.target)} over elements of type {el}')
        tnames = [n for n, _ in targets]
        body_assigned = assigned_names(st.body)
        for n in body_assigned:
            if n in tnames:
                raise TrErr(f'the loop target {n} is assigned in the loop body')
            if n in self.mod.consts:
                raise TrErr(f'the constant {n} is assigned')
        assigned = tnames + body_assigned
        # ---- state
        state = []          # (name, type, 'plain' | 'opt')
        for n in assigned:
            if n in self.env and self.env[n][0] == 'def':
                state.append((n, self.env[n][1], 'plain'))
            elif n in tnames:
                if self.read_after(n, st) or n in self.env:
                    state.append((n, dict(targets)[n], 'opt'))
            else:
                if n in self.env:       # may be unbound before the loop: its type is known
                    state.append((n, self.env[n][1], 'opt'))
                elif self.read_after(n, st):
                    raise TrErr(f'{n} is first bound in the body of the loop (not as its target) and read after it')
        if not state:
            raise TrErr('a for loop without any effect on the variables')
        for n, t, _ in state:
            if is_kind(t, 'list', 'dict') and (t[1] is None):
                raise TrErr(f'the element type of {n} is unknown at the loop')
        snames = [n for n, _, _ in state]
        # ---- free variables of the body
        free = []
        for n in loads(st.body):
            if n in assigned or n in self.mod.consts or n in self.mod.infos:
                continue
            if n in self.env:
                x, t = self.read(n)
                free.append((n, t))
        pre = self.flush(pad)
        self.n_for += 1
        name = f'{self.lean_name}_for{self.n_for}'
        # ---- the loop function
        sub = Fn(self.mod, self.info, self.lean_name)
        sub.tcount = self.tcount
        sub.frozen, sub.fresh_fields = dict(self.frozen), dict(self.fresh_fields)
        for n, t in free:
            sub.env[n] = ('def', t)
        for n, t, k in state:
            sub.env[n] = ('def', t) if k == 'plain' else ('maybe', t)
        for n, t in targets:
            sub.bind(n, t)

        def exit_args(s):
            args = []
            for n, t, k in state:
                kind = s.env[n][0] if n in s.env else None
                if k == 'plain':
                    if kind != 'def':
                        raise TrErr(f'{n} may be unbound at the end of the loop body')
                    args.append(lname(n))
                else:
                    args.append(f'(some {lname(n)})' if kind == 'def' else lname(n, True))
            return args

        def cont(i):
            return ['  ' * i + f'{name} ' + ' '.join([lname(n) for n, _ in free] + ['it_'] + exit_args(sub))]

        def brk(i):
            a = exit_args(sub)
            return ['  ' * i + 'pure ' + (a[0] if len(a) == 1 else '(' + ', '.join(a) + ')')]

        sub.in_loop = {'cont': cont, 'brk': brk}
        body = sub.block(list(st.body), 2, cont)
        self.tcount = sub.tcount
        params = ''.join(f' ({lname(n)} : {lean_ty(t)})' for n, t in free)
        sty = [lean_ty(t) if k == 'plain' else f'Option {paren_ty(lean_ty(t))}' for _, t, k in state]
        spat = [lname(n, k == 'opt') for n, _, k in state]
        res_ty = ' × '.join(paren_ty(s) for s in sty)
        lines = [f'/-- the `for` loop at line {st.lineno} of `{self.info.name}` (loop {self.n_for}): `{first_line(st)[:100]}` -/',
                 f'def {name}{params} : List {paren_ty(lean_ty(el))} → ' + ' → '.join(paren_ty(s) for s in sty)
                 + f' → Option {paren_ty(res_ty)}',
                 '  | [], ' + ', '.join(spat) + ' => pure ' + (spat[0] if len(spat) == 1 else '(' + ', '.join(spat) + ')'),
                 f'  | {tpat} :: it_, ' + ', '.join(spat) + ' => do']
        lines += body
        self.aux.append(lines)
        # ---- the call
        args = []
        for n, t, k in state:
            if k == 'plain':
                args.append(lname(n))
            else:
                args.append(lname(n, True) if n in self.env else 'none')
        respat = spat[0] if len(spat) == 1 else '(' + ', '.join(spat) + ')'
        call = pad + f'let {respat} ← {name} ' + ' '.join([lname(n) for n, _ in free] + [atom(it)] + args)
        for n, t, k in state:
            self.env[n] = ('def' if k == 'plain' else 'maybe', t)
        for n in assigned:
            if n not in snames:
                self.env.pop(n, None)
        return pre + [call]

    # ------------------------------------------------------------------ the whole function
    def translate(self, params, doc):
        """params: [(name, type)] including the captured variables"""
        info = self.info
        for n, t in params:
            self.env[n] = ('def', t)
        for n in sorted(self.pynames):
            if n in ('Proof', 'true', 'false'):
                continue            # the class Proof itself; never a variable
            if n in RESERVED or n.endswith('?') or (n[:1] == 't' and n[1:].isdigit()) \
                    or any(n.startswith(c + '_for') for c in CLOSURES + ['import_proof']):
                self.mod.problem(info.name, self.fn.lineno, f'the Python name {n} clashes with a name the translation introduces')
        stmts = [s for s in self.fn.body if not isinstance(s, ast.FunctionDef) and not self.is_const_def(s)]

        def fall_off(i):
            raise TrErr('the end of the function can be reached (implicit `return None`)')

        try:
            body = self.block(stmts, 1, fall_off)
        except TrErr as ex:
            self.mod.problem(info.name, self.fn.lineno, str(ex))
            body = ['  none /- UNTRANSLATED -/']
        rt = lean_ty(info.ret)
        for p in info.mut:
            rt = f'{paren_ty(rt)} × {paren_ty(lean_ty(dict(info.params)[p]))}'
        sig = ''.join(f' ({lname(n)} : {lean_ty(t)})' for n, t in params)
        lines = []
        for a in self.aux:
            lines += a
        lines += [doc, f'def {self.lean_name}{sig} : Option {paren_ty(rt)} := do'] + body
        return lines

    def is_const_def(self, s):
        return isinstance(s, ast.Assign) and len(s.targets) == 1 and isinstance(s.targets[0], ast.Name) \
            and s.targets[0].id in self.mod.consts


# ---------------------------------------------------------------------------------------------- the module
def find_method(tree):
    for c in tree.body:
        if isinstance(c, ast.ClassDef) and c.name == 'MetamathConverter':
            for f in c.body:
                if isinstance(f, ast.FunctionDef) and f.name == '_import_proof':
                    return f
    return None


def proof_dataclass(src):
    """the fields of the dataclass `Proof` of representation.py -> ([(name, type)], problems, line)"""
    tree = ast.parse(src)
    for c in tree.body:
        if isinstance(c, ast.ClassDef) and c.name == 'Proof':
            problems = []
            if c.bases or c.keywords:
                problems.append('Proof has base classes')
            decos = [ast.unparse(d) for d in c.decorator_list]
            if len(decos) != 1 or not decos[0].startswith('dataclass'):
                problems.append(f'Proof is not a plain dataclass: decorators {decos}')
            fields = []
            for s in c.body:
                if isinstance(s, ast.AnnAssign) and isinstance(s.target, ast.Name) and s.value is None:
                    try:
                        fields.append((s.target.id, ann_of(s.annotation, f'field {s.target.id} of Proof')))
                    except TrErr as ex:
                        problems.append(str(ex))
                elif isinstance(s, ast.Expr) and isinstance(s.value, ast.Constant):
                    continue
                else:
                    problems.append(f'Proof: line {s.lineno}: member `{first_line(s)[:60]}` (only plain fields are translated)')
            return fields, problems, c.lineno
    return [], ['class Proof not found in representation.py'], 0


def mutated_params(fn):
    """parameters of fn mutated in place: p[k] = v / p.append(..) / ..."""
    names = [a.arg for a in fn.args.args]
    out = []
    for x in ast.walk(fn):
        n = None
        if isinstance(x, ast.Subscript) and isinstance(x.ctx, (ast.Store, ast.Del)):
            n = root_name(x.value)
        elif isinstance(x, ast.Call) and isinstance(x.func, ast.Attribute) and x.func.attr in MUTATORS:
            n = root_name(x.func.value)
        elif isinstance(x, ast.Attribute) and isinstance(x.ctx, (ast.Store, ast.Del)):
            n = root_name(x.value)
        if n in names and n not in out:
            out.append(n)
    return [n for n in names if n in out]


def translate_source(src, repr_src):
    """-> (lines of the Lean definitions, problems)"""
    tree = ast.parse(src)
    fn = find_method(tree)
    if fn is None:
        return [], ['MetamathConverter._import_proof not found']
    fields, fproblems, fline = proof_dataclass(repr_src)
    mod = Mod(fn, fields)
    mod.problems += fproblems
    lines = []
    if fields:
        lines += [f'/-- the dataclass `Proof` (converter/representation.py line {fline}), fields in declaration order -/',
                  'structure Proof where']
        for n, t in fields:
            try:
                lines.append(f'  {lname(n)} : {lean_ty(t)}')
            except TrErr as ex:
                mod.problems.append(f'Proof.{n}: {ex}')
        lines.append('deriving DecidableEq, Repr')
    # ---- signature of the method
    a = fn.args
    if a.vararg or a.kwarg or a.kwonlyargs or a.posonlyargs or a.defaults or fn.decorator_list or [x.arg for x in a.args] != ['self', 'statement']:
        mod.problems.append('_import_proof: unexpected signature')
    outer = [('self', 'Self')]
    try:
        outer.append(('statement', ann_of(a.args[1].annotation if len(a.args) > 1 else None, 'statement')))
        ret = ann_of(fn.returns, 'the result of _import_proof')
    except TrErr as ex:
        mod.problems.append(f'_import_proof: {ex}')
        return lines, mod.problems
    outer_assigned = assigned_names([s for s in fn.body if not isinstance(s, ast.FunctionDef)])
    inner_assigned = {f.name: assigned_names(f.body) for f in fn.body if isinstance(f, ast.FunctionDef)}
    # ---- constants: NAME = {literal: literal, ..} assigned exactly once at the top level, never mutated
    all_stores = [x.id for x in ast.walk(fn) if isinstance(x, ast.Name) and isinstance(x.ctx, (ast.Store, ast.Del))]
    seen_other = False
    for s in fn.body:
        if isinstance(s, ast.Expr) and isinstance(s.value, ast.Constant) and isinstance(s.value.value, str):
            continue
        if isinstance(s, ast.Assign) and len(s.targets) == 1 and isinstance(s.targets[0], ast.Name) and isinstance(s.value, ast.Dict) \
                and s.value.keys:
            n = s.targets[0].id
            try:
                if seen_other:
                    raise TrErr('a dict literal after the first closure / statement (only the leading ones become constants)')
                if all_stores.count(n) != 1 or any(n in v for v in inner_assigned.values()) or outer_assigned.count(n) != 1 \
                        or n in mutated_anywhere(fn):
                    raise TrErr(f'{n} is assigned or mutated more than once')
                items = []
                for k, v in zip(s.value.keys, s.value.values):
                    if not (isinstance(k, ast.Constant) and isinstance(k.value, str) and len(k.value) == 1):
                        raise TrErr(f'key {ast.unparse(k) if k else "**"} of {n} is not a one-character string literal')
                    if not (isinstance(v, ast.Constant) and isinstance(v.value, int) and not isinstance(v.value, bool) and v.value >= 0):
                        raise TrErr(f'value {ast.unparse(v)} of {n} is not a natural number literal')
                    items.append((k.value, v.value))
                if len({k for k, _ in items}) != len(items):
                    raise TrErr(f'repeated key in the dict literal {n}')
                mod.consts[n] = ('dict', 'char', 'nat')
                lines += [f'/-- the dict literal `{n}` (converter.py line {s.lineno}) -/',
                          f'def {lname(n)} : PyDict Char Nat := [' + ', '.join(f'({lean_char(k)}, {v})' for k, v in items) + ']']
            except TrErr as ex:
                mod.problem('_import_proof', s.lineno, str(ex))
            continue
        seen_other = True
    # ---- closures, in source order
    seen_stmt = False
    for s in fn.body:
        if not isinstance(s, ast.FunctionDef):
            if not (isinstance(s, ast.Expr) and isinstance(s.value, ast.Constant)) and not \
                    (isinstance(s, ast.Assign) and isinstance(s.targets[0], ast.Name) and s.targets[0].id in mod.consts):
                seen_stmt = True
            continue
        try:
            if seen_stmt:
                raise TrErr(f'the closure {s.name} is defined after the first statement of _import_proof')
            if s.name not in CLOSURES:
                raise TrErr(f'unexpected closure {s.name}')
            info = FInfo(s)
            sa = s.args
            if sa.vararg or sa.kwarg or sa.kwonlyargs or sa.posonlyargs or sa.defaults or s.decorator_list:
                raise TrErr('parameter list / decorators of ' + s.name)
            for p in sa.args:
                info.params.append((p.arg, ann_of(p.annotation, f'parameter {p.arg} of {s.name}')))
            info.ret = ann_of(s.returns, f'the result of {s.name}')
            info.mut = mutated_params(s)
            for p in info.mut:
                if not is_kind(dict(info.params)[p], *MUTABLE):
                    raise TrErr(f'{s.name} mutates its parameter {p} : {dict(info.params)[p]}')
            if contains(s.body, (ast.Global, ast.Nonlocal, ast.FunctionDef, ast.Lambda, ast.Yield, ast.YieldFrom, ast.While,
                                 ast.Try, ast.With)):
                raise TrErr(f'{s.name}: nonlocal / nested function / while / try / with')
            local = {p for p, _ in info.params} | set(assigned_names(s.body))
            for n in loads(s.body):
                if n in local or n in mod.consts or n in mod.infos or n == s.name:
                    continue
                if n in dict(outer):
                    if n in outer_assigned or any(n in v for v in inner_assigned.values()):
                        raise TrErr(f'{s.name} reads {n} of _import_proof, which is assigned somewhere')
                    info.captures.append((n, dict(outer)[n]))
            info.captures.sort(key=lambda c: [o for o, _ in outer].index(c[0]))
            f = Fn(mod, info, s.name)
            doc = f'/-- the closure `{s.name}` (converter.py line {s.lineno})' + \
                  (f'; also returns its parameter{"s" if len(info.mut) > 1 else ""} {", ".join(info.mut)}, which it mutates in place'
                   if info.mut else '') + ' -/'
            text = f.translate(info.captures + info.params, doc)
            mod.infos[s.name] = info
            lines += text
        except TrErr as ex:
            mod.problem('_import_proof', s.lineno, str(ex))
            lines.append(f'-- UNTRANSLATED: the closure {s.name}')
    for c in CLOSURES:
        if c not in mod.infos:
            mod.problems.append(f'closure {c} not found / not translated')
    if [c for c in mod.infos] != CLOSURES:
        mod.problems.append(f'the closures are not in the expected order: {list(mod.infos)}')
    # ---- the method itself
    info = FInfo(fn)
    info.params = outer
    info.ret = ret
    if contains([s for s in fn.body if not isinstance(s, ast.FunctionDef)],
                (ast.Global, ast.Nonlocal, ast.Lambda, ast.Yield, ast.YieldFrom, ast.While, ast.Try, ast.With)):
        mod.problems.append('_import_proof: nonlocal / lambda / while / try / with')
    f = Fn(mod, info, 'import_proof')
    try:
        lines += f.translate(outer, f'/-- `MetamathConverter._import_proof` (converter.py line {fn.lineno}) -/')
    except TrErr as ex:
        mod.problems.append(f'_import_proof: {ex}')
    return lines, mod.problems


def mutated_anywhere(fn):
    out = set()
    for x in ast.walk(fn):
        n = None
        if isinstance(x, ast.Subscript) and isinstance(x.ctx, (ast.Store, ast.Del)):
            n = root_name(x.value)
        elif isinstance(x, ast.Call) and isinstance(x.func, ast.Attribute) and x.func.attr in MUTATORS:
            n = root_name(x.func.value)
        if n:
            out.add(n)
    return out


HEADER = '''import Pi2.ImportSupport
/-! GENERATED by /verif/vlib/transimport.py from `MetamathConverter._import_proof` with its closures `parse_lemmas`,
`split_proof`, `convert_to_number` (generation/src/proof_generation/metamath/converter/converter.py) and the dataclass `Proof`
(converter/representation.py), statement by statement, at the character level — do not edit.
`Pi2/MM/ImportTie.lean` proves these equal to the hand-written token-level model `Pi2/MM/Compressed.lean`.
`none` = the Python code raises; a `str` is a `List Char`; every `for` loop is a function of its own (`break` returns, `continue`
goes on with the rest of the list); a variable `x` that may be unbound after a loop is the `Option` `x?`. -/
set_option linter.unusedVariables false
namespace Gen.ImportProof
open ImpSup'''


def gen_import_proof(src_path=None, out_dir=None, repr_path=None):
    """regenerate Pi2/Gen/ImportProof.lean; `src_path` / `out_dir` / `repr_path` override converter.py, the output directory and
    representation.py (default: next to converter.py if there is one, else the one of the repository)"""
    default = os.path.join(core.PYSRC, 'proof_generation/metamath/converter/converter.py')
    src_path = src_path or default
    if repr_path is None:
        repr_path = os.path.join(os.path.dirname(src_path), 'representation.py')
        if not os.path.exists(repr_path):
            repr_path = os.path.join(os.path.dirname(default), 'representation.py')
    try:
        body, problems = translate_source(open(src_path).read(), open(repr_path).read())
    except SyntaxError as ex:
        body, problems = [], [f'cannot parse: {ex}']
    except Exception as ex:   # noqa  (a bug of the translator must not leave a stale generated file behind)
        body, problems = [], [f'translator failure {type(ex).__name__}: {ex}']
    problems = ['ImportProof: ' + p for p in problems]
    lines = [HEADER] + body
    lines.append(f'def translated : Bool := {"true" if not problems else "false"}')
    for p in problems:
        lines.append('-- PROBLEM: ' + p.replace('\n', ' '))
    lines.append('end Gen.ImportProof')
    from .translate import _write_if_changed, GEN
    _write_if_changed(os.path.join(out_dir or GEN, 'ImportProof.lean'), '\n'.join(lines) + '\n')
    return problems


if __name__ == '__main__':
    import sys
    print(gen_import_proof(*sys.argv[1:4]))
