"""Translator: how a `LanguageSemantics` is BUILT from a Kore definition and how LLVM proof hints become rewrite steps (Python `ast`)
-> `Pi2/Gen/PyKDef.lean`, statement by statement, regenerated on every run.  `Pi2/KDefTie.lean` proves the generated functions equal
to the specification `Pi2/KDefSpec.lean` (`sigOfDefinition`, `traceSteps`) on the fragment of one-module definitions.

Sources
  generation/src/proof_generation/k/kore_convertion/language_semantics.py:
      `KSymbol.unwrap_kore_name`, `BuilderScope.__enter__ / __exit__` (once per subclass), the decorator `builder_method`,
      class `KModule` (`__init__`, `__enter__`, `name`, `modules`, `import_module`, `sort`, `hooked_sort`, `_sort`, `symbol`, `equational_rule`,
      `rewrite_rule`, `get_sort`, `get_symbol`, `get_axiom`), class `LanguageSemantics` (`__init__`, `modules`, `main_module`, `__enter__`,
      `is_rewrite_rule`, `is_equational_rule`, `from_kore_definition` with its closure `convert_ksort`, `module`, `get_module`, `get_axiom`,
      `get_sort`, `get_symbol`, `resolve_to_ksymbol`, `count_simplifications`)
  generation/src/proof_generation/k/kore_convertion/rewrite_steps.py: class `RewriteStepExpression` (checked: a record of its four arguments),
      `get_proof_hints`
  generation/src/proof_generation/llvm_proof_hint.py: only the fields of the dataclasses `LLVMRewriteEvent / LLVMRuleEvent / LLVMRewriteTrace`
  harness/py/pyk_stub.py: the fields of the `pyk.kore.syntax` classes

Target language: `Py α = Option (Option α)` (outer `none` = out of fuel, inner `none` = an exception) with the combinators of
`Pi2/InterpSupport.lean`, `Pi2/MatchSupport.lean`, `Pi2/KoreSupport.lean`, `Pi2/KDefSupport.lean`.

Conventions
  * STORE-PASSING.  `KModule` and `itertools.count` objects are references into the store; the one `LanguageSemantics` object and the store
    are the value `h : PyLS` (every Python variable of class `LanguageSemantics` IS the current `h`).  A function whose text reads the store
    takes `h`; a function that changes it returns the new `h` before its result (which functions do is computed from the text).
    `m.f` for a module reference `m` is `getMod h m fun t => … t.f`; `m.f = v` is `setMod`.
  * FUEL.  `KModule.modules / get_sort / get_symbol / get_axiom` recurse through the import graph (which Python does not keep acyclic): they
    are defined by recursion on a fuel argument `n` (`RecursionError` = out of fuel); every function that reaches one takes `n`.
  * SETS.  A `set` of objects is enumerated only through `setIter so` (`so : SetOrder`, a parameter of every function that reaches
    `LanguageSemantics.modules`).
  * `with E as v: BODY` -> `v = E.__enter__()`, BODY, `v.__exit__(None, None, None)`; a `return` inside runs the pending `__exit__`s first.  If
    BODY raises, `__exit__` runs and returns `None`, so the exception propagates (and the objects are dropped with it).
  * `@builder_method` -> the translated wrapper `builder_method <receiver>._parsing <| BODY`.
  * `try: … return …  except ValueError: H` -> `tryExcept BODY H`; accepted only if the text of every function BODY calls raises nothing
    but `ValueError` (explicit `raise ValueError`, subscripts guarded by `in`) and BODY changes nothing before it raises.
  * an `if` whose branch does not return continues with the statements after the `if` (they are repeated in both branches); a conditional
    expression with effects likewise.  `isinstance(x, C)` on a value of a sum type (`kore` sentence, `KSort | KSortVar`, a trace item) is a `match`
    that binds the fields of `C`; on a Kore pattern it is `isK x .C`, and a field of a pattern is `kattr (kattr_<field> x)` (`AttributeError`).
  * a nested `def` is lambda-lifted (its free variables and `h` are passed at the call); a generator is the list of its `yield`s (its consumer
    `from_proof_hints` changes nothing the generator reads, and exceptions are not distinguished).
  * methods of `LanguageSemantics` that `vlib/transkore.py` translates (`_convert_pattern`, `convert_pattern`, `convert_substitutions`) are
    called on the view `semView h`; the cache they change is copied back (`semBack`).
  * `count_simplifications` (not used by the pipeline) is translated too: its closure `count_function_symbol` with `nonlocal` is lambda-lifted, the
    nonlocal variable goes in and comes back; `Pattern.unwrap` is the translation in `Pi2/Gen/PyMatch.lean`.  It is compared with the real
    function on every run (`vlib/try_kdef.py`); only its leaf is tied (`KDefTie.count_function_symbol_eq`).
  * modelling limits: the attribute of a Kore pattern that the model's `KTerm` does not keep (`EVar.sort`) reads as `AttributeError`; exceptions
    are not distinguished (which is why `except ValueError` is only accepted around text that raises nothing else).
Listed in the header, NOT translated (outside the modelled fragment or not on the pipeline): `KModule.sorts / symbols / get_module`,
`LanguageSemantics.sorts / symbols / notations`, `KEquationalRule.requires …`, `BuilderScope.__init__` (never called), the hint classes
`HintEvent / FunEvent / HookEvent`.
Everything that is not recognised is a problem and makes the generated file define `translated := false`."""
from __future__ import annotations

import ast
import os
import re

from . import core
from .transkore import KORE, KEYWORDS, TrErr, indent, wrap, terminates, src1, lname, paren

LS_PATH = ('proof_generation', 'k', 'kore_convertion', 'language_semantics.py')
RS_PATH = ('proof_generation', 'k', 'kore_convertion', 'rewrite_steps.py')
LH_PATH = ('proof_generation', 'llvm_proof_hint.py')

# ---------------------------------------------------------------------------------------------- types
LEAN_TY = {
    'Name': 'Nat', 'Int': 'Nat', 'Bool': 'Bool', 'LS': 'PyLS', 'Mod': 'Nat', 'Cnt': 'Nat', 'ModList': 'List Nat', 'ModSet': 'List Nat',
    'KSortObj': 'PyKSortH', 'KSortVar': 'PyKSortVar', 'SortRef': 'PySortRef', 'SortRefList': 'List PySortRef',
    'KSortVarList': 'List PyKSortVar', 'KSymbol': 'PyKSymbol', 'RwRule': 'PyRule', 'EqRule': 'PyRule', 'Axiom': 'PyAxiom', 'Pat': 'NPat',
    'SymbolP': 'NPat', 'Scope': 'PyScope', 'Dict': 'Dict', 'KSubst': 'KDict KTerm', 'KTerm': 'KTerm', 'KSort': 'KSort',
    'KTermList': 'List KTerm', 'KSortList': 'List KSort', 'Sentence': 'KSentence', 'SentenceList': 'List KSentence',
    'ModuleDef': 'KModuleDef', 'ModuleDefList': 'List KModuleDef', 'Definition': 'KDefinition', 'SortDict': 'KDict PyKSortH',
    'SymDict': 'KDict PyKSymbol', 'AxiomDict': 'KDict PyAxiom', 'ScopeDict': 'KDict PyScope', 'SortVarDict': 'KDict PyKSortVar',
    'NameList': 'List Nat', 'Trace': 'PyLLVMTrace', 'TraceItem': 'PyTraceItem', 'TraceItemList': 'List PyTraceItem',
    'TraceItemPairs': 'List (PyTraceItem × PyTraceItem)', 'SubstPairs': 'List (Nat × KTerm)', 'Hint': 'PyHint', 'HintList': 'List PyHint',
    'NotationSet': 'List PyNotation', 'Unit': 'Unit', 'ModObj': 'PyKModule', 'PatList': 'List NPat',
}
ANN = {
    'str': 'Name', 'int': 'Int', 'bool': 'Bool', 'count': 'Cnt', 'KModule': 'Mod', 'KSort': 'KSortObj', 'KSortVar': 'KSortVar',
    'KSort | KSortVar': 'SortRef', 'tuple[KSortVar, ...]': 'KSortVarList', 'tuple[KSort | KSortVar, ...]': 'SortRefList', 'KSymbol': 'KSymbol',
    'Pattern': 'Pat', 'KRewritingRule': 'RwRule', 'KEquationalRule': 'EqRule', 'KRewritingRule | KEquationalRule': 'Axiom',
    'tuple[KModule, ...]': 'ModList', 'kore.Pattern': 'KTerm', 'kore.Definition': 'Definition', 'LanguageSemantics': 'LS', 'Symbol': 'SymbolP',
    'KSymbol | None': ('Opt', 'KSymbol'), 'str | None': ('Opt', 'Name'), 'None': 'Unit', 'dict[str, KSortVar]': 'SortVarDict',
    'kore.Sort': 'KSort', 'LLVMRewriteTrace': 'Trace', 'Iterator[RewriteStepExpression]': 'HintList', 'dict[str, KSort]': 'SortDict',
    'dict[str, KSymbol]': 'SymDict', 'dict[int, KRewritingRule | KEquationalRule]': 'AxiomDict', 'dict[int, ConvertionScope]': 'ScopeDict',
    'set[Notation]': 'NotationSet', 'dict[int, Pattern]': 'Dict',
}
ELEM = {'ModList': 'Mod', 'ModSet': 'Mod', 'SortRefList': 'SortRef', 'KSortVarList': 'KSortVar', 'KTermList': 'KTerm', 'KSortList': 'KSort',
        'SentenceList': 'Sentence', 'ModuleDefList': 'ModuleDef', 'NameList': 'Name', 'TraceItemList': 'TraceItem', 'HintList': 'Hint',
        'TraceItemPairs': ('Pair', 'TraceItem', 'TraceItem'), 'SubstPairs': ('Pair', 'Name', 'KTerm'), 'PatList': 'Pat'}
LIST_OF = {'Mod': 'ModList', 'SortRef': 'SortRefList', 'KSortVar': 'KSortVarList', 'KTerm': 'KTermList', 'KSort': 'KSortList', 'Name': 'NameList',
           'Hint': 'HintList', 'KSortObj': 'SortRefList'}
DICT_VAL = {'SortDict': 'KSortObj', 'SymDict': 'KSymbol', 'AxiomDict': 'Axiom', 'ScopeDict': 'Scope', 'SortVarDict': 'KSortVar', 'KSubst': 'KTerm'}
DICT_OF = {v: k for k, v in DICT_VAL.items()}

# attributes: type -> attribute -> (Lean projection, type); ('Attr', T) = may be unassigned (`Option`)
MOD_FIELDS = {'_name': 'Name', 'counter': 'Cnt', '_parsing': ('Attr', 'Bool'), '_imported_modules': 'ModList', '_sorts': 'SortDict',
              '_symbols': 'SymDict', '_axioms': 'AxiomDict'}
LS_FIELDS = {'_parsing': ('Attr', 'Bool'), '_imported_modules': 'ModList', '_cached_axiom_scopes': 'ScopeDict', '_inferred_notations': 'NotationSet'}
ATTRS = {
    'KSortObj': {'name': 'Name', 'hooked': 'Bool'}, 'KSortVar': {'name': 'Name'},
    'KSymbol': {'name': 'Name', 'sort_params': 'KSortVarList', 'output_sort': 'SortRef', 'input_sorts': 'SortRefList', 'is_functional': 'Bool',
                'is_ctor': 'Bool', 'is_cell': 'Bool'},
    'RwRule': {'ordinal': 'Int', 'pattern': 'Pat'}, 'EqRule': {'ordinal': 'Int', 'pattern': 'Pat'},
    'ModuleDef': {'name': 'Name', 'sentences': 'SentenceList'}, 'Definition': {'modules': 'ModuleDefList'},
    'Trace': {'initial_config': 'KTerm', 'trace': 'TraceItemList'},
}
# sum types: type -> class text -> (constructor, [(attribute path, type)] | type of the whole payload)
SUMS = {
    'Sentence': {'kore.Import': ('«import»', [('module_name', 'Name')]),
                 'kore.SortDecl': ('sortDecl', [('name', 'Name'), ('hooked', 'Bool')]),
                 'kore.SymbolDecl': ('symbolDecl', [('symbol.name', 'Name'), ('symbol.vars', 'KSortList'), ('param_sorts', 'KSortList'),
                                                    ('sort', 'KSort'), ('attrs', 'KTermList')]),
                 'kore.Axiom': ('«axiom»', [('pattern', 'KTerm')])},
    'SortRef': {'KSort': ('sort', 'KSortObj'), 'KSortVar': ('var', 'KSortVar')},
    'TraceItem': {'LLVMRuleEvent': ('rule', [('rule_ordinal', 'Int'), ('substitution', 'SubstPairs')]), 'kore.Pattern': ('config', 'KTerm')},
}
# what the stub / llvm_proof_hint.py must declare for the tables above
STUB_NEEDS = {'Import': ['module_name'], 'SortDecl': ['name', 'hooked'], 'SymbolDecl': ['symbol', 'param_sorts', 'sort', 'attrs'],
              'Symbol': ['name', 'vars'], 'Axiom': ['pattern'], 'Module': ['name', 'sentences'], 'Definition': ['modules'],
              'SortVar': ['name'], 'SortApp': ['name']}
KCLASSES = list(KORE)     # the classes of Kore patterns in the model
# fields of Kore patterns that the text reads: attribute -> (kind of the result)
KFIELD_TY = {'sort': 'KSort', 'term': 'KTerm', 'ops2': 'KTermList', 'sorts': 'KSortList', 'terms': 'KTermList', 'name': 'Name'}
# functions of Pi2/Gen/PyKore.lean called on the view: method -> (the `def` line that must be there, argument types, result, what it changes)
PYKORE = {
    '_convert_pattern': ('def LanguageSemantics._convert_pattern (self : PySem) (a_scope : PyScope) : KTerm → Py (PyScope × NPat)',
                         ['Scope', 'KTerm'], 'Pat', 'scope'),
    'convert_pattern': ('def LanguageSemantics.convert_pattern (self : PySem) (a_pattern : KTerm) : Py NPat', ['KTerm'], 'Pat', None),
    'convert_substitutions': ('def LanguageSemantics.convert_substitutions (self : PySem) (a_subst : KDict KTerm) (a_axiom_ordinal : Nat) : Py (PySem × Dict)',
                              ['KSubst', 'Int'], 'Dict', 'self'),
}
CTORS = {    # dataclass constructors: class -> (Lean constructor, [field types], result type)
    'KSort': ('PyKSortH.mk', ['Name', 'Bool'], 'KSortObj'), 'KSortVar': ('PyKSortVar.mk', ['Name'], 'KSortVar'),
    'KSymbol': ('PyKSymbol.mk', ['Name', 'KSortVarList', 'SortRef', 'SortRefList', 'Bool', 'Bool', 'Bool'], 'KSymbol'),
    'KRewritingRule': ('PyRule.mk', ['Int', 'Pat'], 'RwRule'), 'KEquationalRule': ('PyRule.mk', ['Int', 'Pat'], 'EqRule'),
    'RewriteStepExpression': ('PyHint.mk', ['Pat', 'Pat', 'Axiom', 'Dict'], 'Hint'),
}
DATACLASS_FIELDS = {'KSort': ['name', 'hooked'], 'KSortVar': ['name'],
                    'KSymbol': ['name', 'sort_params', 'output_sort', 'input_sorts', 'is_functional', 'is_ctor', 'is_cell'],
                    'KRewritingRule': ['ordinal', 'pattern'], 'KEquationalRule': ['ordinal', 'pattern']}
HEAP = '__heap__'
YIELD = '__yield__'


def is_opt(t):
    return isinstance(t, tuple) and t[0] == 'Opt'


def lty(t):
    if is_opt(t):
        return f'Option {paren(lty(t[1]))}'
    if isinstance(t, tuple) and t[0] == 'Attr':
        return f'Option {paren(lty(t[1]))}'
    if isinstance(t, tuple) and t[0] == 'Pair':
        return f'{paren(lty(t[1]))} × {paren(lty(t[2]))}'
    return LEAN_TY[t]


def ann_ty(node, what=''):
    if node is None:
        raise TrErr(f'missing type annotation {what}')
    u = ast.unparse(node)
    if u not in ANN:
        raise TrErr(f'type annotation `{u}` {what}')
    return ANN[u]


class Var:
    def __init__(self, lean, ty):
        self.lean, self.ty = lean, ty


class Sig:
    def __init__(self, lean, params, ret, mut, fuel, so, heap, kind, captured=()):
        self.lean, self.params, self.ret, self.mut, self.fuel, self.so, self.heap, self.kind = lean, params, ret, mut, fuel, so, heap, kind
        self.captured = list(captured)
        self.nonlocals = []


class Fn:
    """translation of one function body"""

    def __init__(self, mod, qual, lean, fn, kind, self_ty, assumed, captured=(), drop_params=False):
        self.nonlocals = [n_ for st_ in ast.walk(fn) if isinstance(st_, ast.Nonlocal) for n_ in st_.names] if kind == 'nested' else []
        self.mod, self.qual, self.lean, self.fn, self.kind, self.self_ty = mod, qual, lean, fn, kind, self_ty
        self.mut, self.fuel, self.so = False, assumed.get('fuel', False), False
        self.assumed = dict(assumed)
        self.recursive = bool(assumed.get('recursive'))
        self.tmp = 0
        self.env, self.params, self.narrow, self.declared = {}, [], {}, {}
        self.rebound, self.loops, self.withs = [], [], []
        self.nested = {}
        self.called = []
        self.aux = []                  # lambda-lifted nested functions (lists of lines), emitted before this function
        self.heap_param = False        # `h` is a parameter (or captured)
        self.self_call = False
        self.captured = list(captured)
        self.generator = any(isinstance(n, (ast.Yield, ast.YieldFrom)) for n in ast.walk(fn))
        a = fn.args
        if a.vararg or a.kwarg or a.posonlyargs:
            raise TrErr('parameter list')
        args = list(a.args)
        defaults = dict(zip([p.arg for p in a.args][len(a.args) - len(a.defaults):], a.defaults))
        for p, d in zip(a.kwonlyargs, a.kw_defaults):
            if d is not None:
                defaults[p.arg] = d
        self.defaults = defaults
        if kind in ('method', 'property'):
            if not args or args[0].arg != 'self':
                raise TrErr('first parameter is not `self`')
            if self_ty == 'Mod':
                self.params.append(('self', 'Mod'))
                self.env['self'] = Var('self', 'Mod')
            else:
                self.env['self'] = Var('h', 'LS')
            self.env[HEAP] = Var('h', 'LS')
            self.heap_param = True
            args = args[1:]
        for nm, ty in captured:
            if nm == HEAP:
                self.env[HEAP] = Var('h', 'LS')
                self.heap_param = True
            elif ty == 'LS':
                self.env[nm] = Var('h', 'LS')
            else:
                self.params.append((nm, ty))
                self.env[nm] = Var(lname('v_', nm), ty)
        if not drop_params:
            for p in args + list(a.kwonlyargs):
                ty = ann_ty(p.annotation, f'of parameter {p.arg}')
                if ty == 'LS':
                    self.env[p.arg] = Var('h', 'LS')
                    self.env[HEAP] = Var('h', 'LS')
                    self.heap_param = True
                    self.params.append((p.arg, 'LS'))
                    continue
                self.params.append((p.arg, ty))
                self.env[p.arg] = Var(lname('a_', p.arg), ty)
        if fn.returns is None:
            raise TrErr('missing type annotation of the result')
        ru = ast.unparse(fn.returns)
        if ru in ('BuilderScope',):
            self.ret = self_ty
        else:
            self.ret = ann_ty(fn.returns, 'of the result')
        if self.generator:
            self.env[YIELD] = Var('yield_', self.ret)
        if self.nonlocals:
            if len(self.nonlocals) != 1 or self.ret != 'Unit' or self.nonlocals[0] not in self.env:
                raise TrErr('a closure with `nonlocal`: one variable, no result')
            self.ret = self.env[self.nonlocals[0]].ty

    # ---- helpers -----------------------------------------------------------------------------
    def fresh(self):
        self.tmp += 1
        return f't{self.tmp}'

    def heap(self):
        if HEAP not in self.env:
            raise TrErr('the store is used before a LanguageSemantics exists')
        return 'h'

    def note(self, pyname):
        if pyname not in self.rebound:
            self.rebound.append(pyname)
        if pyname == HEAP and self.heap_param:
            self.mut = True

    def co(self, v, ty, want):
        if ty == want:
            return v
        if {ty, want} <= {'Name', 'Int'} or {ty, want} <= {'Pat', 'SymbolP'} or {ty, want} <= {'ModList', 'ModSet'} and ty == 'ModList':
            return v
        if ty == 'NoneT' and is_opt(want):
            return 'none'
        if is_opt(want) and not is_opt(ty):
            return f'(some {self.co(v, ty, want[1])})'
        if (ty, want) == ('KSortObj', 'SortRef'):
            return f'(PySortRef.sort {v})'
        if (ty, want) == ('KSortVar', 'SortRef'):
            return f'(PySortRef.var {v})'
        if (ty, want) == ('RwRule', 'Axiom'):
            return f'(PyAxiom.rewriting {v})'
        if (ty, want) == ('EqRule', 'Axiom'):
            return f'(PyAxiom.equational {v})'
        if ty == 'EmptyTuple' and want in ELEM:
            return '[]'
        if ty == 'EmptyDict' and want in DICT_VAL:
            return '[]'
        if ty == 'EmptySet' and want in ('ModSet', 'NotationSet'):
            return '[]'
        raise TrErr(f'a value of type {ty} where {want} is expected: {v}')

    def strlit(self, x):
        return isinstance(x, ast.Constant) and isinstance(x.value, str)

    def block_term(self, lines):
        """the lines of a `Py` term as ONE parenthesised term (a list of lines)"""
        if len(lines) == 1:
            return ['(' + lines[0] + ')']
        return ['('] + indent(lines[:-1]) + indent([lines[-1] + ')'])

    # ---- expressions ---------------------------------------------------------------------------
    def ev_list(self, xs, k, acc=None):
        acc = acc or []
        if not xs:
            return k(acc)
        return self.ev(xs[0], lambda v, ty: self.ev_list(xs[1:], k, acc + [(v, ty)]))

    def try_pure(self, x):
        got = {}

        def k(v, ty):
            got['r'] = (v, ty)
            return []
        save = (self.tmp, dict(self.env), self.mut, list(self.rebound), self.fuel, self.so, self.self_call)
        lines = self.ev(x, k)
        if lines or 'r' not in got:
            self.tmp, self.env, self.mut, self.rebound, self.fuel, self.so, self.self_call = save
            return None
        return got['r']

    def ev_py(self, x):
        """the expression as a term of type `Py T`: (lines, T); it must not change anything"""
        got = {}
        before = list(self.rebound)
        self.rebound = []

        def k(v, ty):
            got['ty'] = ty
            return ['ret ' + v]
        lines = self.ev(x, k)
        if self.rebound:
            raise TrErr(f'an operand that changes {self.rebound}: ' + ast.unparse(x))
        self.rebound = before
        return lines, got.get('ty')

    def ev(self, x, k):
        if isinstance(x, ast.Name):
            if x.id in self.env:
                v = self.env[x.id]
                if v.ty == 'LS':
                    return k(self.heap(), 'LS')
                return k(v.lean, v.ty)
            raise TrErr(f'unknown name {x.id}')
        if isinstance(x, ast.Constant):
            if x.value is None:
                return k('none', 'NoneT')
            if isinstance(x.value, bool):
                return k('true' if x.value else 'false', 'Bool')
            if isinstance(x.value, int):
                return k(str(x.value), 'Int')
            if isinstance(x.value, str):
                return k(f'(strName "{x.value}")', 'StrName')
            raise TrErr('constant ' + ast.unparse(x))
        if isinstance(x, ast.Tuple) and not x.elts:
            return k('[]', 'EmptyTuple')
        if isinstance(x, ast.Dict) and not x.keys:
            return k('[]', 'EmptyDict')
        if isinstance(x, ast.List) and not x.elts:
            return k('[]', 'EmptyTuple')
        if isinstance(x, ast.Tuple) and len(x.elts) == 1:
            def one(v, ty):
                if ty not in LIST_OF:
                    raise TrErr(f'a tuple of a {ty}')
                return k(f'[{v}]', LIST_OF[ty])
            return self.ev(x.elts[0], one)
        if isinstance(x, ast.Attribute):
            return self.ev_attr(x, k)
        if isinstance(x, ast.UnaryOp) and isinstance(x.op, ast.Not):
            return self.ev(x.operand, lambda v, ty: k(f'(!{self.truth(v, ty)})', 'Bool'))
        if isinstance(x, ast.BoolOp):
            return self.ev_boolop(x, k)
        if isinstance(x, ast.Compare) and len(x.ops) == 1:
            return self.ev_compare(x, k)
        if isinstance(x, ast.Subscript):
            return self.ev_subscript(x, k)
        if isinstance(x, ast.BinOp) and isinstance(x.op, ast.Add):
            def add(vs):
                (a, at), (b, bt) = vs
                if at in ('Int', 'Name') and bt == 'Int' and at == 'Int':
                    return k(f'({a} + {b})', 'Int')
                raise TrErr(f'`+` of a {at} and a {bt}: ' + ast.unparse(x))
            return self.ev_list([x.left, x.right], add)
        if isinstance(x, ast.Call):
            return self.ev_call(x, k)
        if isinstance(x, (ast.ListComp, ast.GeneratorExp)):
            return self.ev_comp(x, k)
        if isinstance(x, ast.DictComp):
            return self.ev_dictcomp(x, k)
        raise TrErr('expression ' + ast.unparse(x))

    def truth(self, v, ty):
        if ty == 'Bool':
            return v
        if ty in ELEM:
            return f'(!{v}.isEmpty)'
        raise TrErr(f'truth value of a {ty}')

    def ev_boolop(self, x, k):
        op = 'andB' if isinstance(x.op, ast.And) else 'orB'
        sym = '&&' if isinstance(x.op, ast.And) else '||'
        terms = []
        for o in x.values:
            lines, ty = self.ev_py(o)
            if ty != 'Bool':
                raise TrErr(f'an operand of type {ty} of `and` / `or`: ' + ast.unparse(o))
            terms.append(lines)
        if all(len(t) == 1 for t in terms):
            return k('(' + f' {sym} '.join(t[0][4:] for t in terms) + ')', 'Bool')
        out, names = [], []
        for t in terms:
            b = self.fresh()
            names.append(b)
            bt = self.block_term(t)
            out += [f'let {b} : Py Bool := ' + bt[0]] + bt[1:]
        e = names[-1]
        for b in reversed(names[:-1]):
            e = f'({op} {b} {e})'
        t = self.fresh()
        return out + [f'call {e} fun {t} =>'] + k(t, 'Bool')

    def ev_attr(self, x, k):
        key = ast.unparse(x)
        if key in self.narrow:
            return k(*self.narrow[key])
        recv = x.value

        def got(v, ty):
            if ty == 'Mod':
                if x.attr in MOD_FIELDS:
                    t = self.fresh()
                    return [f'getMod {self.heap()} {v} fun {t} =>'] + k(f'{t}.{x.attr}', MOD_FIELDS[x.attr])
                sig = self.mod.sigs.get(f'KModule.{x.attr}')
                if sig is None and f'KModule.{x.attr}' == self.qual:
                    sig = self.own_sig()
                if sig is not None and sig.kind == 'property':
                    return self.emit_call(sig, [(v, 'Mod')], k)
                raise TrErr(f'attribute {x.attr} of a KModule: ' + key)
            if ty == 'LS':
                if x.attr in LS_FIELDS:
                    return k(f'{self.heap()}.{x.attr}', LS_FIELDS[x.attr])
                sig = self.mod.sigs.get(f'LanguageSemantics.{x.attr}')
                if sig is not None and sig.kind == 'property':
                    return self.emit_call(sig, [], k)
                raise TrErr(f'attribute {x.attr} of a LanguageSemantics: ' + key)
            if ty in ATTRS and x.attr in ATTRS[ty]:
                return k(f'{v}.{x.attr}', ATTRS[ty][x.attr])
            if ty == 'KSort' and x.attr == 'name':
                return k(f'(sortName {v})', 'Name')
            if ty == 'SymbolP' and x.attr == 'name':
                t = self.fresh()
                return [f'symName {v} fun {t} =>'] + k(t, 'SymName')
            if ty == 'KTerm' and x.attr in self.mod.kfields:
                t = self.fresh()
                return [f'kattr (kattr_{x.attr} {v}) fun {t} =>'] + k(t, self.mod.kfields[x.attr])
            raise TrErr(f'attribute {x.attr} of a {ty}: ' + key)
        return self.ev(recv, got)

    def ev_compare(self, x, k):
        op = x.ops[0]
        l, r = x.left, x.comparators[0]
        if isinstance(op, (ast.In, ast.NotIn)) and isinstance(r, ast.GeneratorExp):
            r = ast.ListComp(r.elt, r.generators)

        def cmp(vs):
            (a, at), (b, bt) = vs
            if isinstance(op, (ast.In, ast.NotIn)):
                if at in ('Name', 'Int') and bt in DICT_VAL:
                    t = f'(kHas {b} {a})'
                elif bt in ELEM and (ELEM[bt] == at or (at == 'StrName' and bt == 'NameList')):
                    t = f'({b}.contains {a})'
                else:
                    raise TrErr(f'`in` of a {at} in a {bt}: ' + ast.unparse(x))
                return k(t if isinstance(op, ast.In) else f'(!{t})', 'Bool')
            if isinstance(op, (ast.Eq, ast.NotEq)):
                if at == bt and at in ('Int', 'Name', 'KSortObj', 'KSortVar', 'SortRef', 'Bool') or {at, bt} <= {'Int', 'Name'}:
                    return k(f'({a} {"==" if isinstance(op, ast.Eq) else "!="} {b})', 'Bool')
            if isinstance(op, ast.Gt) and at == 'Int' and bt == 'Int':
                return k(f'(decide ({a} > {b}))', 'Bool')
            raise TrErr(f'comparison of a {at} with a {bt}: ' + ast.unparse(x))
        return self.ev_list([l, r], cmp)

    def ev_subscript(self, x, k):
        sl = x.slice
        if isinstance(sl, ast.Slice):
            if sl.upper is None and sl.step is None and isinstance(sl.lower, ast.Constant) and isinstance(sl.lower.value, int) and sl.lower.value >= 0:
                def dr(v, ty):
                    if ty not in ELEM:
                        raise TrErr(f'a slice of a {ty}')
                    return k(f'({v}.drop {sl.lower.value})', ty)
                return self.ev(x.value, dr)
            raise TrErr('slice ' + ast.unparse(x))
        if isinstance(sl, ast.UnaryOp) and isinstance(sl.op, ast.USub) and isinstance(sl.operand, ast.Constant) and sl.operand.value == 1:
            def last(v, ty):
                if ty not in ELEM:
                    raise TrErr(f'[-1] of a {ty}')
                t = self.fresh()
                return [f'lastOf {v} fun {t} =>'] + k(t, ELEM[ty])
            return self.ev(x.value, last)

        def sub(vs):
            (v, ty), (i, ity) = vs
            t = self.fresh()
            if ty in DICT_VAL and ity in ('Name', 'Int'):
                return [f'kGet {v} {i} fun {t} =>'] + k(t, DICT_VAL[ty])
            if ty in ELEM and ity == 'Int':
                return [f'listIndex {v} {i} fun {t} =>'] + k(t, ELEM[ty])
            raise TrErr(f'subscript of a {ty} by a {ity}: ' + ast.unparse(x))
        return self.ev_list([x.value, sl], sub)

    def comp_parts(self, x):
        if len(x.generators) != 1:
            raise TrErr('comprehension ' + ast.unparse(x))
        g = x.generators[0]
        if g.is_async or not isinstance(g.target, ast.Name) or len(g.ifs) > 1:
            raise TrErr('comprehension ' + ast.unparse(x))
        return g

    def ev_comp(self, x, k):
        g = self.comp_parts(x)

        def over(it, ity):
            if ity not in ELEM or isinstance(ELEM[ity], tuple):
                raise TrErr(f'comprehension over a {ity}: ' + ast.unparse(x))
            var, lv = g.target.id, lname('v_', g.target.id)
            save_env, save_n = dict(self.env), dict(self.narrow)
            try:
                self.env[var] = Var(lv, ELEM[ity])
                if g.ifs:
                    # [E for v in xs if isinstance(v, kore.C)]
                    c = g.ifs[0]
                    if not (isinstance(c, ast.Call) and ast.unparse(c.func) == 'isinstance' and len(c.args) == 2 and ast.unparse(c.args[0]) == var
                            and ELEM[ity] == 'KTerm' and ast.unparse(c.args[1]).startswith('kore.') and ast.unparse(c.args[1])[5:] in KORE):
                        raise TrErr('the condition of a comprehension: ' + ast.unparse(x))
                    ctor, fields = KORE[ast.unparse(c.args[1])[5:]]
                    if self.mod.stub_fields.get(ast.unparse(c.args[1])[5:]) != [f for f, _ in fields]:
                        raise TrErr(f'the fields of {ast.unparse(c.args[1])} in the stub')
                    binds = []
                    for f, kind in fields:
                        if kind is None:
                            continue
                        if kind == 'ops2':
                            binds += ['_', '_']
                            continue
                        binds.append('b_' + f)
                        self.narrow[f'{var}.{f}'] = ('b_' + f, KFIELD_TY[kind])
                    p = self.try_pure(x.elt)
                    if p is None or p[1] not in LIST_OF:
                        raise TrErr('the element of a filtering comprehension: ' + ast.unparse(x))
                    for n_ in ast.walk(x.elt):
                        if isinstance(n_, ast.Name) and n_.id != var:
                            raise TrErr(f'the element of a filtering comprehension reads {n_.id}: ' + ast.unparse(x))
                    name = f'{self.lean}.comp{1 + sum(1 for a_ in self.aux if len(a_) > 1 and ".comp" in a_[1].split("(")[0])}'
                    self.aux.append([f'/-- the comprehension `{ast.unparse(x)}` of `{self.qual}` (line {x.lineno}): the element for `{var}`, `none` if the condition fails -/',
                                     f'def {name} ({lv} : {lty(ELEM[ity])}) : Option {paren(lty(p[1]))} :=',
                                     f'  match {lv} with', f'  | .{ctor} {" ".join(binds)} => some {p[0]}', '  | _ => none'])
                    return k(f'({it}.filterMap {name})', LIST_OF[p[1]])
                p = self.try_pure(x.elt)
                if p is not None:
                    if p[1] not in LIST_OF:
                        raise TrErr(f'a list of {p[1]}')
                    return k(f'({it}.map fun {lv} => {p[0]})', LIST_OF[p[1]])
                lines, ety = self.ev_py(x.elt)
                if ety not in LIST_OF:
                    raise TrErr(f'a list of {ety}')
                t = self.fresh()
                self.env, self.narrow = save_env, save_n
                return wrap(f'mapPy {it}', [f'fun {lv} =>'] + lines, f' fun {t} =>') + k(t, LIST_OF[ety])
            finally:
                self.env, self.narrow = save_env, save_n
        return self.ev(g.iter, over)

    def ev_dictcomp(self, x, k):
        g = self.comp_parts(x)
        if g.ifs:
            raise TrErr('comprehension ' + ast.unparse(x))

        def over(it, ity):
            if ity not in ELEM:
                raise TrErr(f'comprehension over a {ity}: ' + ast.unparse(x))
            var, lv = g.target.id, lname('v_', g.target.id)
            save_env = dict(self.env)
            self.env[var] = Var(lv, ELEM[ity])
            try:
                pk, pv = self.try_pure(x.key), self.try_pure(x.value)
            finally:
                self.env = save_env
            if pk is None or pv is None or pk[1] not in ('Name', 'Int') or pv[1] not in DICT_OF:
                raise TrErr('dictionary comprehension ' + ast.unparse(x))
            return k(f'(kDictOf ({it}.map fun {lv} => ({pk[0]}, {pv[0]})))', DICT_OF[pv[1]])
        return self.ev(g.iter, over)

    # ---- calls -------------------------------------------------------------------------------
    def own_sig(self):
        self.self_call = True
        return Sig(self.lean, self.params, self.ret, self.assumed.get('mut', False), True, self.assumed.get('so', False), self.heap_param, self.kind,
                   self.captured)

    def sig_of(self, qual):
        if qual == self.qual:
            return self.own_sig()
        return self.mod.sigs.get(qual)

    def emit_call(self, sig, vals, k):
        if len(vals) != len(sig.params):
            raise TrErr(f'{sig.lean}: {len(vals)} arguments for {len(sig.params)} parameters')
        parts = [sig.lean]
        self.called.append(sig.lean)
        if sig.so:
            self.so = True
            parts.append('so')
        if sig.fuel:
            self.fuel = True
            parts.append('n')
        if sig.heap:
            parts.append(self.heap())
        for (v, ty), (p, pty) in zip(vals, sig.params):
            if pty == 'LS':
                if ty != 'LS':
                    raise TrErr(f'{sig.lean}: a {ty} where the LanguageSemantics is expected')
                continue
            parts.append(self.co(v, ty, pty))
        returns_h = sig.heap and (sig.mut or sig.ret == 'LS')
        if returns_h:
            self.note(HEAP)
        head = ' '.join(parts)
        if sig.nonlocals:
            nm = sig.nonlocals[0]
            self.note(nm)
            return [f'call ({head}) fun {self.env[nm].lean} =>'] + k('()', 'Unit')
        if sig.ret in ('Unit', 'LS'):
            if returns_h:
                return [f'call ({head}) fun h =>'] + k('h' if sig.ret == 'LS' else '()', sig.ret)
            t = self.fresh()
            return [f'call ({head}) fun {t} =>'] + k('()', 'Unit')
        t = self.fresh()
        return [f'call ({head}) fun {"(h, " + t + ")" if returns_h else t} =>'] + k(t, sig.ret)

    def bind_args(self, sig, x, skip):
        """argument expressions of the call `x` for the parameters of `sig` after the first `skip` ones (defaults filled in)"""
        names = [p for p, _ in sig.params][skip:]
        if len(x.args) > len(names) or any(isinstance(a, ast.Starred) for a in x.args):
            raise TrErr('arguments of ' + ast.unparse(x))
        given = dict(zip(names, x.args))
        for kw in x.keywords:
            if kw.arg is None or kw.arg not in names or kw.arg in given:
                raise TrErr('keyword argument: ' + ast.unparse(x))
            given[kw.arg] = kw.value
        out = []
        for p in names:
            if p in given:
                out.append(given[p])
            elif p in getattr(sig, 'defaults', {}):
                out.append(sig.defaults[p])
            else:
                raise TrErr(f'no argument for the parameter {p}: ' + ast.unparse(x))
        return out

    def call_sig(self, sig, recv_val, x, k):
        skip = 1 if recv_val is not None else 0
        ncap = len(sig.captured) if sig.kind == 'nested' else 0
        capvals = []
        if sig.kind == 'nested':
            for nm, ty in sig.captured:
                if nm != HEAP and ty != 'LS':
                    capvals.append((self.env[nm].lean, self.env[nm].ty))
            ncap = len(capvals)
        nodes = self.bind_args(sig, x, skip + ncap)
        return self.ev_list(nodes, lambda vs: self.emit_call(sig, ([recv_val] if recv_val is not None else []) + capvals + vs, k))

    def ev_call(self, x, k):
        f = x.func
        if isinstance(f, ast.Name) and f.id not in self.env:
            return self.ev_call_name(x, f.id, k)
        if not isinstance(f, ast.Attribute):
            raise TrErr('call ' + ast.unparse(x))
        recv = f.value
        fu = ast.unparse(f)
        if fu == 'dict.fromkeys' and len(x.args) == 1 and not x.keywords:
            def fk(v, ty):
                if ty == 'ModList':
                    return k(f'(fromkeys {v})', 'ModList')
                if ty == 'ModSet':
                    self.so = True
                    return k(f'(fromkeys (setIter so {v}))', 'ModList')
                raise TrErr(f'dict.fromkeys of a {ty}')
            return self.ev(x.args[0], fk)
        if isinstance(recv, ast.Name) and recv.id == 'kore' and 'kore' not in self.env:
            if f.attr not in KORE:
                raise TrErr(f'kore.{f.attr}(..): not a class of the modelled fragment')
            ctor, fields = KORE[f.attr]
            if self.mod.stub_fields.get(f.attr) != [n for n, _ in fields] or x.keywords or len(x.args) != len(fields):
                raise TrErr('arguments of ' + ast.unparse(x))

            def mk(vs):
                args = []
                for (v, ty), (fn_, kind) in zip(vs, fields):
                    if kind is None or kind == 'ops2' or KFIELD_TY[kind] != ty:
                        raise TrErr(f'the argument `{fn_}` of {ast.unparse(x)} is a {ty}')
                    args.append(v)
                return k(f'(KTerm.{ctor} {" ".join(args)})', 'KTerm')
            return self.ev_list(list(x.args), mk)
        if isinstance(recv, ast.Call) and ast.unparse(recv) == 'super()':
            sig = self.sig_of(f'BuilderScope.{f.attr}.{self.mod.class_of_ty[self.self_ty]}')
            if sig is None or x.args or x.keywords:
                raise TrErr('call ' + ast.unparse(x))
            return self.emit_call(sig, [('self', 'Mod')] if self.self_ty == 'Mod' else [], k)
        if fu == 'Pattern.unwrap' and len(x.args) == 1 and not x.keywords and 'Pattern' not in self.env:
            if 'def Pattern.unwrap (cls : PyClass) : Nat → NPat → Py (Option (List NPat))' not in self.mod.pymatch_text:
                raise TrErr('Pattern.unwrap is not translated in Pi2/Gen/PyMatch.lean')

            def unw(v, ty):
                if ty not in ('Pat', 'SymbolP'):
                    raise TrErr('call ' + ast.unparse(x))
                self.fuel = True
                t = self.fresh()
                return [f'call (Gen.PyMatch.Pattern.unwrap PyClass.Pattern n {v}) fun {t} =>'] + k(t, ('Opt', 'PatList'))
            return self.ev(x.args[0], unw)
        if isinstance(recv, ast.Name) and recv.id in self.mod.classes and recv.id not in self.env:
            sig = self.sig_of(f'{recv.id}.{f.attr}')
            if sig is None or sig.kind != 'static':
                raise TrErr(f'call of {fu}, which is not a translated static method')
            return self.call_sig(sig, None, x, k)

        def with_recv(v, ty):
            if ty in ('Mod', 'LS'):
                cls = 'KModule' if ty == 'Mod' else 'LanguageSemantics'
                sig = self.sig_of(f'{cls}.{f.attr}')
                if sig is not None and sig.kind == 'method':
                    return self.call_sig(sig, (v, ty) if ty == 'Mod' else None, x, k) if ty == 'Mod' else self.call_sig_ls(sig, x, k)
                if sig is not None and sig.kind == 'static':
                    return self.call_sig(sig, None, x, k)
                if ty == 'LS' and f.attr in PYKORE:
                    return self.pykore_call(f.attr, x, k)
                raise TrErr(f'call of {f.attr} of a {cls}, which is not translated: ' + ast.unparse(x))
            if ty == 'Dict' and f.attr == 'values' and not x.args and not x.keywords:
                return k(f'(deltaValues {v})', 'PatList')
            if ty == 'SymName' and f.attr in ('startswith', 'removeprefix') and len(x.args) == 1 and self.strlit(x.args[0]) and not x.keywords:
                lit = x.args[0].value
                if f.attr == 'startswith':
                    return k(f'(nameStartsWith {v} "{lit}")', 'Bool')
                return k(f'(nameRemovePrefix {v} "{lit}")', 'Name')
            raise TrErr(f'call of {f.attr} of a {ty}: ' + ast.unparse(x))
        return self.ev(recv, with_recv)

    def call_sig_ls(self, sig, x, k):
        nodes = self.bind_args(sig, x, 0)
        return self.ev_list(nodes, lambda vs: self.emit_call(sig, vs, k))

    def pykore_call(self, name, x, k):
        line, argtys, rty, changes = PYKORE[name]
        if line not in self.mod.pykore_text:
            raise TrErr(f'Pi2/Gen/PyKore.lean does not define `{line}`')
        if x.keywords or len(x.args) != len(argtys):
            raise TrErr('arguments of ' + ast.unparse(x))

        def done(vs):
            args = ' '.join(self.co(v, ty, want) for (v, ty), want in zip(vs, argtys))
            head = f'Gen.PyKore.LanguageSemantics.{name} (semView {self.heap()}) {args}'
            t = self.fresh()
            if changes == 'scope':
                a = x.args[0]
                if not (isinstance(a, ast.Name) and a.id in self.env):
                    raise TrErr(f'{name} changes its scope argument, which is not a variable here')
                self.note(a.id)
                return [f'call ({head}) fun ({self.env[a.id].lean}, {t}) =>'] + k(t, rty)
            if changes == 'self':
                s = self.fresh()
                self.note(HEAP)
                return [f'call ({head}) fun ({s}, {t}) =>', f'let h : PyLS := semBack h {s}'] + k(t, rty)
            return [f'call ({head}) fun {t} =>'] + k(t, rty)
        return self.ev_list(list(x.args), done)

    def ev_call_name(self, x, name, k):
        plain = not x.keywords and not any(isinstance(a, ast.Starred) for a in x.args)
        if name in self.nested:
            return self.call_sig(self.nested[name], None, x, k)
        if name == 'len' and plain and len(x.args) == 1:
            def ln(v, ty):
                if ty in ELEM or ty in DICT_VAL:
                    return k(f'{v}.length', 'Int')
                raise TrErr(f'len of a {ty}')
            return self.ev(x.args[0], ln)
        if name == 'count' and plain and not x.args:
            t = self.fresh()
            self.note(HEAP)
            return [f'let (h, {t}) := newCounter {self.heap()}'] + k(t, 'Cnt')
        if name == 'next' and plain and len(x.args) == 1:
            def nx(v, ty):
                if ty != 'Cnt':
                    raise TrErr(f'next of a {ty}')
                t = self.fresh()
                self.note(HEAP)
                return [f'nextCounter {self.heap()} {v} fun (h, {t}) =>'] + k(t, 'Int')
            return self.ev(x.args[0], nx)
        if name == 'set' and plain and not x.args:
            return k('[]', 'EmptySet')
        if name in ('tuple', 'list') and plain and len(x.args) == 1:
            def idt(v, ty):
                if ty not in ELEM:
                    raise TrErr(f'{name} of a {ty}')
                return k(v, 'ModList' if ty == 'ModSet' else ty)
            return self.ev(x.args[0], idt)
        if name == 'reversed' and plain and len(x.args) == 1:
            def rv(v, ty):
                if ty not in ELEM:
                    raise TrErr(f'reversed of a {ty}')
                return k(f'{v}.reverse', ty)
            return self.ev(x.args[0], rv)
        if name == 'zip' and len(x.args) == 2 and [kw.arg for kw in x.keywords] in ([], ['strict']) \
                and all(isinstance(kw.value, ast.Constant) and kw.value.value is False for kw in x.keywords):
            def zp(vs):
                (a, at), (b, bt) = vs
                if (at, bt) != ('TraceItemList', 'TraceItemList'):
                    raise TrErr(f'zip of a {at} and a {bt}')
                return k(f'(List.zip {a} {b})', 'TraceItemPairs')
            return self.ev_list(list(x.args), zp)
        if name == 'dict' and plain and len(x.args) == 1:
            def dc(v, ty):
                if ty != 'SubstPairs':
                    raise TrErr(f'dict of a {ty}')
                return k(f'(kDictOf {v})', 'KSubst')
            return self.ev(x.args[0], dc)
        if name == 'any' and plain and len(x.args) == 1 and isinstance(x.args[0], ast.GeneratorExp):
            g = self.comp_parts(x.args[0])
            if g.ifs:
                raise TrErr('call ' + ast.unparse(x))

            def an(it, ity):
                if ity not in ELEM:
                    raise TrErr(f'any over a {ity}')
                var, lv = g.target.id, lname('v_', g.target.id)
                save_env = dict(self.env)
                self.env[var] = Var(lv, ELEM[ity])
                try:
                    lines, ety = self.ev_py(x.args[0].elt)
                finally:
                    self.env = save_env
                if ety != 'Bool':
                    raise TrErr('call ' + ast.unparse(x))
                t = self.fresh()
                return wrap(f'call (anyPy {it}', [f'fun {lv} =>'] + lines, f') fun {t} =>') + k(t, 'Bool')
            return self.ev(g.iter, an)
        if name == 'isinstance' and plain and len(x.args) == 2:
            cls = ast.unparse(x.args[1])

            def isi(v, ty):
                if ty == 'KTerm' and cls.startswith('kore.') and cls[5:] in KORE:
                    return k(f'(isK {v} .{cls[5:]})', 'Bool')
                raise TrErr(f'isinstance of a {ty} as a value: ' + ast.unparse(x))
            return self.ev(x.args[0], isi)
        if name == 'hasattr' and plain and len(x.args) == 2 and self.strlit(x.args[1]) and isinstance(x.args[0], ast.Name):
            cls = self.narrow.get(('class', x.args[0].id))
            if cls is None:
                raise TrErr('hasattr of a value whose class is not known: ' + ast.unparse(x))
            has = x.args[1].value in self.mod.stub_fields.get(cls[5:] if cls.startswith('kore.') else cls, [])
            return k('true' if has else 'false', 'Bool')
        if name in CTORS and plain:
            lean, tys, rty = CTORS[name]
            if len(x.args) != len(tys) or not self.mod.ctor_ok.get(name):
                raise TrErr('constructor call ' + ast.unparse(x))
            return self.ev_list(list(x.args), lambda vs: k('(' + lean + ''.join(' ' + self.co(v, ty, w) for (v, ty), w in zip(vs, tys)) + ')', rty))
        if name == 'KModule' and plain and len(x.args) == 2:
            if not self.mod.ctor_ok.get('KModule'):
                raise TrErr('KModule(..): the constructor is not translated')

            def km(vs):
                t = self.fresh()
                self.note(HEAP)
                return [f'let (h, {t}) := newModule {self.heap()} (KModule.__init__ {self.co(*vs[0], "Name")} {self.co(*vs[1], "Cnt")})'] + k(t, 'Mod')
            return self.ev_list(list(x.args), km)
        if name == 'LanguageSemantics' and plain and not x.args:
            if not self.mod.ctor_ok.get('LanguageSemantics') or HEAP in self.env:
                raise TrErr('LanguageSemantics(): the constructor is not translated / a second LanguageSemantics object')
            self.env[HEAP] = Var('h', 'LS')
            return ['let h : PyLS := LanguageSemantics.__init__'] + k('h', 'LS')
        if name == 'ConvertionScope' and plain and not x.args:
            if 'def ConvertionScope.__init__ : PyScope :=' not in self.mod.pykore_text:
                raise TrErr('ConvertionScope(): not translated in Pi2/Gen/PyKore.lean')
            return k('Gen.PyKore.ConvertionScope.__init__', 'Scope')
        raise TrErr('call ' + ast.unparse(x))

    # ---- statements --------------------------------------------------------------------------
    def snapshot(self):
        return (self.tmp, list(self.rebound), self.mut, self.fuel, self.so, len(self.aux), dict(self.nested), self.self_call, list(self.called))

    def restore(self, s, keep_flags=True):
        tmp, rebound, mut, fuel, so, naux, nested, self_call, called = s
        self.tmp, self.rebound, self.nested, self.called = tmp, rebound, nested, called
        del self.aux[naux:]
        if not keep_flags:
            self.mut, self.fuel, self.so, self.self_call = mut, fuel, so, self_call

    def ret_lines(self, v, ty):
        exits = []
        for w in reversed(self.withs):
            exits += self.exit_lines(w)
        if self.nonlocals:
            if ty != 'Unit':
                raise TrErr('a closure with `nonlocal` returns a value')
            v, ty = self.env[self.nonlocals[0]].lean, self.ret
        if self.ret == 'LS':
            if ty != 'LS':
                raise TrErr(f'the result is a {ty}, not the LanguageSemantics')
            return exits + [f'ret {self.heap()}']
        val = None if self.ret == 'Unit' else self.co(v, ty, self.ret)
        if exits and val is not None and not re.fullmatch(r"[\w'«».]+", val):
            raise TrErr('a `return` of a compound value inside `with`')
        if self.heap_param and self.assumed.get('mut'):
            return exits + [f'ret {self.heap()}' if val is None else f'ret ({self.heap()}, {val})']
        return exits + ['ret ' + ('()' if val is None else val)]

    def exit_lines(self, w):
        ty, obj = w
        sig = self.mod.sigs.get(f'BuilderScope.__exit__.{self.mod.class_of_ty[ty]}')
        if sig is None:
            raise TrErr('`with`: BuilderScope.__exit__ is not translated')
        out = ['-- (leaving `with`) __exit__(None, None, None)']
        return out + self.emit_call(sig, [(obj, 'Mod')] if ty == 'Mod' else [], lambda v, t: [])

    def comment(self, st):
        return '-- ' + src1(st)

    def branch(self, stmts, fall, env, narrow=None):
        save, save_n = self.env, dict(self.narrow)
        self.env = dict(env)
        if narrow:
            self.narrow.update(narrow)
        try:
            return self.block(stmts, fall)
        finally:
            self.env, self.narrow = save, save_n

    def infer_empty(self, name, kind):
        for n in ast.walk(self.fn):
            if isinstance(n, ast.Return) and n.value is not None and any(isinstance(m, ast.Name) and m.id == name for m in ast.walk(n.value)):
                if kind == 'EmptyTuple' and self.ret in ELEM:
                    return self.ret
                if kind == 'EmptySet' and self.ret == 'ModList':
                    return 'ModSet'
        raise TrErr(f'`{name}` is initialised by an empty literal and its type is not known')

    def assign(self, name, v, ty, rest, fall):
        if ty in ('EmptyTuple', 'EmptySet', 'EmptyDict'):
            want = self.declared.get(name) or self.infer_empty(name, ty)
            v, ty = self.co(v, ty, want), want
        if ty in ('NoneT', 'StrName', 'Unit', 'SymName'):
            raise TrErr(f'a local of type {ty}: {name}')
        if name in self.declared:
            v, ty = self.co(v, ty, self.declared[name]), self.declared[name]
        if name in self.env:
            self.note(name)
        if ty == 'LS':
            self.env[name] = Var('h', 'LS')
            return self.block(rest, fall)
        lv = lname('v_', name)
        self.env[name] = Var(lv, ty)
        return [f'let {lv} : {lty(ty)} := {v}'] + self.block(rest, fall)

    def block(self, stmts, fall):
        if not stmts:
            if fall is None:
                if self.generator:
                    return self.ret_lines(self.env[YIELD].lean, self.ret)
                if self.ret == 'Unit' or self.nonlocals:
                    return self.ret_lines('()', 'Unit')
                raise TrErr('the function can end without `return`')
            return fall()
        st, rest = stmts[0], list(stmts[1:])
        if isinstance(st, ast.Expr) and isinstance(st.value, ast.Constant) and isinstance(st.value.value, str):
            return self.block(rest, fall)
        out = [self.comment(st)]
        if isinstance(st, ast.Pass):
            return out + self.block(rest, fall)
        if isinstance(st, ast.Nonlocal):
            if st.names != self.nonlocals:
                raise TrErr('statement ' + src1(st))
            return out + self.block(rest, fall)
        if isinstance(st, (ast.Return, ast.Raise, ast.Continue)) and rest:
            raise TrErr('statement after return / raise / continue')
        if isinstance(st, ast.FunctionDef):
            return out[:-1] + self.nested_def(st) + self.block(rest, fall)
        if isinstance(st, ast.AnnAssign) and isinstance(st.target, ast.Name):
            want = ann_ty(st.annotation, f'of {st.target.id}')
            self.declared[st.target.id] = want
            if st.value is None:
                return out + self.block(rest, fall)
            return out + self.ev_rhs(st.value, lambda v, ty: self.assign(st.target.id, v, ty, rest, fall), rest, fall, st.target.id)
        if isinstance(st, ast.Assign) and len(st.targets) == 1:
            return out + self.assign_stmt(st, st.targets[0], rest, fall)
        if isinstance(st, ast.AugAssign) and isinstance(st.op, ast.Add):
            return out + self.assign_stmt(ast.Assign([st.target], ast.BinOp(st.target, ast.Add(), st.value)), st.target, rest, fall, aug=st.value)
        if isinstance(st, ast.Return):
            if self.generator:
                raise TrErr('`return` in a generator')
            if st.value is None:
                return out + self.ret_lines('()', 'Unit')
            return out + self.ev(st.value, self.ret_lines)
        if isinstance(st, ast.Raise):
            return out + ['raise']
        if isinstance(st, ast.Continue):
            if not self.loops:
                raise TrErr('`continue` outside a loop')
            return out + self.loops[-1]()
        if isinstance(st, ast.Assert):
            return out + self.assert_stmt(st, rest, fall)
        if isinstance(st, ast.Expr) and isinstance(st.value, ast.Yield) and st.value.value is not None:
            y = self.env[YIELD]

            def yl(v, ty):
                self.note(YIELD)
                return [f'let {y.lean} : {lty(y.ty)} := {y.lean} ++ [{self.co(v, ty, ELEM[y.ty])}]'] + self.block(rest, fall)
            return out + self.ev(st.value.value, yl)
        if isinstance(st, ast.Expr) and isinstance(st.value, ast.Call):
            c = st.value
            if isinstance(c.func, ast.Attribute) and c.func.attr in ('append', 'extend', 'add', 'update') and isinstance(c.func.value, ast.Name) \
                    and c.func.value.id in self.env and self.env[c.func.value.id].ty in ('ModList', 'ModSet') and len(c.args) == 1 and not c.keywords:
                nm = c.func.value.id
                lv = self.env[nm]
                want = {'append': ('ModList', 'Mod'), 'extend': ('ModList', 'ModList'), 'add': ('ModSet', 'Mod'), 'update': ('ModSet', 'ModList')}[c.func.attr]
                if lv.ty != want[0]:
                    raise TrErr(f'{c.func.attr} of a {lv.ty}')

                def app(v, ty):
                    if ty != want[1]:
                        raise TrErr(f'{c.func.attr} of a {ty} to a {lv.ty}')
                    self.note(nm)
                    e = {'append': f'{lv.lean} ++ [{v}]', 'extend': f'{lv.lean} ++ {v}', 'add': f'setAdd {lv.lean} {v}', 'update': f'setUpdate {lv.lean} {v}'}[c.func.attr]
                    return [f'let {lv.lean} : {lty(lv.ty)} := {e}'] + self.block(rest, fall)
                return out + self.ev(c.args[0], app)
            return out + self.ev(c, lambda v, ty: self.block(rest, fall))
        if isinstance(st, ast.If):
            return out + self.if_stmt(st, rest, fall)
        if isinstance(st, ast.For):
            return out + self.for_stmt(st, rest, fall)
        if isinstance(st, ast.With):
            return out + self.with_stmt(st, rest, fall)
        if isinstance(st, ast.Try):
            return out + self.try_stmt(st, rest, fall)
        if isinstance(st, ast.Match):
            if rest:
                raise TrErr('statements after `match`')
            return out + self.match_stmt(st)
        raise TrErr('statement ' + src1(st))

    def ev_rhs(self, val, k, rest, fall, name):
        """the right-hand side of an assignment; a conditional expression becomes an `if` (the rest is repeated in both branches)"""
        if isinstance(val, ast.IfExp):
            def cond(c, cty):
                env = dict(self.env)
                a = self.branch_rhs(val.body, k, env)
                b = self.branch_rhs(val.orelse, k, env)
                return wrap(f'if {self.truth(c, cty)} then', a, ' else') + b
            return self.ev(val.test, cond)
        return self.ev(val, k)

    def branch_rhs(self, val, k, env):
        save, save_n, save_d = self.env, dict(self.narrow), dict(self.declared)
        self.env = dict(env)
        try:
            return self.ev(val, k)
        finally:
            self.env, self.narrow, self.declared = save, save_n, save_d

    def assign_stmt(self, st, tg, rest, fall, aug=None):
        if isinstance(tg, ast.Tuple) and len(tg.elts) == 2 and all(isinstance(e, ast.Name) for e in tg.elts) and isinstance(st.value, ast.Call) \
                and ast.unparse(st.value.func) == 'kl.deconstruct_nary_application' and len(st.value.args) == 1 and not st.value.keywords:
            def dec(v, ty):
                if ty not in ('Pat', 'SymbolP'):
                    raise TrErr('call ' + ast.unparse(st.value))
                self.fuel = True
                names = []
                for e, ety in zip(tg.elts, ('Pat', 'PatList')):
                    names.append(lname('v_', e.id))
                    self.env[e.id] = Var(lname('v_', e.id), ety)
                return [f'deconstruct_nary_application n {v} fun {names[0]} {names[1]} =>'] + self.block(rest, fall)
            return self.ev(st.value.args[0], dec)
        if isinstance(tg, ast.Name) and aug is not None:
            if tg.id not in self.env or self.env[tg.id].ty != 'Int':
                raise TrErr('augmented assignment to a local: ' + src1(st))
            lv = self.env[tg.id]

            def inc(v, ty):
                if ty != 'Int':
                    raise TrErr('augmented assignment ' + src1(st))
                self.note(tg.id)
                return [f'let {lv.lean} : Nat := {lv.lean} + {v}'] + self.block(rest, fall)
            return self.ev(aug, inc)
        if isinstance(tg, ast.Name):
            return self.ev_rhs(st.value, lambda v, ty: self.assign(tg.id, v, ty, rest, fall), rest, fall, tg.id)
        # attribute of a KModule / the LanguageSemantics, possibly subscripted
        sub = None
        at = tg
        if isinstance(tg, ast.Subscript):
            sub, at = tg.slice, tg.value
        if not (isinstance(at, ast.Attribute) and isinstance(at.value, ast.Name) and at.value.id in self.env):
            raise TrErr('assignment ' + src1(st))
        o = self.env[at.value.id]
        fields = MOD_FIELDS if o.ty == 'Mod' else LS_FIELDS if o.ty == 'LS' else None
        if fields is None or at.attr not in fields:
            raise TrErr(f'assignment to the attribute {at.attr} of a {o.ty}: ' + src1(st))
        fty = fields[at.attr]
        value = aug if aug is not None else st.value

        def store(expr_of):
            """expr_of(current value of the field) -> new value"""
            self.note(HEAP)
            if o.ty == 'Mod':
                t = self.fresh()
                return [f'getMod {self.heap()} {o.lean} fun {t} =>',
                        f'let h : PyLS := setMod h {o.lean} {{ {t} with {at.attr} := {expr_of(t + "." + at.attr)} }}'] + self.block(rest, fall)
            return [f'let h : PyLS := {{ h with {at.attr} := {expr_of("h." + at.attr)} }}'] + self.block(rest, fall)
        if sub is not None:
            if fty not in DICT_VAL or aug is not None:
                raise TrErr('item assignment ' + src1(st))

            def setd(vs):
                (v, ty), (kk, kty) = vs          # Python evaluates the value first, then the target
                if kty not in ('Name', 'Int'):
                    raise TrErr('item assignment ' + src1(st))
                val = self.co(v, ty, DICT_VAL[fty])
                return store(lambda cur: f'kSet {cur} {kk} {val}')
            return self.ev_list([value, sub], setd)

        def seta(v, ty):
            if aug is not None:
                if fty not in ELEM or self.co(v, ty, fty) is None:
                    raise TrErr('augmented assignment ' + src1(st))
                return store(lambda cur: f'{cur} ++ {self.co(v, ty, fty)}')
            if isinstance(fty, tuple) and fty[0] == 'Attr':
                return store(lambda cur: f'some {self.co(v, ty, fty[1])}')
            return store(lambda cur: self.co(v, ty, fty))
        return self.ev(value, seta)

    def static_isinstance(self, ty, cls):
        """isinstance tests that the types decide"""
        return (ty == 'Mod' and cls == 'KModule') or (ty == 'LS' and cls == 'LanguageSemantics') or (ty == 'SortRef' and cls == '(KSort, KSortVar)') \
            or (ty == 'KSortObj' and cls in ('KSort', '(KSort, KSortVar)')) or (ty == 'KSortVar' and cls == '(KSort, KSortVar)')

    def assert_stmt(self, st, rest, fall):
        t = st.test
        if isinstance(t, ast.Call) and ast.unparse(t.func) == 'isinstance' and len(t.args) == 2 and not t.keywords:
            p = self.try_pure(t.args[0])
            if p is not None and self.static_isinstance(p[1], ast.unparse(t.args[1])):
                return ['--     (static: the value is a ' + p[1] + ')'] + self.block(rest, fall)
        return self.ev(t, lambda v, ty: [f'assert_ {self.truth(v, ty)} <|'] + self.block(rest, fall))

    def sum_case(self, arg, cls, env):
        """(scrutinee, pattern, env of the branch, narrowings) for `isinstance(arg, cls)` on a value of a sum type, or None"""
        p = self.try_pure(arg)
        if p is not None and p[1] in ('Pat', 'SymbolP') and cls in ('Symbol', 'App', 'Instantiate') and isinstance(arg, ast.Name):
            benv = dict(env)
            if cls == 'Symbol':
                benv[arg.id] = Var(p[0], 'SymbolP')
                return p[0], '.sym _', benv, {}
            if cls == 'App':
                return p[0], '.app _ _', benv, {}
            return p[0], '.inst b_pattern b_inst', benv, {f'{arg.id}.pattern': ('b_pattern', 'Pat'), f'{arg.id}.inst': ('b_inst', 'Dict')}
        if p is None or p[1] not in SUMS or cls not in SUMS[p[1]]:
            return None
        v, ty = p
        ctor, payload = SUMS[ty][cls]
        benv, narrow = dict(env), {}
        text = ast.unparse(arg)
        if isinstance(payload, str):
            if not isinstance(arg, ast.Name):
                raise TrErr(f'isinstance of `{text}`, which is not a variable')
            b = lname('b_', arg.id)
            benv[arg.id] = Var(b, payload)
            return v, f'.{ctor} {b}', benv, narrow
        if ty == 'Sentence':
            for f in {pth.split('.')[0] for pth, _ in payload}:
                if f not in self.mod.stub_fields.get(cls[5:], []):
                    raise TrErr(f'{cls} has no field {f} in the stub')
        binds = []
        for pth, fty in payload:
            b = 'b_' + pth.replace('.', '_')
            binds.append(b)
            narrow[f'{text}.{pth}'] = (b, fty)
        narrow[('class', text)] = cls
        return v, f'.{ctor} {" ".join(binds)}', benv, narrow

    def if_stmt(self, st, rest, fall):
        t_term, e_term = terminates(st.body), bool(st.orelse) and terminates(st.orelse)
        if t_term and e_term and rest:
            raise TrErr('statement after return / raise')
        then_s = list(st.body) + ([] if t_term else rest)
        else_s = list(st.orelse) + ([] if e_term else rest)
        test = st.test
        env = dict(self.env)

        def is_inst(e):
            return isinstance(e, ast.Call) and ast.unparse(e.func) == 'isinstance' and len(e.args) == 2 and not e.keywords
        tests = test.values if isinstance(test, ast.BoolOp) and isinstance(test.op, ast.And) else [test]
        if all(is_inst(e) for e in tests):
            cases, cenv, cnarrow = [], env, {}
            for e in tests:
                c = self.sum_case(e.args[0], ast.unparse(e.args[1]), cenv)
                if c is None:
                    cases = None
                    break
                cases.append(c)
                cenv = c[2]
                cnarrow.update(c[3])
            if cases:
                b = self.branch(else_s, fall, env)

                def nest(i):
                    if i == len(cases):
                        return self.branch(then_s, fall, cenv, cnarrow)
                    v, pat, _, _ = cases[i]
                    return [f'match {v} with'] + wrap(f'| {pat} =>', nest(i + 1)) + ['| _ =>'] + b
                return nest(0)
        def not_none(e):
            return isinstance(e, ast.Compare) and len(e.ops) == 1 and isinstance(e.ops[0], ast.IsNot) and isinstance(e.left, ast.Name) \
                and isinstance(e.comparators[0], ast.Constant) and e.comparators[0].value is None and e.left.id in env and is_opt(env[e.left.id].ty)
        opt_truth = isinstance(test, ast.Name) and test.id in env and is_opt(env[test.id].ty) and env[test.id].ty[1] in ELEM
        if (isinstance(test, ast.BoolOp) and isinstance(test.op, ast.And) and not_none(test.values[0])) or opt_truth:
            # `x is not None and REST` / the truth value of an optional tuple: `None` is false, otherwise REST (or: not empty) decides
            nm = test.id if opt_truth else test.values[0].left.id
            v = env[nm]
            senv = dict(env)
            inner = lname('s_', nm)
            senv[nm] = Var(inner, v.ty[1])
            restt = test if opt_truth else (test.values[1] if len(test.values) == 2 else ast.BoolOp(ast.And(), test.values[1:]))
            inner_if = ast.If(restt, st.body, st.orelse)
            ast.copy_location(inner_if, st)
            a = self.branch([inner_if] + rest, fall, senv)
            b = self.branch(else_s, fall, env)
            return [f'match {v.lean} with'] + wrap(f'| some {inner} =>', a) + ['| none =>'] + b
        if isinstance(test, ast.Compare) and len(test.ops) == 1 and isinstance(test.ops[0], (ast.Is, ast.IsNot)) \
                and isinstance(test.left, ast.Name) and isinstance(test.comparators[0], ast.Constant) and test.comparators[0].value is None \
                and test.left.id in env and is_opt(env[test.left.id].ty):
            nm = test.left.id
            v = env[nm]
            senv = dict(env)
            inner = lname('s_', nm)
            senv[nm] = Var(inner, v.ty[1])
            if isinstance(test.ops[0], ast.Is):
                a, b = self.branch(then_s, fall, env), self.branch(else_s, fall, senv)
                return [f'match {v.lean} with'] + wrap('| none =>', a) + [f'| some {inner} =>'] + b
            a, b = self.branch(then_s, fall, senv), self.branch(else_s, fall, env)
            return [f'match {v.lean} with'] + wrap(f'| some {inner} =>', a) + ['| none =>'] + b

        def general(cv, cty):
            a = self.branch(then_s, fall, self.env)
            b = self.branch(else_s, fall, self.env)
            return wrap(f'if {self.truth(cv, cty)} then', a, ' else') + b
        return self.ev(test, general)

    def for_stmt(self, st, rest, fall):
        if st.orelse:
            raise TrErr('for/else')
        if any(isinstance(n, ast.Break) for s in st.body for n in ast.walk(s)):
            raise TrErr('break in a `for` loop')

        def over(it, ity):
            tg = st.target
            if ity not in ELEM:
                raise TrErr(f'a `for` loop over a {ity}')
            el = ELEM[ity]
            if isinstance(el, tuple) and isinstance(tg, ast.Tuple) and len(tg.elts) == 2 and all(isinstance(e, ast.Name) for e in tg.elts):
                binds = [(tg.elts[0].id, el[1]), (tg.elts[1].id, el[2])]
            elif not isinstance(el, tuple) and isinstance(tg, ast.Name):
                binds = [(tg.id, el)]
            else:
                raise TrErr('for loop ' + src1(st))
            if ity == 'ModSet':
                raise TrErr('a `for` loop over a set')
            env = dict(self.env)
            benv = dict(env)
            for nm, ty in binds:
                benv[nm] = Var(lname('v_', nm), ty)
            xpat = benv[binds[0][0]].lean if len(binds) == 1 else '(' + ', '.join(benv[nm].lean for nm, _ in binds) + ')'

            def tup(names):
                if not names:
                    return '()'
                ls = [env[n_].lean for n_ in names]
                return ls[0] if len(ls) == 1 else '(' + ', '.join(ls) + ')'
            snap = self.snapshot()
            self.rebound = []
            self.loops.append(lambda: ['continue_'])
            try:
                self.branch(list(st.body), lambda: ['continue_'], benv)
            finally:
                self.loops.pop()
            state = [n_ for n_ in self.rebound if n_ in env]
            self.restore(snap)
            for n_ in state:
                if n_ not in (HEAP, YIELD) and env[n_].ty != self.env[n_].ty:
                    raise TrErr(f'the loop changes the type of {n_}')
            self.loops.append(lambda: [f'continue_ {tup(state)}'])
            try:
                body = self.branch(list(st.body), lambda: [f'continue_ {tup(state)}'], benv)
            finally:
                self.loops.pop()
            for n_ in state:
                self.note(n_)
            self.env = env
            spat = tup(state) if state else '_'
            return wrap(f'forEach {it} {tup(state)}', [f'fun {xpat} {spat} continue_ =>'] + body, f' fun {spat} =>') + self.block(rest, fall)
        return self.ev(st.iter, over)

    def with_stmt(self, st, rest, fall):
        if len(st.items) != 1 or not isinstance(st.items[0].optional_vars, ast.Name):
            raise TrErr('with ' + src1(st))
        item = st.items[0]

        def entered(v, ty):
            if ty not in ('Mod', 'LS'):
                raise TrErr(f'`with` of a {ty}')
            sig = self.mod.sigs.get(f'{self.mod.class_of_ty[ty]}.__enter__')
            if sig is None:
                raise TrErr('`with`: __enter__ is not translated')
            w = (ty, v)

            def body(ev_, ety):
                def fall_with():
                    w_ = self.withs.pop()
                    try:
                        return self.exit_lines(w_) + self.block(rest, fall)
                    finally:
                        self.withs.append(w_)
                self.withs.append(w)
                try:
                    if ety == 'LS':
                        self.env[item.optional_vars.id] = Var('h', 'LS')
                        return self.block(list(st.body), fall_with)
                    lv = lname('v_', item.optional_vars.id)
                    self.env[item.optional_vars.id] = Var(lv, ety)
                    return [f'let {lv} : {lty(ety)} := {ev_}'] + self.block(list(st.body), fall_with)
                finally:
                    self.withs.pop()
            return ['-- (entering `with`) __enter__()'] + self.emit_call(sig, [(v, 'Mod')] if ty == 'Mod' else [], body)
        return self.ev(item.context_expr, entered)

    def try_stmt(self, st, rest, fall):
        if st.orelse or st.finalbody or len(st.handlers) != 1 or st.handlers[0].name is not None \
                or st.handlers[0].type is None or ast.unparse(st.handlers[0].type) != 'ValueError':
            raise TrErr('try ' + src1(st))
        if not terminates(list(st.body)):
            raise TrErr('a `try` whose body can end without return')
        before, called0 = list(self.rebound), len(self.called)
        self.rebound = []
        body = self.branch(list(st.body), None, self.env)
        if self.rebound:
            raise TrErr(f'a `try` whose body changes {self.rebound}')
        self.rebound = before
        for lean in self.called[called0:]:
            if lean != self.lean and not self.mod.ve_safe.get(lean):
                raise TrErr(f'`except ValueError` around a call of {lean}, whose text can raise something else')
        if self.self_call and not self.mod.ve_safe_node(self.fn):
            raise TrErr('`except ValueError` around a call of the function itself, whose text can raise something else')
        hb = list(st.handlers[0].body)
        handler = self.branch(hb + ([] if terminates(hb) or isinstance(hb[-1], ast.Continue) else rest), fall, self.env)
        hc = ['-- except ValueError: ' + src1(hb[0])]
        return ['tryExcept ('] + indent(body[:-1]) + indent([body[-1] + ') (']) + indent(hc + handler[:-1]) + indent([handler[-1] + ')'])

    def match_stmt(self, st):
        if not (isinstance(st.subject, ast.Name) and st.subject.id in self.env and self.env[st.subject.id].ty == 'KSort'):
            raise TrErr('match ' + src1(st))
        v = self.env[st.subject.id]
        out, covered = [f'match {v.lean} with'], []
        for case in st.cases:
            pat = case.pattern
            head = f'case {ast.unparse(pat)}:'
            if case.guard is not None:
                raise TrErr(f'{head} a guard')
            if isinstance(pat, ast.MatchAs) and pat.pattern is None and pat.name is None:
                if len(covered) == 2:
                    out += [f'-- {head} not reachable (`KSort` has the two constructors matched above):'] + \
                        ['--     ' + l for s in case.body for l in ast.unparse(s).split('\n')]
                else:
                    out += [f'-- {head}', '| _ =>'] + indent(self.branch(list(case.body), None, self.env))
                    covered = ['var', 'app']
                continue
            cls = ast.unparse(pat.cls) if isinstance(pat, ast.MatchClass) else ''
            if cls not in ('kore.SortVar', 'kore.SortApp') or pat.kwd_attrs or len(pat.patterns) != 1 \
                    or not (isinstance(pat.patterns[0], ast.MatchAs) and pat.patterns[0].pattern is None and pat.patterns[0].name):
                raise TrErr(f'{head} not `kore.SortVar(name)` / `kore.SortApp(name)`')
            if self.mod.stub_fields.get(cls[5:], [None])[0] != 'name':
                raise TrErr(f'{head} the first field of {cls} in the stub is not `name`')
            ctor = 'var' if cls == 'kore.SortVar' else 'app'
            if ctor in covered:
                raise TrErr(f'{head} matched by an earlier case')
            covered.append(ctor)
            env = dict(self.env)
            lv = lname('v_', pat.patterns[0].name)
            env[pat.patterns[0].name] = Var(lv, 'Name')
            if not terminates(list(case.body)):
                raise TrErr(f'{head} the body can end without return / raise')
            out += [f'-- {head}', f'| .{ctor} {lv} =>'] + indent(self.branch(list(case.body), None, env))
        if len(covered) < 2:
            raise TrErr('a `match` on a sort that can fall through')
        return out

    def nested_def(self, fn):
        used = {n.id for n in ast.walk(fn) if isinstance(n, ast.Name)}
        nl = {n_ for st_ in ast.walk(fn) if isinstance(st_, ast.Nonlocal) for n_ in st_.names}
        own = ({a.arg for a in fn.args.args} | {n.id for n in ast.walk(fn) if isinstance(n, ast.Name) and isinstance(n.ctx, ast.Store)}) - nl
        captured = [(nm, self.env[nm].ty) for nm in self.env if nm in used and nm not in own and nm not in (HEAP, YIELD) and self.env[nm].ty != 'LS']
        if HEAP in self.env:
            captured += [(nm, 'LS') for nm in self.env if nm in used and nm not in own and nm not in (HEAP, YIELD) and self.env[nm].ty == 'LS']
            captured.append((HEAP, 'LS'))
        qual = f'{self.qual}.{fn.name}'
        sig, lines = self.mod.translate_fn(qual, f'{self.lean}.{fn.name}', fn, 'nested', None, captured=captured)
        if sig is None:
            raise TrErr(f'the nested function {fn.name} is not translated')
        self.nested[fn.name] = sig
        self.aux.append(lines)
        return [f'-- def {fn.name}({ast.unparse(fn.args)}): …      (lambda-lifted: `{self.lean}.{fn.name}`)']

    # ---- the definition ----------------------------------------------------------------------
    def ret_type(self):
        if self.ret == 'LS':
            return 'Py PyLS'
        if self.heap_param and self.assumed.get('mut'):
            return 'Py PyLS' if self.ret == 'Unit' else f'Py (PyLS × {paren(lty(self.ret))})'
        return f'Py {paren(lty(self.ret))}'

    def definition(self, doc, guard):
        self.called = []
        body = [s for s in self.fn.body]
        pre = []
        if self.generator:
            y = self.env[YIELD]
            pre = [f'let {y.lean} : {lty(y.ty)} := []      -- the values the generator yields']
        lines = self.block(body, None)
        if guard:
            if self.self_ty == 'Mod':
                g = ['-- @builder_method', 'getMod h self fun t0 =>', 'builder_method t0._parsing <|']
            else:
                g = ['-- @builder_method', 'builder_method h._parsing <|']
            lines = g + lines
        lines = pre + lines
        ps = [(self.env[p].lean if p in self.env else p, ty) for p, ty in self.params if ty != 'LS']
        if self.recursive:
            tys = ['Nat'] + (['PyLS'] if self.heap_param else []) + [lty(ty) for _, ty in ps]
            names = (['h'] if self.heap_param else []) + [p for p, _ in ps]
            head = [doc, f'def {self.lean}{" (so : SetOrder)" if self.so else ""} : {" → ".join(paren(t) for t in tys)} → {self.ret_type()}',
                    '  | 0' + ''.join(', _' for _ in names) + ' => none      -- RecursionError',
                    '  | n + 1' + ''.join(', ' + p for p in names) + ' =>']
            return head + indent(lines, 2)
        bs = (' (so : SetOrder)' if self.so else '') + (' (n : Nat)' if self.fuel else '') + (' (h : PyLS)' if self.heap_param else '')
        bs += ''.join(f' ({p} : {lty(ty)})' for p, ty in ps)
        return [doc, f'def {self.lean}{bs} : {self.ret_type()} :='] + indent(lines)


# ---------------------------------------------------------------------------------------------- the module
# (class, function, kind, builder_method, recursive); callees before callers
FUNCTIONS = [
    ('KSymbol', 'unwrap_kore_name', 'static', False, False),
    ('BuilderScope', '__enter__', 'inherit', False, False), ('BuilderScope', '__exit__', 'inherit', False, False),
    ('KModule', '__enter__', 'method', False, False), ('KModule', 'name', 'property', False, False),
    ('KModule', 'modules', 'property', False, True), ('KModule', 'import_module', 'method', True, False),
    ('KModule', '_sort', 'method', False, False), ('KModule', 'sort', 'method', True, False), ('KModule', 'hooked_sort', 'method', True, False),
    ('KModule', 'get_sort', 'method', False, True), ('KModule', 'symbol', 'method', True, False),
    ('KModule', 'equational_rule', 'method', True, False), ('KModule', 'rewrite_rule', 'method', True, False),
    ('KModule', 'get_symbol', 'method', False, True), ('KModule', 'get_axiom', 'method', False, True),
    ('LanguageSemantics', '__enter__', 'method', False, False), ('LanguageSemantics', 'modules', 'property', False, False),
    ('LanguageSemantics', 'main_module', 'property', False, False), ('LanguageSemantics', 'is_rewrite_rule', 'static', False, False),
    ('LanguageSemantics', 'is_equational_rule', 'static', False, False), ('LanguageSemantics', 'module', 'method', True, False),
    ('LanguageSemantics', 'get_module', 'method', False, False), ('LanguageSemantics', 'get_axiom', 'method', False, False),
    ('LanguageSemantics', 'get_sort', 'method', False, False), ('LanguageSemantics', 'get_symbol', 'method', False, False),
    ('LanguageSemantics', 'resolve_to_ksymbol', 'method', False, False), ('LanguageSemantics', 'count_simplifications', 'method', False, True),
    ('LanguageSemantics', 'from_kore_definition', 'static', False, False),
]
ELSEWHERE = {'KSort.aml_symbol', 'KSymbol.aml_symbol', 'KSymbol.app', 'LanguageSemantics._convert_sort', 'LanguageSemantics._convert_pattern',
             'LanguageSemantics.convert_pattern', 'LanguageSemantics.convert_substitutions'}     # vlib/transkore.py
DECOS = {'property': ['property'], 'static': ['staticmethod'], 'method': [], 'inherit': []}
SAFE_CALLS = {'reversed', 'tuple', 'set', 'isinstance', 'len', 'list'}
SAFE_METHODS = {'append', 'extend', 'add', 'update'}


class Module:
    def __init__(self, trees, stub_tree, lh_tree, pykore_text, pymatch_text=''):
        self.pymatch_text = pymatch_text
        self.trees = trees
        self.problems = []
        self.classes, self.functions, self.file_of = {}, {}, {}
        for key, (tree, fname) in trees.items():
            for n in tree.body:
                if isinstance(n, ast.ClassDef):
                    self.classes[n.name] = (n, fname)
                elif isinstance(n, ast.FunctionDef):
                    self.functions[n.name] = (n, fname)
        self.sigs = {}
        self.ve_safe = {}
        self.ctor_ok = {}
        self.pykore_text = pykore_text
        self.class_of_ty = {'Mod': 'KModule', 'LS': 'LanguageSemantics'}
        self.stub_fields = {}
        for n in stub_tree.body if stub_tree else []:
            if isinstance(n, ast.ClassDef):
                self.stub_fields[n.name] = [m.target.id for m in n.body if isinstance(m, ast.AnnAssign) and isinstance(m.target, ast.Name)]
        self.lh_fields, self.lh_bases = {}, {}
        for n in lh_tree.body if lh_tree else []:
            if isinstance(n, ast.ClassDef):
                self.lh_fields[n.name] = [m.target.id for m in n.body if isinstance(m, ast.AnnAssign) and isinstance(m.target, ast.Name)]
                self.lh_bases[n.name] = [ast.unparse(b) for b in n.bases]
        self.kfields = {}
        self._ve_memo = {}

    def problem(self, s):
        self.problems.append('PyKDef: ' + s)

    def method(self, cls, name):
        c = self.classes.get(cls)
        if c is None:
            return None
        return next((n for n in c[0].body if isinstance(n, ast.FunctionDef) and n.name == name), None)

    # ---- the input classes ---------------------------------------------------------------------
    def check_inputs(self):
        ok = True
        for cls, need in STUB_NEEDS.items():
            have = self.stub_fields.get(cls)
            if have is None or any(f not in have for f in need):
                self.problem(f'harness/py/pyk_stub.py: class {cls} has the fields {have}, needed {need}'); ok = False
        for cls, (ctor, fields) in KORE.items():
            if self.stub_fields.get(cls) != [f for f, _ in fields]:
                self.problem(f'harness/py/pyk_stub.py: the fields of {cls} are {self.stub_fields.get(cls)}'); ok = False
        if self.lh_fields.get('LLVMRewriteEvent') != ['rule_ordinal', 'substitution'] or self.lh_bases.get('LLVMRuleEvent') != ['LLVMRewriteEvent'] \
                or self.lh_fields.get('LLVMRuleEvent') != [] or self.lh_fields.get('LLVMRewriteTrace') != ['pre_trace', 'initial_config', 'trace']:
            self.problem('llvm_proof_hint.py: LLVMRewriteEvent / LLVMRuleEvent / LLVMRewriteTrace do not have the expected fields'); ok = False
        for cls, want in DATACLASS_FIELDS.items():
            c = self.classes.get(cls)
            have = None if c is None else [m.target.id for m in c[0].body if isinstance(m, ast.AnnAssign) and isinstance(m.target, ast.Name)]
            decos = None if c is None else [ast.unparse(d) for d in c[0].decorator_list]
            if have != want or decos != ['dataclass(frozen=True)']:
                self.problem(f'the dataclass {cls} has the fields {have} (decorators {decos}), expected {want}'); ok = False
            else:
                self.ctor_ok[cls] = True
        return ok

    def kore_accessors(self):
        """`isK` and the field accessors of Kore patterns, from the table of `vlib/transkore.py` (checked against the stub)"""
        lines = ['/-! ## the classes of `pyk.kore.syntax` patterns and their fields (harness/py/pyk_stub.py) -/',
                 'inductive KCls where', '  ' + ' '.join(f'| {c}' for c in KORE), 'deriving DecidableEq, Repr',
                 '/-- the class of a pattern -/', 'def kcls : KTerm → KCls']
        for cls, (ctor, fields) in KORE.items():
            n = sum(2 if k == 'ops2' else 1 for _, k in fields if k is not None)
            lines.append(f'  | .{ctor}{" _" * n} => .{cls}')
        lines += ['/-- `isinstance(t, kore.<c>)` -/', 'def isK (t : KTerm) (c : KCls) : Bool := kcls t == c']
        names = []
        for cls, (ctor, fields) in KORE.items():
            for f, kind in fields:
                if kind in KFIELD_TY and f not in names:
                    names.append(f)
        for f in names:
            kinds = {kind for cls, (ctor, fields) in KORE.items() for g, kind in fields if g == f and kind is not None}
            if len(kinds) != 1 or next(iter(kinds)) not in KFIELD_TY:
                continue
            kind = next(iter(kinds))
            self.kfields[f] = KFIELD_TY[kind]
            lines += [f'/-- the attribute `{f}` of a pattern (`none`: its class has no such field in the model) -/',
                      f'def kattr_{f} : KTerm → Option {paren(LEAN_TY[KFIELD_TY[kind]])}']
            for cls, (ctor, fields) in KORE.items():
                if not any(g == f and k is not None for g, k in fields):
                    continue
                pats, res = [], None
                for g, k in fields:
                    if k is None:
                        continue
                    if k == 'ops2':
                        pats += ['a', 'b'] if g == f else ['_', '_']
                        res = '[a, b]' if g == f else res
                    else:
                        pats.append('x' if g == f else '_')
                        res = 'x' if g == f else res
                lines.append(f'  | .{ctor} {" ".join(pats)} => some {res}')
            lines.append('  | _ => none')
        return lines

    # ---- records -------------------------------------------------------------------------------
    def record_ctor(self, cls, fields, lean_ty, extra):
        init = self.method(cls, '__init__')
        if init is None:
            self.problem(f'{cls}.__init__ not found')
            return [], False
        try:
            params = [(a.arg, ann_ty(a.annotation, f'of parameter {a.arg}')) for a in init.args.args[1:]]
        except TrErr as ex:
            self.problem(f'{cls}.__init__: {ex}')
            return [], False
        ok, vals, comments = True, {}, []
        for st in init.body:
            if isinstance(st, ast.Expr) and isinstance(st.value, ast.Constant) and isinstance(st.value.value, str):
                continue
            if isinstance(st, ast.Expr) and isinstance(st.value, ast.Constant):
                continue
            tgt = st.target if isinstance(st, ast.AnnAssign) else st.targets[0] if isinstance(st, ast.Assign) and len(st.targets) == 1 else None
            if tgt is None or not (isinstance(tgt, ast.Attribute) and isinstance(tgt.value, ast.Name) and tgt.value.id == 'self') \
                    or tgt.attr not in fields or tgt.attr in vals:
                self.problem(f'{cls}.__init__: statement `{src1(st)}`'); ok = False
                continue
            fty = fields[tgt.attr]
            v = st.value
            if isinstance(v, ast.Name) and (v.id, fty) in params:
                vals[tgt.attr] = lname('a_', v.id)
            elif (isinstance(v, ast.Tuple) and not v.elts and fty in ELEM) or (isinstance(v, ast.Dict) and not v.keys and fty in DICT_VAL) \
                    or (isinstance(v, ast.Call) and ast.unparse(v) == 'set()' and fty == 'NotationSet'):
                vals[tgt.attr] = '[]'
            else:
                self.problem(f'{cls}.__init__: statement `{src1(st)}`'); ok = False
                continue
            comments.append('-- ' + src1(st))
        for f, fty in fields.items():
            if f not in vals:
                if isinstance(fty, tuple) and fty[0] == 'Attr':
                    vals[f] = 'none'
                    comments.append(f'-- (`{f}` is not assigned: `BuilderScope.__init__` is not called)')
                else:
                    self.problem(f'{cls}.__init__ does not set {f}'); ok = False
        body = ', '.join([f'{f} := {v}' for f, v in vals.items()] + extra)
        lines = [f'/-- `{cls}.__init__` (line {init.lineno}) -/',
                 f'def {cls}.__init__' + ''.join(f' ({lname("a_", p)} : {lty(t)})' for p, t in params) + f' : {lean_ty} :='] + indent(comments) + \
                ['  { ' + body + ' }']
        if ok:
            self.ctor_ok[cls] = True
        return lines, ok

    def hint_class(self):
        c = self.classes.get('RewriteStepExpression')
        init = self.method('RewriteStepExpression', '__init__')
        want = ['configuration_before', 'configuration_after', 'axiom', 'substitutions']
        ok = c is not None and init is not None and not c[0].bases
        if ok:
            params = [a.arg for a in init.args.args[1:]]
            stored = {}
            for st in init.body:
                tgt = st.target if isinstance(st, ast.AnnAssign) else st.targets[0] if isinstance(st, ast.Assign) and len(st.targets) == 1 else None
                if tgt is not None and isinstance(tgt, ast.Attribute) and ast.unparse(tgt.value) == 'self' and isinstance(st.value, ast.Name):
                    stored[tgt.attr] = st.value.id
                elif not (isinstance(st, ast.Expr) and isinstance(st.value, ast.Constant)):
                    ok = False
            for i, prop in enumerate(want):
                m = self.method('RewriteStepExpression', prop)
                if m is None or [ast.unparse(d) for d in m.decorator_list] != ['property'] or len(m.body) != 1 or not isinstance(m.body[0], ast.Return) \
                        or not isinstance(m.body[0].value, ast.Attribute) or ast.unparse(m.body[0].value.value) != 'self' \
                        or len(params) != 4 or stored.get(m.body[0].value.attr) != params[i]:
                    ok = False
        if not ok:
            self.problem('class RewriteStepExpression is not the record of its four constructor arguments that `PyHint` models')
        else:
            self.ctor_ok['RewriteStepExpression'] = True
        return ['/-! `RewriteStepExpression` (rewrite_steps.py): `__init__` stores its four arguments, the properties `configuration_before`, `configuration_after`,',
                '`axiom`, `substitutions` return them (checked by the translator): the structure `PyHint`. -/'], ok

    def builder_method(self):
        fn = self.functions.get('builder_method')
        canon = ("def wrapper(*args: P.args, **kwargs: P.kwargs) -> T:\n    assert len(args) > 0\n    first_arg = args[0]\n"
                 "    assert isinstance(first_arg, BuilderScope)\n    if first_arg._parsing:\n        return func(*args, **kwargs)\n    else:\n"
                 "        raise ValueError('Cannot call parsing method on immutable theory')")
        ok = False
        if fn is not None:
            body = [s for s in fn[0].body if not (isinstance(s, ast.Expr) and isinstance(s.value, ast.Constant))]
            ok = len(body) == 2 and isinstance(body[0], ast.FunctionDef) and ast.unparse(body[0]) == canon and ast.unparse(body[1]) == 'return wrapper' \
                and [a.arg for a in fn[0].args.args] == ['func']
        if not ok:
            self.problem('the decorator builder_method is not the wrapper the translator knows (its text changed)')
            return ['-- NOT TRANSLATED: builder_method'], False
        return [f'/-- the decorator `builder_method` (line {fn[0].lineno}): `wrapper` with the receiver\'s `_parsing` and the call of the wrapped method -/',
                'def builder_method {α} (first_arg__parsing : Option Bool) (func : Py α) : Py α :=',
                '  -- assert len(args) > 0      (static: the receiver)',
                '  -- first_arg = args[0]',
                '  -- assert isinstance(first_arg, BuilderScope)      (static)',
                '  -- if first_arg._parsing: …',
                '  attrGet first_arg__parsing fun t1 =>',
                '  if t1 then (',
                '    -- return func(*args, **kwargs)',
                '    func) else',
                '  -- raise ValueError(\'Cannot call parsing method on immutable theory\')',
                '  raise'], True

    # ---- which functions can only raise ValueError ------------------------------------------------
    def ve_safe_node(self, fn):
        key = id(fn)
        if key in self._ve_memo:
            return self._ve_memo[key]
        self._ve_memo[key] = True          # a recursive call is assumed safe
        parents = {}
        for n in ast.walk(fn):
            for c in ast.iter_child_nodes(n):
                parents[c] = n
        ok = True
        props = {m.name for cls in ('KModule', 'LanguageSemantics') for m in self.classes[cls][0].body
                 if isinstance(m, ast.FunctionDef) and any(ast.unparse(d) == 'property' for d in m.decorator_list)}
        skip = set()
        for n in ast.walk(fn):
            if isinstance(n, ast.AnnAssign):
                skip |= {id(m) for m in ast.walk(n.annotation)}
        for n in (m for st in fn.body for m in ast.walk(st)):
            if id(n) in skip:
                continue
            if isinstance(n, ast.Raise):
                ok = ok and isinstance(n.exc, ast.Call) and ast.unparse(n.exc.func) == 'ValueError'
            elif isinstance(n, ast.Assert):
                ok = ok and isinstance(n.test, ast.Call) and ast.unparse(n.test.func) == 'isinstance'
            elif isinstance(n, ast.Subscript) and isinstance(n.ctx, ast.Load):
                p, guarded = n, False
                while p in parents:
                    q = parents[p]
                    if isinstance(q, ast.If) and p in q.body and isinstance(q.test, ast.Compare) and len(q.test.ops) == 1 and isinstance(q.test.ops[0], ast.In) \
                            and ast.unparse(q.test.left) == ast.unparse(n.slice) and ast.unparse(q.test.comparators[0]) == ast.unparse(n.value):
                        guarded = True
                    p = q
                # `D[-1]` after `if len(D) == 0: raise ValueError(..)`
                for st in fn.body:
                    if isinstance(st, ast.If) and ast.unparse(st.test) == f'len({ast.unparse(n.value)}) == 0' and terminates(st.body) \
                            and ast.unparse(n.slice) == '-1' and st.lineno < n.lineno:
                        guarded = True
                ok = ok and guarded
            elif isinstance(n, ast.Call):
                f = n.func
                if isinstance(f, ast.Name):
                    ok = ok and f.id in SAFE_CALLS | {'ValueError'}
                elif ast.unparse(f) == 'dict.fromkeys':
                    pass
                elif isinstance(f, ast.Attribute):
                    if f.attr in SAFE_METHODS:
                        continue
                    cands = [self.method(c, f.attr) for c in ('KModule', 'LanguageSemantics')]
                    cands = [c for c in cands if c is not None]
                    ok = ok and bool(cands) and all(self.ve_safe_node(c) for c in cands)
                else:
                    ok = False
            elif isinstance(n, ast.Attribute) and isinstance(n.ctx, ast.Load) and n.attr in props:
                cands = [self.method(c, n.attr) for c in ('KModule', 'LanguageSemantics')]
                ok = ok and all(self.ve_safe_node(c) for c in cands if c is not None)
            elif isinstance(n, (ast.With, ast.Yield, ast.Await, ast.Delete, ast.Global, ast.Nonlocal)) or \
                    (isinstance(n, ast.BinOp) and not isinstance(n.op, (ast.Add, ast.Sub, ast.Mult))):
                ok = False
        self._ve_memo[key] = ok
        return ok

    # ---- functions -----------------------------------------------------------------------------
    def translate_fn(self, qual, lean, fn, kind, self_ty, captured=(), guard=False, recursive=False, drop_params=False, fname='language_semantics.py'):
        assumed = {'mut': False, 'fuel': recursive, 'so': False, 'recursive': recursive}
        doc = f'/-- `{qual}` ({fname} line {fn.lineno}) -/'
        last = None
        for _ in range(5):
            f = Fn(self, qual, lean, fn, kind, self_ty, assumed, captured=captured, drop_params=drop_params)
            lines = f.definition(doc, guard)
            if f.self_call and not recursive:
                raise TrErr('the function calls itself (it is not in the list of recursive functions)')
            new = {'mut': f.mut, 'fuel': f.fuel or recursive, 'so': f.so, 'recursive': recursive}
            if new == assumed:
                sig = Sig(lean, f.params, f.ret, f.mut, new['fuel'], f.so, f.heap_param, kind, captured)
                sig.nonlocals = list(f.nonlocals)
                sig.defaults = f.defaults
                self.ve_safe[lean] = self.ve_safe_node(fn)
                out = []
                for a in f.aux:
                    out += a
                return sig, out + lines
            assumed = new
        raise TrErr('which of store / fuel / set order the function needs does not stabilise')

    def translate(self, cls, name, kind, guard, recursive):
        out, ok = [], True
        targets = [(f'{cls}.{name}', f'{cls}.{name}', {'KModule': 'Mod', 'LanguageSemantics': 'LS'}.get(cls), kind)]
        if kind == 'inherit':
            targets = [(f'{cls}.{name}.{sub}', f'{cls}.{name}.{sub}', ty, 'method') for sub, ty in (('KModule', 'Mod'), ('LanguageSemantics', 'LS'))]
        fn = self.method(cls, name)
        if fn is None:
            self.problem(f'{cls}.{name} not found')
            return [f'-- NOT TRANSLATED: {cls}.{name} not found'], False
        decos = [ast.unparse(d) for d in fn.decorator_list]
        want = DECOS[kind] + (['builder_method'] if guard else [])
        if decos != want:
            self.problem(f'{cls}.{name} is decorated {decos}, expected {want}')
            return [f'-- NOT TRANSLATED: {cls}.{name}: decorators {decos}'], False
        for qual, lean, sty, k in targets:
            try:
                sig, lines = self.translate_fn(qual, lean, fn, k, sty, guard=guard, recursive=recursive, drop_params=(name == '__exit__'))
                self.sigs[qual] = sig
                out += lines
            except TrErr as ex:
                self.problem(f'{qual}: {ex}')
                out.append(f'-- NOT TRANSLATED: {qual}: {ex}')
                ok = False
        return out, ok

    def not_translated(self):
        done = {f'{c}.{n}' for c, n, *_ in FUNCTIONS} | ELSEWHERE | {'KModule.__init__', 'LanguageSemantics.__init__'}
        out = []
        for cls in ('KSort', 'KSymbol', 'KRewritingRule', 'KEquationalRule', 'BuilderScope', 'KModule', 'ConvertionScope', 'LanguageSemantics'):
            c = self.classes.get(cls)
            for m in (c[0].body if c else []):
                if isinstance(m, ast.FunctionDef) and f'{cls}.{m.name}' not in done and cls != 'ConvertionScope':
                    out.append(f'{cls}.{m.name}')
        for cls in ('HintEvent', 'FunEvent', 'HookEvent'):
            if cls in self.classes:
                out.append(cls)
        return out


def gen_py_kdef(srcdir=None, outdir=None):
    """srcdir: the source root to read (default: `core.PYSRC`); outdir: where PyKDef.lean is written (PyKore.lean is read from there)"""
    from .translate import _write_if_changed, GEN
    root = srcdir or core.PYSRC
    problems, trees, aux = [], {}, {}
    for key, rel in (('ls', LS_PATH), ('rs', RS_PATH)):
        path = os.path.join(root, *rel)
        try:
            trees[key] = (ast.parse(open(path, encoding='utf-8').read()), rel[-1])
        except (OSError, SyntaxError) as ex:
            problems.append(f'PyKDef: {path}: {ex}')
    for key, path in (('lh', os.path.join(root, *LH_PATH)), ('stub', os.path.join(core.VERIF, 'harness', 'py', 'pyk_stub.py'))):
        try:
            aux[key] = ast.parse(open(path, encoding='utf-8').read())
        except (OSError, SyntaxError) as ex:
            problems.append(f'PyKDef: {path}: {ex}')
            aux[key] = None
    try:
        pykore_text = open(os.path.join(outdir or GEN, 'PyKore.lean'), encoding='utf-8').read()
    except OSError as ex:
        problems.append(f'PyKDef: Pi2/Gen/PyKore.lean: {ex}')
        pykore_text = ''
    lines = ['import Pi2.KDefSupport', 'import Pi2.Gen.PyKore', 'import Pi2.Gen.PyMatch',
             '/-! GENERATED by /verif/vlib/transkdef.py from `KSymbol.unwrap_kore_name`, `BuilderScope`, `builder_method`, class `KModule`,',
             '`LanguageSemantics.__init__ / modules / main_module / is_rewrite_rule / is_equational_rule / from_kore_definition / module / get_module /',
             'get_axiom / get_sort / get_symbol / resolve_to_ksymbol / count_simplifications` (generation/src/proof_generation/k/kore_convertion/language_semantics.py) and',
             '`get_proof_hints` (generation/src/proof_generation/k/kore_convertion/rewrite_steps.py), statement by statement — do not edit.',
             'Conventions (store-passing, fuel, set order, `with`, `try`): `vlib/transkdef.py`, `Pi2/KDefSupport.lean`.',
             '`Pi2/KDefTie.lean` proves these equal to the specification `Pi2/KDefSpec.lean` on one-module definitions. -/',
             'open PyI PyM PyK Kore', 'set_option linter.unusedVariables false', 'namespace Gen.PyKDef']
    ok = len(trees) == 2 and aux['lh'] is not None and aux['stub'] is not None and bool(pykore_text)
    if len(trees) == 2:
        try:
            pymatch_text = open(os.path.join(outdir or GEN, 'PyMatch.lean'), encoding='utf-8').read()
        except OSError:
            pymatch_text = ''
        mod = Module(trees, aux['stub'], aux['lh'], pykore_text, pymatch_text)
        ok = mod.check_inputs() and ok
        lines += mod.kore_accessors()
        lines.append('/-! ## language_semantics.py -/')
        done_bm = done_km = done_ls = False
        for cls, name, kind, guard, rec in FUNCTIONS:
            if cls == 'KModule' and not done_bm:
                l, o = mod.builder_method()
                lines += l
                ok = ok and o
                done_bm = True
            if cls == 'KModule' and not done_km:
                lines.append('/-! ### class KModule -/')
                l, o = mod.record_ctor('KModule', MOD_FIELDS, 'PyKModule', [])
                lines += l
                ok = ok and o
                done_km = True
            if cls == 'LanguageSemantics' and not done_ls:
                lines.append('/-! ### class LanguageSemantics -/')
                l, o = mod.record_ctor('LanguageSemantics', LS_FIELDS, 'PyLS', ['modules := []', 'counters := []      /- the empty store -/'])
                lines += l
                ok = ok and o
                done_ls = True
            l, o = mod.translate(cls, name, kind, guard, rec)
            lines += l
            ok = ok and o
        lines.append('/-! ## rewrite_steps.py -/')
        l, o = mod.hint_class()
        lines += l
        ok = ok and o
        fn = mod.functions.get('get_proof_hints')
        if fn is None:
            mod.problem('get_proof_hints not found'); ok = False
        else:
            try:
                sig, l = mod.translate_fn('get_proof_hints', 'get_proof_hints', fn[0], 'function', None, fname='rewrite_steps.py')
                mod.sigs['get_proof_hints'] = sig
                lines += l
            except TrErr as ex:
                mod.problem(f'get_proof_hints: {ex}')
                lines.append(f'-- NOT TRANSLATED: get_proof_hints: {ex}')
                ok = False
        nt = mod.not_translated()
        lines.append('/-- functions / classes of the two files that are listed, not translated (outside the modelled fragment or not on the pipeline) -/')
        lines.append('def notTranslated : List String := [' + ', '.join(f'"{c}"' for c in nt) + ']')
        problems += mod.problems
    lines.append(f'def translated : Bool := {"true" if ok else "false"}')
    lines.append('end Gen.PyKDef')
    _write_if_changed(os.path.join(outdir or GEN, 'PyKDef.lean'), '\n'.join(lines) + '\n')
    return problems


if __name__ == '__main__':
    print(gen_py_kdef())
