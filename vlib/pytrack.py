"""A Python mirror of the generator's tracker on tuple patterns — used ONLY to steer the generation of
call histories (so that modus ponens, loads, publishes ... are applicable most of the time) and to
compile patterns / proof expressions into call lists.  Not trusted: verdicts come from the Lean
model and the real interpreters."""
from __future__ import annotations

from . import pymach as pm


# --- Python-semantics operations on tuples (no capture check, e_fresh shortcut), incl. notation nodes

def py_esub(p, x, plug):
    k = p[0]
    if k == 'evar':
        return plug if p[1] == x else p
    if k in ('svar', 'sym'):
        return p
    if k in ('imp', 'app'):
        return (k, py_esub(p[1], x, plug), py_esub(p[2], x, plug))
    if k == 'ex':
        return p if p[1] == x else ('ex', p[1], py_esub(p[2], x, plug))
    if k == 'mu':
        return ('mu', p[1], py_esub(p[2], x, plug))
    if k == 'mv':
        return p if x in p[2] else ('esub', p, x, plug)
    if k in ('esub', 'ssub'):
        return ('esub', p, x, plug)
    if k == 'inst':
        return py_esub(simplify(p), x, plug)
    raise ValueError(p)


def py_ssub(p, X, plug):
    k = p[0]
    if k == 'svar':
        return plug if p[1] == X else p
    if k in ('evar', 'sym'):
        return p
    if k in ('imp', 'app'):
        return (k, py_ssub(p[1], X, plug), py_ssub(p[2], X, plug))
    if k == 'ex':
        return ('ex', p[1], py_ssub(p[2], X, plug))
    if k == 'mu':
        return p if p[1] == X else ('mu', p[1], py_ssub(p[2], X, plug))
    if k == 'mv':
        return p if X in p[3] else ('ssub', p, X, plug)
    if k in ('esub', 'ssub'):
        return ('ssub', p, X, plug)
    if k == 'inst':
        return py_ssub(simplify(p), X, plug)
    raise ValueError(p)


def metavars(p):
    k = p[0]
    if k in ('evar', 'svar', 'sym'):
        return set()
    if k == 'mv':
        return {p[1]}
    if k in ('imp', 'app'):
        return metavars(p[1]) | metavars(p[2])
    if k in ('ex', 'mu'):
        return metavars(p[2])
    if k in ('esub', 'ssub'):
        return metavars(p[1]) | metavars(p[3])
    if k == 'inst':
        return metavars(simplify(p))
    raise ValueError(p)


def py_inst(p, d):
    """d: dict id -> pattern"""
    k = p[0]
    if k in ('evar', 'svar', 'sym'):
        return p
    if k == 'mv':
        return d.get(p[1], p)
    if k == 'inst':
        m = [(a, py_inst(b, d)) for a, b in p[2]]
        keys = {a for a, _ in p[2]}
        mvs = metavars(p[1])
        for a, b in d.items():
            if a not in keys and a in mvs:
                m.append((a, b))
        return ('inst', p[1], tuple(m))
    if not d:
        return p
    if k in ('imp', 'app'):
        return (k, py_inst(p[1], d), py_inst(p[2], d))
    if k in ('ex', 'mu'):
        return (k, p[1], py_inst(p[2], d))
    if k == 'esub':
        return py_esub(py_inst(p[1], d), p[2], py_inst(p[3], d))
    if k == 'ssub':
        return py_ssub(py_inst(p[1], d), p[2], py_inst(p[3], d))
    raise ValueError(p)


def simplify(p):
    assert p[0] == 'inst'
    return py_inst(p[1], dict(p[2]))


def expand(p):
    k = p[0]
    if k in ('evar', 'svar', 'sym', 'mv'):
        return p
    if k in ('imp', 'app'):
        return (k, expand(p[1]), expand(p[2]))
    if k in ('ex', 'mu'):
        return (k, p[1], expand(p[2]))
    if k in ('esub', 'ssub'):
        return (k, expand(p[1]), p[2], expand(p[3]))
    if k == 'inst':
        return expand(simplify(p))
    raise ValueError(p)


def head(p):
    while p[0] == 'inst':
        p = simplify(p)
    return p


BOTN = ('inst', ('mu', 0, ('svar', 0)), ())
PROP1N = ('imp', pm.phi(0), ('imp', pm.phi(1), pm.phi(0)))
PROP2N = pm.PROP2
PROP3N = ('imp', ('imp', ('imp', pm.phi(0), BOTN), BOTN), pm.phi(0))
QUANTN = pm.QUANT


def compile_pattern(p):
    """`Interpreter.pattern(p)` as a list of calls (protocol S-expressions as tuples)"""
    k = p[0]
    if k == 'evar':
        return [('evar', p[1])]
    if k == 'svar':
        return [('svar', p[1])]
    if k == 'sym':
        return [('symbol', p[1])]
    if k == 'mv':
        return [('metavar',) + tuple(p[1:7])]
    if k == 'imp':
        return compile_pattern(p[1]) + compile_pattern(p[2]) + [('implies',)]
    if k == 'app':
        return compile_pattern(p[1]) + compile_pattern(p[2]) + [('app',)]
    if k == 'ex':
        return compile_pattern(p[2]) + [('exists', p[1])]
    if k == 'mu':
        return compile_pattern(p[2]) + [('mu', p[1])]
    if k == 'esub':
        return compile_pattern(p[3]) + compile_pattern(p[1]) + [('esubst', p[2])]
    if k == 'ssub':
        return compile_pattern(p[3]) + compile_pattern(p[1]) + [('ssubst', p[2])]
    if k == 'inst':
        out = []
        for _, v in p[2]:
            out += compile_pattern(v)
        out += compile_pattern(p[1])
        out.append(('instantiate-pattern', tuple(a for a, _ in p[2])))
        return out
    raise ValueError(p)


def call_to_s(c):
    from . import sx
    k = c[0]
    if k == 'metavar':
        return '(metavar %d %s)' % (c[1], ' '.join('(' + ' '.join(map(str, l)) + ')' for l in c[2:7]))
    if k in ('instantiate', 'instantiate-pattern'):
        return '(%s (%s))' % (k, ' '.join(map(str, c[1])))
    if k == 'load':
        return '(load (%s %s))' % (c[1][0], sx.pat_to_s(c[1][1]))
    return '(' + ' '.join(str(a) for a in c) + ')'


class Raise(Exception):
    pass


class Tracker:
    """mirror of StatefulInterpreter on tuples; entries are ('pattern'|'proved', npat)"""

    def __init__(self, claims=()):
        self.phase = 'gamma'
        self.stack, self.memory = [], []
        self.claims = list(claims)

    def copy(self):
        t = Tracker()
        t.phase, t.stack, t.memory, t.claims = self.phase, list(self.stack), list(self.memory), list(self.claims)
        return t

    def _pats(self, n):
        if len(self.stack) < n or any(self.stack[-i][0] != 'pattern' for i in range(1, n + 1)):
            raise Raise()

    def call(self, c):
        k = c[0]
        S = self.stack
        if k in ('evar', 'svar'):
            S.append(('pattern', (k, c[1])))
        elif k == 'symbol':
            S.append(('pattern', ('sym', c[1])))
        elif k == 'metavar':
            S.append(('pattern', ('mv',) + tuple(c[1:7])))
        elif k in ('implies', 'app'):
            self._pats(2)
            r = S.pop()[1]; l = S.pop()[1]
            S.append(('pattern', ('imp' if k == 'implies' else 'app', l, r)))
        elif k in ('exists', 'mu'):
            self._pats(1)
            S.append(('pattern', ('ex' if k == 'exists' else 'mu', c[1], S.pop()[1])))
        elif k in ('esubst', 'ssubst'):
            self._pats(2)
            if S[-1][1][0] not in ('mv', 'esub', 'ssub'):
                raise Raise()
            p = S.pop()[1]; plug = S.pop()[1]
            S.append(('pattern', ('esub' if k == 'esubst' else 'ssub', p, c[1], plug)))
        elif k == 'prop1':
            S.append(('proved', PROP1N))
        elif k == 'prop2':
            S.append(('proved', PROP2N))
        elif k == 'prop3':
            S.append(('proved', PROP3N))
        elif k == 'quantifier':
            S.append(('proved', QUANTN))
        elif k == 'mp':
            if len(S) < 2 or S[-1][0] != 'proved' or S[-2][0] != 'proved':
                raise Raise()
            h = head(S[-2][1])
            if h[0] != 'imp' or expand(h[1]) != expand(S[-1][1]):
                raise Raise()
            S.pop(); S.pop()
            S.append(('proved', h[2]))
        elif k == 'gen':
            if not S or S[-1][0] != 'proved':
                raise Raise()
            h = head(S[-1][1])
            if h[0] != 'imp' or not pm.e_fresh(expand(h[2]), c[1]):
                raise Raise()
            S.pop()
            S.append(('proved', ('imp', ('ex', c[1], h[1]), h[2])))
        elif k in ('instantiate', 'instantiate-pattern'):
            keys = list(c[1])
            n = len(keys)
            want = 'proved' if k == 'instantiate' else 'pattern'
            if len(S) < n + 1 or S[-1][0] != want or any(S[-i][0] != 'pattern' for i in range(2, n + 2)):
                raise Raise()
            a = S.pop()[1]
            vals = [S[-(n - i)][1] for i in range(n)] if n else []
            for _ in range(n):
                S.pop()
            if k == 'instantiate':
                S.append(('proved', py_inst(a, dict(zip(keys, vals))) if n else a))
            else:
                S.append(('pattern', ('inst', a, tuple(zip(keys, vals)))))
        elif k == 'pop':
            if not S:
                raise Raise()
            S.pop()
        elif k == 'save':
            if not S:
                raise Raise()
            self.memory.append(S[-1])
        elif k == 'load':
            t = c[1]
            if not any(m[0] == t[0] and expand(m[1]) == expand(t[1]) for m in self.memory):
                raise Raise()
            S.append(t)
        elif k == 'publish-proof':
            if self.phase != 'proof' or not S or S[-1][0] != 'proved' or not self.claims:
                raise Raise()
            if expand(S[-1][1]) != expand(self.claims[0]):
                raise Raise()
            self.claims.pop(0)
        elif k == 'publish-axiom':
            if self.phase != 'gamma' or not S or S[-1][0] != 'pattern':
                raise Raise()
            self.memory.append(('proved', S[-1][1]))
        elif k == 'publish-claim':
            if self.phase != 'claim' or not S or S[-1][0] != 'pattern':
                raise Raise()
        elif k == 'into-claim':
            if self.phase != 'gamma':
                raise Raise()
            self.phase = 'claim'; self.stack = []
        elif k == 'into-proof':
            if self.phase != 'claim':
                raise Raise()
            self.phase = 'proof'; self.stack = []
        else:
            raise ValueError(k)
