"""Finite-model evaluation of patterns — the executable oracle for C01 / C06 / C11.

Mirrors `eval` of lean/Pi2/Sem.lean on carriers {0..n-1}; sets are bit masks.  It is a *search
engine for failing inputs*, never the argument for validity.
"""
from __future__ import annotations

import itertools
import random


def free_ids(p, ev=None, sv=None, mvs=None, syms=None):
    """all element / set variable ids, metavariable records and symbols mentioned anywhere"""
    if ev is None:
        ev, sv, mvs, syms = set(), set(), set(), set()
    k = p[0]
    if k == 'evar':
        ev.add(p[1])
    elif k == 'svar':
        sv.add(p[1])
    elif k == 'sym':
        syms.add(p[1])
    elif k in ('imp', 'app'):
        free_ids(p[1], ev, sv, mvs, syms); free_ids(p[2], ev, sv, mvs, syms)
    elif k == 'ex':
        ev.add(p[1]); free_ids(p[2], ev, sv, mvs, syms)
    elif k == 'mu':
        sv.add(p[1]); free_ids(p[2], ev, sv, mvs, syms)
    elif k == 'mv':
        mvs.add(p[1:7])
        ev.update(p[2]); ev.update(p[6]); sv.update(p[3]); sv.update(p[4]); sv.update(p[5])
    elif k == 'esub':
        ev.add(p[2]); free_ids(p[1], ev, sv, mvs, syms); free_ids(p[3], ev, sv, mvs, syms)
    elif k == 'ssub':
        sv.add(p[2]); free_ids(p[1], ev, sv, mvs, syms); free_ids(p[3], ev, sv, mvs, syms)
    else:
        raise ValueError(p)
    return ev, sv, mvs, syms


class FinModel:
    def __init__(self, n, sym, app):
        self.n, self.sym, self.app = n, sym, app      # sym: dict id->mask ; app: list n*n -> mask
        self.full = (1 << n) - 1


def ev(p, M, sigma, re, rs):
    """denotation of p as a bit mask.  re/rs: dict var -> mask (generalised valuation)."""
    k = p[0]
    if k == 'evar':
        return re.get(p[1], 0)
    if k == 'svar':
        return rs.get(p[1], 0)
    if k == 'sym':
        return M.sym.get(p[1], 0)
    if k == 'imp':
        return (M.full & ~ev(p[1], M, sigma, re, rs)) | ev(p[2], M, sigma, re, rs)
    if k == 'app':
        a, b = ev(p[1], M, sigma, re, rs), ev(p[2], M, sigma, re, rs)
        out = 0
        for i in range(M.n):
            if a >> i & 1:
                for j in range(M.n):
                    if b >> j & 1:
                        out |= M.app[i * M.n + j]
        return out
    if k == 'ex':
        out = 0
        for i in range(M.n):
            r2 = dict(re); r2[p[1]] = 1 << i
            out |= ev(p[2], M, sigma, r2, rs)
        return out
    if k == 'mu':
        out = M.full
        for A in range(M.full + 1):
            r2 = dict(rs); r2[p[1]] = A
            if ev(p[2], M, sigma, re, r2) & ~A == 0:
                out &= A
        return out
    if k == 'mv':
        return sigma[p[1:7]](M, re, rs)
    if k == 'esub':
        r2 = dict(re); r2[p[2]] = ev(p[3], M, sigma, re, rs)
        return ev(p[1], M, sigma, r2, rs)
    if k == 'ssub':
        r2 = dict(rs); r2[p[2]] = ev(p[3], M, sigma, re, rs)
        return ev(p[1], M, sigma, re, r2)
    raise ValueError(p)


def sem_choices(key, M, evs, svs):
    """admissible semantic instantiations for a metavariable record (id, ef, sf, pos, neg, holes):
    constants, and projections on variables the constraints allow it to depend on"""
    _, ef, sf, pos, neg, _ = key
    out = []
    for A in range(M.full + 1):
        out.append(('const', A))
    for x in evs:
        if x not in ef:
            out.append(('e', x))
    for X in svs:
        if X not in sf and X not in neg:
            out.append(('s', X))
        if X not in sf and X not in pos:
            out.append(('ns', X))
    return out


def sem_fn(choice):
    k, a = choice
    if k == 'const':
        return lambda M, re, rs: a
    if k == 'e':
        return lambda M, re, rs: re.get(a, 0)
    if k == 's':
        return lambda M, re, rs: rs.get(a, 0)
    if k == 'ns':
        return lambda M, re, rs: M.full & ~rs.get(a, 0)
    raise ValueError(choice)


def random_model(rng, n, syms):
    sym = {s: rng.randrange(1 << n) for s in syms}
    app = [rng.randrange(1 << n) for _ in range(n * n)]
    return FinModel(n, sym, app)


def find_countermodel(p, rng, budget=400, max_n=3, axioms=()):
    """search for (model, σ, standard ρ, element) at which p is false (and all `axioms` are valid
    under the same σ-family is NOT checked here: only use with axioms=() or closed axioms).
    Returns a dict describing the witness, or None."""
    evs, svs, mvs, syms = free_ids(p)
    for a in axioms:
        free_ids(a, evs, svs, mvs, syms)
    evs, svs, mvs, syms = sorted(evs), sorted(svs), sorted(mvs), sorted(syms)
    for it in range(budget):
        n = 1 + (it % max_n) if it < 3 * max_n else rng.randint(1, max_n)
        M = random_model(rng, n, syms)
        if axioms:
            continue
        sig_choice = {k: rng.choice(sem_choices(k, M, evs, svs)) for k in mvs}
        sigma = {k: sem_fn(c) for k, c in sig_choice.items()}
        re = {x: 1 << rng.randrange(n) for x in evs}
        rs = {X: rng.randrange(1 << n) for X in svs}
        v = ev(p, M, sigma, re, rs)
        if v != M.full:
            return {'carrier': n, 'sym': M.sym, 'app': M.app, 'sigma': {str(k): c for k, c in sig_choice.items()},
                    'evars': re, 'svars': rs, 'value_mask': v}
    return None


def exhaustive_small(p, max_n=2, cap=20000):
    """exhaustive over carriers 1..max_n when the space is small enough; returns witness or None,
    and the number of interpretations tried (0 when over the cap)"""
    evs, svs, mvs, syms = free_ids(p)
    evs, svs, mvs, syms = sorted(evs), sorted(svs), sorted(mvs), sorted(syms)
    tried = 0
    for n in range(1, max_n + 1):
        full = (1 << n) - 1
        M0 = FinModel(n, {}, [0] * (n * n))
        choice_lists = [sem_choices(k, M0, evs, svs) for k in mvs]
        space = ((full + 1) ** (len(syms) + n * n + len(svs))) * (n ** len(evs))
        for cl in choice_lists:
            space *= len(cl)
        if space > cap:
            return None, tried
        for symv in itertools.product(range(full + 1), repeat=len(syms)):
            for appv in itertools.product(range(full + 1), repeat=n * n):
                M = FinModel(n, dict(zip(syms, symv)), list(appv))
                for sc in itertools.product(*choice_lists):
                    sigma = {k: sem_fn(c) for k, c in zip(mvs, sc)}
                    for ee in itertools.product(range(n), repeat=len(evs)):
                        re = {x: 1 << i for x, i in zip(evs, ee)}
                        for ss in itertools.product(range(full + 1), repeat=len(svs)):
                            rs = dict(zip(svs, ss))
                            tried += 1
                            v = ev(p, M, sigma, re, rs)
                            if v != full:
                                return {'carrier': n, 'sym': M.sym, 'app': M.app,
                                        'sigma': {str(k): c for k, c in zip(mvs, sc)}, 'evars': re, 'svars': rs,
                                        'value_mask': v}, tried
    return None, tried
