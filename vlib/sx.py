"""S-expressions of the correspondence protocol (DESIGN.md §9b), Python side.

Patterns are nested tuples:
  ('evar',n) ('svar',n) ('sym',n) ('imp',l,r) ('app',l,r) ('ex',n,p) ('mu',n,p)
  ('mv',n,ef,sf,pos,neg,holes)  (each list a tuple of ints)  ('esub',p,n,plug) ('ssub',p,n,plug)
  ('inst', p, ((k, v), ...))   -- Python notation node (NPat only)
"""

def tokenize(s):
    toks, cur = [], []
    for c in s:
        if c in '()':
            if cur:
                toks.append(''.join(cur)); cur = []
            toks.append(c)
        elif c.isspace():
            if cur:
                toks.append(''.join(cur)); cur = []
        else:
            cur.append(c)
    if cur:
        toks.append(''.join(cur))
    return toks


def parse(s):
    """returns list of top-level items: atoms are str, lists are python lists"""
    toks = tokenize(s)
    pos = 0
    stack = [[]]
    for t in toks:
        if t == '(':
            stack.append([])
        elif t == ')':
            if len(stack) < 2:
                raise ValueError('unbalanced')
            x = stack.pop()
            stack[-1].append(x)
        else:
            stack[-1].append(t)
    if len(stack) != 1:
        raise ValueError('unbalanced')
    return stack[0]


def dump(x):
    if isinstance(x, (list, tuple)):
        return '(' + ' '.join(dump(y) for y in x) + ')'
    return str(x)


def pat_to_s(p):
    k = p[0]
    if k in ('evar', 'svar', 'sym'):
        return f'({k} {p[1]})'
    if k in ('imp', 'app'):
        return f'({k} {pat_to_s(p[1])} {pat_to_s(p[2])})'
    if k in ('ex', 'mu'):
        return f'({k} {p[1]} {pat_to_s(p[2])})'
    if k == 'mv':
        return '(mv %d %s)' % (p[1], ' '.join('(' + ' '.join(map(str, l)) + ')' for l in p[2:7]))
    if k in ('esub', 'ssub'):
        return f'({k} {pat_to_s(p[1])} {p[2]} {pat_to_s(p[3])})'
    if k == 'inst':
        return '(inst %s (%s))' % (pat_to_s(p[1]), ' '.join(f'({a} {pat_to_s(b)})' for a, b in p[2]))
    raise ValueError(p)


def pat_of_sx(x):
    k = x[0]
    if k in ('evar', 'svar', 'sym'):
        return (k, int(x[1]))
    if k in ('imp', 'app'):
        return (k, pat_of_sx(x[1]), pat_of_sx(x[2]))
    if k in ('ex', 'mu'):
        return (k, int(x[1]), pat_of_sx(x[2]))
    if k == 'mv':
        return ('mv', int(x[1])) + tuple(tuple(int(a) for a in l) for l in x[2:7])
    if k in ('esub', 'ssub'):
        return (k, pat_of_sx(x[1]), int(x[2]), pat_of_sx(x[3]))
    if k == 'inst':
        return ('inst', pat_of_sx(x[1]), tuple((int(a), pat_of_sx(b)) for a, b in x[2]))
    raise ValueError(x)


def pat_of_s(s):
    xs = parse(s)
    assert len(xs) == 1
    return pat_of_sx(xs[0])


def size(p):
    k = p[0]
    if k in ('evar', 'svar', 'sym', 'mv'):
        return 1
    if k in ('imp', 'app'):
        return 1 + size(p[1]) + size(p[2])
    if k in ('ex', 'mu'):
        return 1 + size(p[2])
    if k in ('esub', 'ssub'):
        return 1 + size(p[1]) + size(p[3])
    if k == 'inst':
        return 1 + size(p[1]) + sum(size(v) for _, v in p[2])
    raise ValueError(p)


def hexs(bs):
    return bytes(bs).hex() if len(bs) else '-'
