"""Translator: the pattern methods of generation/src/proof_generation/pattern.py ON PATTERNS WITH NOTATION (Python `ast`)
-> Lean functions on `NPat` (`Pi2/Gen/PyNotation.lean`), statement by statement, regenerated on every run:

  `evar_is_free`, `metavars`, `instantiate`, `apply_esubst`, `apply_ssubst` of ALL ELEVEN pattern classes (the ten
  notation-free ones — the same source text that `transpy.py` translates on `Pat`, now with children that may be notation
  nodes — and `Instantiate`), `Instantiate.simplify`, `Instantiate.__eq__`, and the `__eq__` that `@dataclass(frozen=True)`
  generates for the ten classes that do not define one (`if other.__class__ is self.__class__: return (fields of self) ==
  (fields of other)`, else `NotImplemented`; tuples are compared left to right and stop at the first difference), plus the
  operator `a == b` built from them (`PyN.opEq`: `a.__eq__(b)`, on `NotImplemented` the reflected `b.__eq__(a)`, else `False`).

`Pi2/NotTie.lean` proves them equal to the hand-written model `NPat.instF`, `mapF`, `metavarsF`, `esubF`, `ssubF`,
`simplifyF`, `peqF` (plain equations at every fuel) and `evarIsFreeF` (`Pi2/Notation.lean`) that C06 / C11 / C12 are stated about.

Target: `Nat → NPat → … → Option _` (`none` = out of fuel = `RecursionError`).  Fuel: every method is defined by cases on the
fuel and passes `n` to every method call of its body; a comprehension whose element expression calls a method is lifted to a
recursive function of its own (one unit per element, CPython runs it in a frame of its own); `self.simplify()` is inlined
(the translated body of `Instantiate.simplify`); operators and call-free loops consume nothing.  `and` / `or` short-circuit.

The expression translator is `transpy.Tr` (names, fields, comparisons of ids, `EVar(x) in self.e_fresh`, `k in delta`,
`delta[k]`, `not delta`, `{x}`), extended here by: method calls with fuel (evaluated receiver first, then the arguments, left
to right), `==` / `!=` on patterns (`__eq__`, fuel), short-circuit `and` / `or` over operands with calls, constructors of
`NPat` incl. `Instantiate(p, frozendict(d))`, `frozendict(d)`, `set()`, `a.union(b)`, `k in d` / `k not in d` / `d[k]`
(only under the guard `if k in d`) on any dictionary, `x in s` on a set, `s <= d.keys()`, dict comprehensions
`{k: e for k, v in d.items() [if c]}`.
Accepted statements: `return e`, `return NotImplemented` (in `__eq__`), `if c: <returns> [else: …]`, `x = e`, `x: T = e`,
`d[k] = v`, `assert self.can_be_replaced_by(…)` (the stub `return True`, checked), `for k, v in d.items(): <call-free updates of
one local: d2[k] = v, x = e, s.add(e), if/else of these>`.
Everything else is reported as a problem and makes the generated file define `translated := false` (and no functions)."""
from __future__ import annotations

import ast
import copy
import os
import re

from . import core, transpy
from .transpy import TrErr

CLASSES = dict(transpy.CLASSES)
CLASSES['Instantiate'] = ('inst', ['pattern', 'inst'])
# annotation of a dataclass field -> type in the translation
FIELD_ANN = {'int': 'Int', 'str': 'Int', 'Pattern': 'Pat', 'MetaVar | ESubst | SSubst': 'Pat', 'EVar': 'Var', 'SVar': 'Var',
             'tuple[EVar, ...]': 'Vars', 'tuple[SVar, ...]': 'Vars', 'InstantiationDict': 'Dict'}
PARAM_ANN = {'int': 'Int', 'Pattern': 'Pat', 'Mapping[int, Pattern]': 'Dict', 'object': 'Pat'}
RET_ANN = {'bool': 'Bool', 'set[int]': 'Set', 'Pattern': 'Pat'}
LEAN_TY = {'Int': 'VId', 'Pat': 'NPat', 'Dict': 'Dict', 'Set': 'List VId', 'Bool': 'Bool', 'Vars': 'List VId', 'Var': 'VId'}
# method -> (return type, parameters); the order is the order of the generated file
METHODS = {'instantiate': ('Pat', [('delta', 'Dict')]),
           'metavars': ('Set', []),
           'apply_esubst': ('Pat', [('evar_id', 'Int'), ('plug', 'Pat')]),
           'apply_ssubst': ('Pat', [('svar_id', 'Int'), ('plug', 'Pat')]),
           'evar_is_free': ('Bool', [('name', 'Int')])}
EQ = '__eq__'


def lty(t):
    return LEAN_TY[t]


def paren(t):
    return f'({t})' if ' ' in t else t


def indent(lines, k=1):
    return ['  ' * k + l for l in lines]


def terminates(stmts):
    if not stmts:
        return False
    s = stmts[-1]
    if isinstance(s, (ast.Return, ast.Raise)):
        return True
    if isinstance(s, ast.If) and s.orelse:
        return terminates(s.body) and terminates(s.orelse)
    return False


def no_doc(stmts):
    return [s for s in stmts if not (isinstance(s, ast.Expr) and isinstance(s.value, ast.Constant))]


class NTr(transpy.Tr):
    """one method body of one class; `e` (inherited interface) returns a Lean atom, effects are hoisted into `self.binds`"""

    def __init__(self, mod, cls, meth, params, ret, wrap=False):
        self.mod, self.cls, self.meth = mod, cls, meth
        self.lean, self.fields = CLASSES[cls]
        self.params = [p for p, _ in params]
        self.pty = dict(params)
        self.ftype = dict(mod.fields[cls])
        self.ret, self.wrap = ret, wrap
        self.locals = {}
        self.binds = []
        self.guards = []
        self.memo = {}
        self.tmp = 0
        self.ncomp = 0

    # ---- helpers -----------------------------------------------------------------------------
    def fresh(self):
        self.tmp += 1
        return f't{self.tmp}'

    def bind(self, call, ty):
        t = self.fresh()
        self.binds.append(f'({call}) >>= fun {t} =>')
        return t, ty

    def flush(self):
        b, self.binds = self.binds, []
        return b

    def truth(self, a, t, x):
        if t == 'Bool':
            return a
        if t in ('Dict', 'Set'):
            return f'(!{a}.isEmpty)'
        raise TrErr(f'truth value of a {t}: ' + ast.unparse(x))

    def want(self, got, want, x):
        if got != want:
            raise TrErr(f'a value of type {got} where {want} is expected: ' + ast.unparse(x))

    def closed(self, x):
        """x in a bind context of its own: (Lean term of type `Option _`, atom, type, has effects)"""
        save, self.binds = self.binds, []
        try:
            a, t = self.te(x)
            b = self.binds
        finally:
            self.binds = save
        if b and b[-1].endswith(f') >>= fun {a} =>'):
            term = ' '.join(b[:-1] + [b[-1][:-len(f' >>= fun {a} =>')]])
            return (f'({term})' if len(b) > 1 else term), a, t, True
        return '(' + ' '.join(b + [f'pure {a}']) + ')', a, t, bool(b)

    # ---- expressions: (atom, type) -----------------------------------------------------------
    def e(self, x):
        return self.te(x)[0]

    def te(self, x):
        if id(x) in self.memo:
            return self.memo[id(x)]
        r = self.te_(x)
        self.memo[id(x)] = r
        return r

    def te_(self, x):
        if isinstance(x, ast.Name):
            if x.id in self.locals:
                return 'v_' + x.id, self.locals[x.id]
            if x.id == 'self':
                return 'p', 'Pat'
            if x.id in self.pty:
                return super().e(x), self.pty[x.id]
            raise TrErr(f'unknown name {x.id}')
        if isinstance(x, ast.Constant):
            return super().e(x), 'Bool'
        if isinstance(x, ast.Attribute):
            s = super().e(x)                       # self.f | self.var.name
            if isinstance(x.value, ast.Attribute):
                return s, 'Int'
            return s, self.ftype[x.attr]
        if isinstance(x, ast.UnaryOp) and isinstance(x.op, ast.Not):
            a, t = self.te(x.operand)
            if t in ('Dict', 'Set'):
                return f'{a}.isEmpty', 'Bool'
            self.want(t, 'Bool', x.operand)
            return super().e(x), 'Bool'
        if isinstance(x, ast.BoolOp):
            return self.boolop(x)
        if isinstance(x, ast.Compare) and len(x.ops) == 1:
            return self.compare(x)
        if isinstance(x, ast.Subscript):
            d, dt = self.te(x.value)
            k, kt = self.te(x.slice)
            if dt != 'Dict' or kt != 'Int':
                raise TrErr('subscript ' + ast.unparse(x))
            if (ast.dump(x.slice), ast.dump(x.value)) not in self.guards:
                raise TrErr(f'{ast.unparse(x)} outside the guard `if {ast.unparse(x.slice)} in {ast.unparse(x.value)}` (KeyError is not modelled)')
            return f'((Py.lookup {d} {k}).getD p)', 'Pat'
        if isinstance(x, ast.Set) and len(x.elts) == 1:
            a, t = self.te(x.elts[0])
            self.want(t, 'Int', x.elts[0])
            return super().e(x), 'Set'
        if isinstance(x, ast.Call):
            return self.call(x)
        if isinstance(x, ast.DictComp):
            return self.dictcomp(x)
        raise TrErr('expression ' + ast.unparse(x))

    def boolop(self, x):
        is_and = isinstance(x.op, ast.And)
        a, t = self.te(x.values[0])
        acc = self.truth(a, t, x.values[0])
        pure_parts = [acc]
        for v in x.values[1:]:
            term, a, t, eff = self.closed(v)
            if t != 'Bool':
                raise TrErr(f'`and` / `or` over a {t}: ' + ast.unparse(v))
            if not eff:
                pure_parts.append(a)
                continue
            if len(pure_parts) > 1:
                acc = '(' + (' && ' if is_and else ' || ').join(pure_parts) + ')'
            # short-circuit: the operand is evaluated only if the value so far does not decide
            if is_and:
                acc, _ = self.bind(f'if {acc} then {term} else pure false', 'Bool')
            else:
                acc, _ = self.bind(f'if {acc} then pure true else {term}', 'Bool')
            pure_parts = [acc]
        if len(pure_parts) > 1:
            acc = '(' + (' && ' if is_and else ' || ').join(pure_parts) + ')'
        return acc, 'Bool'

    def compare(self, x):
        l, r, op = x.left, x.comparators[0], x.ops[0]
        if isinstance(op, (ast.Is, ast.IsNot)):
            raise TrErr('object identity is not modelled: ' + ast.unparse(x))
        if isinstance(op, (ast.Eq, ast.NotEq)):
            a, at = self.te(l)
            b, bt = self.te(r)
            if at == 'Pat' and bt == 'Pat':
                t, _ = self.bind(f'opEq ({EQ} n) {a} {b}', 'Bool')
                return (t if isinstance(op, ast.Eq) else f'(!{t})'), 'Bool'
            if at == bt and at in ('Int', 'Var', 'Vars', 'Bool'):
                return super().e(x), 'Bool'
            raise TrErr(f'comparison of a {at} with a {bt}: ' + ast.unparse(x))
        if isinstance(op, (ast.In, ast.NotIn)):
            neg = isinstance(op, ast.NotIn)
            if isinstance(l, ast.Call) and isinstance(l.func, ast.Name) and l.func.id in ('EVar', 'SVar') and len(l.args) == 1 and not l.keywords:
                b, bt = self.te(r)
                a, at = self.te(l.args[0])
                if bt != 'Vars' or at != 'Int':
                    raise TrErr('membership ' + ast.unparse(x))
                s = f'(List.contains {b} {a})'
                return (f'(!{s})' if neg else s), 'Bool'
            a, at = self.te(l)
            b, bt = self.te(r)
            if at == 'Int' and bt == 'Dict':
                s = f'(Py.lookup {b} {a}).isSome'
            elif at == 'Int' and bt == 'Set':
                s = f'(List.contains {b} {a})'
            else:
                raise TrErr(f'membership of a {at} in a {bt}: ' + ast.unparse(x))
            return (f'(!{s})' if neg else s), 'Bool'
        if isinstance(op, ast.LtE):
            a, at = self.te(l)
            if at == 'Set' and isinstance(r, ast.Call) and isinstance(r.func, ast.Attribute) and r.func.attr == 'keys' and not r.args and not r.keywords:
                d, dt = self.te(r.func.value)
                if dt == 'Dict':
                    return f'(subsetKeys {a} {d})', 'Bool'
        raise TrErr('comparison ' + ast.unparse(x))

    def call(self, x):
        f = x.func
        if isinstance(f, ast.Name):
            if f.id == 'set' and not x.args and not x.keywords:
                return '[]', 'Set'
            if f.id == 'frozendict' and len(x.args) == 1 and not x.keywords:
                a, t = self.te(x.args[0])
                self.want(t, 'Dict', x.args[0])
                return a, 'Dict'
            if f.id in CLASSES:
                return self.construct(x)
            raise TrErr('call ' + ast.unparse(x))
        if isinstance(f, ast.Attribute):
            if f.attr == 'union' and len(x.args) == 1 and not x.keywords:
                a, at = self.te(f.value)
                b, bt = self.te(x.args[0])
                if at != 'Set' or bt != 'Set':
                    raise TrErr('call ' + ast.unparse(x))
                return f'({a} ++ {b})', 'Set'
            if f.attr == 'simplify' and not x.args and not x.keywords:
                # `self.simplify()`: the method is not recursive in itself; its translated body is put in place of the call
                if not (isinstance(f.value, ast.Name) and f.value.id == 'self' and 'self' not in self.locals and self.cls == 'Instantiate'):
                    raise TrErr('simplify() of a value that is not known to be an Instantiate: ' + ast.unparse(x))
                if self.mod.simplify_expr is None:
                    raise TrErr('Instantiate.simplify is not of the form `return <expression>`')
                a, t = self.te(copy.deepcopy(self.mod.simplify_expr))
                self.want(t, 'Pat', x)
                return a, t
            if f.attr in METHODS:
                recv, rt = self.te(f.value)
                self.want(rt, 'Pat', f.value)
                ret, params = METHODS[f.attr]
                if x.keywords or len(x.args) != len(params):
                    raise TrErr('arguments of ' + ast.unparse(x))
                args = []
                for a, (_, pt) in zip(x.args, params):
                    v, t = self.te(a)
                    self.want(t, pt, a)
                    args.append(v)
                return self.bind(' '.join([f.attr, 'n', recv] + args), ret)
        raise TrErr('call ' + ast.unparse(x))

    def construct(self, x):
        cname = x.func.id
        lean, fields = CLASSES[cname]
        ftype = dict(self.mod.fields[cname])
        if len(x.args) > len(fields):
            raise TrErr('constructor call ' + ast.unparse(x))
        pairs = list(zip(fields, x.args)) + [(kw.arg, kw.value) for kw in x.keywords]
        names = [k for k, _ in pairs]
        if None in names or len(set(names)) != len(names) or not set(names) <= set(fields):
            raise TrErr('constructor call ' + ast.unparse(x))
        vals = {}
        for fld, a in pairs:                         # evaluated in the order of the source
            want = ftype[fld]
            if want == 'Var' and isinstance(a, ast.Call) and isinstance(a.func, ast.Name) and a.func.id == self.mod.var_class[cname] \
                    and len(a.args) == 1 and not a.keywords:
                v, t = self.te(a.args[0])            # var=EVar(evar_id): the variable object is its id in the model
                self.want(t, 'Int', a.args[0])
            else:
                v, t = self.te(a)
                self.want(t, want, a)
            vals[fld] = v
        for fld in fields:
            if fld not in vals:
                if self.mod.defaults[cname].get(fld) == '()':
                    vals[fld] = '[]'
                else:
                    raise TrErr(f'constructor call without {fld}: ' + ast.unparse(x))
        return f'(NPat.{lean} {" ".join(vals[fld] for fld in fields)})', 'Pat'

    def items_of(self, it):
        if not (isinstance(it, ast.Call) and isinstance(it.func, ast.Attribute) and it.func.attr == 'items' and not it.args and not it.keywords):
            raise TrErr('iteration over ' + ast.unparse(it) + ' (only `<dict>.items()`)')
        d, dt = self.te(it.func.value)
        self.want(dt, 'Dict', it.func.value)
        return d

    def scope(self):
        """the names a lifted comprehension can refer to: (lean name, lean type)"""
        s = [('p', 'NPat')] + [('b_' + f, lty(self.ftype[f])) for f in self.fields]
        s += [('a_' + p, lty(t)) for p, t in self.pty.items() if p not in self.locals]
        s += [('v_' + v, lty(t)) for v, t in self.locals.items()]
        return s

    def dictcomp(self, x):
        src = ast.unparse(x)
        if len(x.generators) != 1:
            raise TrErr('comprehension ' + src)
        g = x.generators[0]
        tg = g.target
        if g.is_async or not (isinstance(tg, ast.Tuple) and len(tg.elts) == 2 and all(isinstance(n, ast.Name) for n in tg.elts)):
            raise TrErr('comprehension ' + src)
        k, v = tg.elts[0].id, tg.elts[1].id
        d = self.items_of(g.iter)
        if not (isinstance(x.key, ast.Name) and x.key.id == k):
            raise TrErr('comprehension whose key is not the key of the iterated dictionary: ' + src)
        outer_scope = self.scope()
        save_locals, save_binds = dict(self.locals), self.binds
        self.locals[k], self.locals[v] = 'Int', 'Pat'
        self.binds = []
        try:
            conds = []
            for c in g.ifs:
                a, t = self.te(c)
                conds.append(self.truth(a, t, c))
            if self.binds:
                raise TrErr('a comprehension condition that calls a method: ' + src)
            va, vt = self.te(x.value)
            self.want(vt, 'Pat', x.value)
            vbinds = self.binds
        finally:
            self.locals, self.binds = save_locals, save_binds
        cond = '(' + ' && '.join(conds) + ')' if conds else None
        if not vbinds:
            s = d
            if cond:
                s = f'(filterItems (fun v_{k} v_{v} => {cond}) {s})'
            if va != f'v_{v}':
                s = f'(mapItems (fun v_{k} v_{v} => {va}) {s})'
            return s, 'Dict'
        # the element expression calls a method: a recursive function of its own
        self.ncomp += 1
        name = f'{self.cls}_{self.meth.strip("_")}_dictcomp{self.ncomp}'
        text = ' '.join(vbinds + [va] + conds)
        fvs = [(nm, ty) for nm, ty in outer_scope if nm not in (f'v_{k}', f'v_{v}') and re.search(r'(?<![\w.«])' + re.escape(nm) + r'(?![\w»])', text)]
        fnames = ' '.join(nm for nm, _ in fvs)
        sep = (fnames + ' ') if fvs else ''
        tr = self.fresh()
        rec = f'{name} n {sep}rest'
        body = vbinds + [f'({rec}) >>= fun {tr} =>', f'pure ((v_{k}, {va}) :: {tr})']
        if cond:
            body = [f'if {cond} then ('] + indent(body[:-1] + [body[-1] + ') else']) + [rec]
        arrow = ' → '.join(['Nat'] + [paren(ty) for _, ty in fvs] + ['Dict', 'Option Dict'])
        commas = ''.join(', ' + nm for nm, _ in fvs)
        self.mod.lifted.append(
            [f'/-- the comprehension `{src}` of `{self.cls}.{self.meth}`: a frame of its own, one unit of fuel per element -/',
             f'def {name} : {arrow}',
             '  | 0' + ', _' * (len(fvs) + 1) + ' => none',
             f'  | n + 1{commas}, [] => pure []',
             f'  | n + 1{commas}, (v_{k}, v_{v}) :: rest =>'] + indent(body, 2))
        return self.bind(f'{name} n {sep}{d}', 'Dict')

    # ---- statements --------------------------------------------------------------------------
    def comment(self, st):
        src = ast.unparse(st).split('\n')
        return '-- ' + src[0] + (' …' if len(src) > 1 else '')

    def finish(self, a):
        b = self.flush()
        if self.wrap:
            return b + [f'pure (some {a})']
        if b and b[-1].endswith(f') >>= fun {a} =>'):
            last = b[-1][:-len(f' >>= fun {a} =>')]
            return b[:-1] + [last]
        return b + [f'pure {a}']

    def block(self, stmts):
        stmts = no_doc(stmts)
        if not stmts:
            raise TrErr('the method can end without `return`')
        st, rest = stmts[0], list(stmts[1:])
        out = [self.comment(st)]
        if isinstance(st, ast.Return):
            if rest:
                raise TrErr('statement after return')
            if st.value is None:
                raise TrErr('return without a value')
            if self.wrap and isinstance(st.value, ast.Name) and st.value.id == 'NotImplemented':
                return out + ['pure none']
            a, t = self.te(st.value)
            self.want(t, self.ret, st.value)
            return out + self.finish(a)
        if isinstance(st, ast.Assert):
            t = st.test
            if isinstance(t, ast.Call) and isinstance(t.func, ast.Attribute) and t.func.attr == 'can_be_replaced_by' and self.mod.stub_ok:
                return out + self.block(rest)          # `MetaVar.can_be_replaced_by` is the stub `return True` (checked)
            raise TrErr('assert ' + ast.unparse(t))
        if isinstance(st, ast.If):
            if not terminates(st.body):
                raise TrErr('an `if` whose body does not end in `return`: ' + ast.unparse(st.test))
            c, t = self.te(st.test)
            c = self.truth(c, t, st.test)
            pre = self.flush()
            g = None
            ts = st.test
            if isinstance(ts, ast.Compare) and len(ts.ops) == 1 and isinstance(ts.ops[0], ast.In):
                g = (ast.dump(ts.left), ast.dump(ts.comparators[0]))
            if g:
                self.guards.append(g)
            save = dict(self.locals)
            a = self.block(list(st.body))
            self.locals = save
            if g:
                self.guards.pop()
            if st.orelse and terminates(list(st.orelse)) and rest:
                raise TrErr('statement after return')
            b = self.block(list(st.orelse) + ([] if st.orelse and terminates(list(st.orelse)) else rest))
            a = indent(a)
            a[-1] += ') else'
            return out + pre + [f'if {c} then ('] + a + b
        if isinstance(st, ast.AnnAssign) and isinstance(st.target, ast.Name) and st.value is not None:
            return out + self.assign(st.target.id, st.value, rest)
        if isinstance(st, ast.Assign) and len(st.targets) == 1:
            tg = st.targets[0]
            if isinstance(tg, ast.Name):
                return out + self.assign(tg.id, st.value, rest)
            if isinstance(tg, ast.Subscript) and isinstance(tg.value, ast.Name) and self.locals.get(tg.value.id) == 'Dict':
                kk, kt = self.te(tg.slice)
                vv, vt = self.te(st.value)
                if kt != 'Int' or vt != 'Pat':
                    raise TrErr('item assignment ' + ast.unparse(st))
                nm = tg.value.id
                return out + self.flush() + [f'let v_{nm} : Dict := dictSet v_{nm} {kk} {vv}'] + self.block(rest)
            raise TrErr('assignment target ' + ast.unparse(tg))
        if isinstance(st, ast.For):
            return out + self.for_stmt(st, rest)
        raise TrErr('statement ' + ast.unparse(st).split('\n')[0])

    def assign(self, name, value, rest):
        if name == 'self':
            raise TrErr('assignment to self')
        a, t = self.te(value)
        if t not in ('Pat', 'Int', 'Bool', 'Set', 'Dict'):
            raise TrErr(f'a local of type {t}')
        pre = self.flush()
        self.locals[name] = t
        return pre + [f'let v_{name} : {lty(t)} := {a}'] + self.block(rest)

    def assigned(self, stmts):
        names = []
        for s in stmts:
            for n in ast.walk(s):
                tgs = n.targets if isinstance(n, ast.Assign) else [n.target] if isinstance(n, (ast.AnnAssign, ast.AugAssign, ast.NamedExpr)) else []
                if isinstance(n, ast.Expr) and isinstance(n.value, ast.Call) and isinstance(n.value.func, ast.Attribute) \
                        and n.value.func.attr == 'add' and isinstance(n.value.func.value, ast.Name):
                    tgs = [n.value.func.value]
                for tg in tgs:
                    while isinstance(tg, ast.Subscript):
                        tg = tg.value
                    if not isinstance(tg, ast.Name):
                        raise TrErr('assignment target ' + ast.unparse(tg))
                    if tg.id not in names:
                        names.append(tg.id)
        return names

    def for_stmt(self, st, rest):
        if st.orelse:
            raise TrErr('for/else')
        tg = st.target
        if not (isinstance(tg, ast.Tuple) and len(tg.elts) == 2 and all(isinstance(n, ast.Name) for n in tg.elts)):
            raise TrErr('for loop ' + ast.unparse(st).split('\n')[0])
        d = self.items_of(st.iter)
        pre = self.flush()
        k, v = tg.elts[0].id, tg.elts[1].id
        names = self.assigned(st.body)
        if len(names) != 1 or names[0] not in self.locals or names[0] in (k, v):
            raise TrErr(f'a `for` loop whose body assigns {names} (exactly one local that exists before the loop)')
        s = names[0]
        save = dict(self.locals)
        self.locals[k], self.locals[v] = 'Int', 'Pat'
        try:
            expr = self.upd(list(st.body), s)
        finally:
            self.locals = save
        if self.binds:
            self.binds = []
            raise TrErr('a `for` loop whose body calls a method or compares patterns')
        return pre + [f'let v_{s} : {lty(self.locals[s])} := forItems {d} v_{s} (fun v_{k} v_{v} v_{s} =>', f'  {expr})'] + self.block(rest)

    def upd(self, stmts, s):
        """call-free statements that update the local `s`: the new value of `s` as an expression"""
        stmts = no_doc(stmts)
        if not stmts:
            return f'v_{s}'
        st, rest = stmts[0], stmts[1:]
        sty = self.locals[s]
        if isinstance(st, ast.Pass):
            new = f'v_{s}'
        elif isinstance(st, ast.Assign) and len(st.targets) == 1 and isinstance(st.targets[0], ast.Subscript) \
                and isinstance(st.targets[0].value, ast.Name) and st.targets[0].value.id == s and sty == 'Dict':
            kk, kt = self.te(st.targets[0].slice)
            vv, vt = self.te(st.value)
            if kt != 'Int' or vt != 'Pat':
                raise TrErr('item assignment ' + ast.unparse(st))
            new = f'(dictSet v_{s} {kk} {vv})'
        elif isinstance(st, ast.Assign) and len(st.targets) == 1 and isinstance(st.targets[0], ast.Name) and st.targets[0].id == s:
            new, t = self.te(st.value)
            self.want(t, sty, st.value)
        elif isinstance(st, ast.Expr) and isinstance(st.value, ast.Call) and isinstance(st.value.func, ast.Attribute) and st.value.func.attr == 'add' \
                and isinstance(st.value.func.value, ast.Name) and st.value.func.value.id == s and sty == 'Set' and len(st.value.args) == 1:
            a, t = self.te(st.value.args[0])
            self.want(t, 'Int', st.value.args[0])
            new = f'(v_{s} ++ [{a}])'
        elif isinstance(st, ast.If):
            c, t = self.te(st.test)
            c = self.truth(c, t, st.test)
            new = f'(if {c} then {self.upd(list(st.body), s)} else {self.upd(list(st.orelse), s)})'
        else:
            raise TrErr('statement in a `for` loop: ' + ast.unparse(st).split('\n')[0])
        if not rest:
            return new
        return f'(let v_{s} := {new}; {self.upd(rest, s)})'


class Module:
    def __init__(self, tree):
        self.tree = tree
        self.problems = []
        self.classes = {n.name: n for n in tree.body if isinstance(n, ast.ClassDef)}
        self.fields, self.defaults, self.var_class = {}, {}, {}
        self.lifted = []
        self.stub_ok = False
        self.simplify_expr = None
        self.eq_generated = {}

    def problem(self, s):
        self.problems.append('PyNotation: ' + s)

    def meths(self, cls):
        node = self.classes.get(cls)
        return {n.name: n for n in (node.body if node else []) if isinstance(n, ast.FunctionDef)}

    def scan(self):
        ok = True
        for cls, (con, order) in CLASSES.items():
            node = self.classes.get(cls)
            self.fields[cls], self.defaults[cls], self.var_class[cls] = [], {}, None
            if node is None:
                self.problem(f'class {cls} not found'); ok = False
                continue
            bases = [ast.unparse(b) for b in node.bases]
            if bases != ['Pattern']:
                self.problem(f'{cls} has base classes {bases}, expected [Pattern] (the reflected `__eq__` is tried first for a subclass)'); ok = False
            # `eq=True` (the default) generates `__eq__` unless the class defines one; `frozen` / `order` do not change it
            decos = [ast.unparse(d) for d in node.decorator_list]
            if decos not in (['dataclass(frozen=True)'], ['dataclass(frozen=True, eq=True)'], ['dataclass(eq=True, frozen=True)']):
                self.problem(f'{cls} is decorated {decos}, expected [dataclass(frozen=True)]'); ok = False
            for n in node.body:
                if isinstance(n, ast.AnnAssign) and isinstance(n.target, ast.Name):
                    u = ast.unparse(n.annotation)
                    if u not in FIELD_ANN:
                        self.problem(f'{cls}.{n.target.id}: field annotation {u}'); ok = False
                        continue
                    self.fields[cls].append((n.target.id, FIELD_ANN[u]))
                    if u in ('EVar', 'SVar'):
                        self.var_class[cls] = u
                    if n.value is not None:
                        v = ast.unparse(n.value)
                        self.defaults[cls][n.target.id] = v
                        if not (isinstance(n.value, ast.Tuple) and not n.value.elts):
                            # `field(compare=False)` and the like would change the generated `__eq__`
                            self.problem(f'{cls}.{n.target.id} has the default {v} (only `()` is understood)'); ok = False
                elif isinstance(n, ast.Assign):
                    self.problem(f'{cls}: class attribute {ast.unparse(n)}'); ok = False
            if [f for f, _ in self.fields[cls]] != order:
                self.problem(f'{cls} has the fields {[f for f, _ in self.fields[cls]]}, the model has {order}'); ok = False
            for special in ('__ne__', '__hash__', '__getattribute__', '__getattr__', '__post_init__', '__new__', '__init__'):
                if special in self.meths(cls):
                    self.problem(f'{cls} defines {special}'); ok = False
        base = self.classes.get('Pattern')
        if base is None or base.bases or base.decorator_list:
            self.problem('class Pattern not found, or it has base classes / decorators'); ok = False
        elif EQ in self.meths('Pattern'):
            self.problem('Pattern defines __eq__'); ok = False
        cb = self.meths('MetaVar').get('can_be_replaced_by')
        self.stub_ok = cb is not None and [ast.unparse(s) for s in no_doc(cb.body)] == ['return True']
        if not self.stub_ok:
            self.problem('MetaVar.can_be_replaced_by is no longer the stub `return True`: the model of instantiate must be revisited'); ok = False
        sm = self.meths('Instantiate').get('simplify')
        if sm is not None and not sm.decorator_list and [a.arg for a in sm.args.args] == ['self']:
            body = no_doc(sm.body)
            if len(body) == 1 and isinstance(body[0], ast.Return) and body[0].value is not None:
                self.simplify_expr = body[0].value
        for cls in CLASSES:
            if cls != 'Instantiate' and 'simplify' in self.meths(cls):
                self.problem(f'{cls} defines simplify'); ok = False
        return ok

    def method(self, cls, name, params, ret, wrap=False):
        """the arm of class `cls` in the function `name`; None (and a problem) if it cannot be translated"""
        fn = self.meths(cls).get(name)
        if fn is None:
            self.problem(f'{cls}.{name} not found')
            return None
        if fn.decorator_list:
            self.problem(f'{cls}.{name} is decorated')
            return None
        a = fn.args
        if a.vararg or a.kwarg or a.kwonlyargs or a.posonlyargs or a.defaults or not a.args or a.args[0].arg != 'self':
            self.problem(f'{cls}.{name}: parameter list')
            return None
        got = [(p.arg, PARAM_ANN.get(ast.unparse(p.annotation)) if p.annotation else None) for p in a.args[1:]]
        if params is None:                      # `__eq__`: one parameter, any name
            if len(got) != 1 or got[0][1] != 'Pat':
                self.problem(f'{cls}.{name} has parameters {got}')
                return None
            params = got
        elif got != params:
            self.problem(f'{cls}.{name} has parameters {got}, expected {params}')
            return None
        r = RET_ANN.get(ast.unparse(fn.returns)) if fn.returns else None
        if r != ret:
            self.problem(f'{cls}.{name} returns {ast.unparse(fn.returns) if fn.returns else None}')
            return None
        tr = NTr(self, cls, name, params, ret, wrap)
        try:
            body = tr.block(list(fn.body))
        except TrErr as ex:
            self.problem(f'{cls}.{name}: {ex}')
            return None
        con, order = CLASSES[cls]
        head = f'  | n + 1, p@(.{con} {" ".join("b_" + f for f in order)})' + ''.join(', a_' + p for p, _ in params) + ' =>'
        return [head, f'    -- {cls}.{name}'] + indent(body, 2)

    def dataclass_eq(self, cls):
        """the `__eq__` that `dataclass(eq=True)` adds to a class that does not define one (CPython `dataclasses._cmp_fn`)"""
        con, order = CLASSES[cls]
        ftype = dict(self.fields[cls])
        tup = lambda who: '(' + ', '.join(f'{who}.{f}' for f in order) + (',' if len(order) == 1 else '') + ')'
        lines = [f'  | n + 1, p@(.{con} {" ".join("b_" + f for f in order)}), a_other =>',
                 f'    -- {cls}.__eq__, generated by @dataclass: if other.__class__ is self.__class__: return {tup("self")} == {tup("other")}',
                 '    match a_other with',
                 f'    | .{con} {" ".join("o_" + f for f in order)} =>']
        k = 0
        for f in order:
            if ftype[f] == 'Pat':
                k += 1
                lines.append(f'      (opEq ({EQ} n) b_{f} o_{f}) >>= fun t{k} =>')
                lines.append(f'      if (!t{k}) then pure (some false) else')
            else:
                lines.append(f'      if (!(b_{f} == o_{f})) then pure (some false) else')
        lines += ['      pure (some true)', '    | _ =>', '      -- return NotImplemented', '      pure none']
        return lines


SIGS = {'instantiate': 'Nat → NPat → Dict → Option NPat', 'metavars': 'Nat → NPat → Option (List VId)',
        'apply_esubst': 'Nat → NPat → VId → NPat → Option NPat', 'apply_ssubst': 'Nat → NPat → VId → NPat → Option NPat',
        'evar_is_free': 'Nat → NPat → VId → Option Bool'}
DOCS = {'instantiate': '`p.instantiate(delta)`', 'metavars': '`p.metavars()` (a set, as the list of its elements in the order of construction)',
        'apply_esubst': '`p.apply_esubst(evar_id, plug)`', 'apply_ssubst': '`p.apply_ssubst(svar_id, plug)`',
        'evar_is_free': '`p.evar_is_free(name)`'}


def gen_py_notation(srcpath=None, outdir=None):
    """srcpath: the pattern.py to read (default: /repo's); outdir: where PyNotation.lean is written (default: lean/Pi2/Gen)"""
    path = srcpath or os.path.join(core.PYSRC, 'proof_generation', 'pattern.py')
    head = ['import Pi2.NotSupport',
            '/-! GENERATED by /verif/vlib/transnot.py from the eleven pattern classes (`EVar` … `SSubst`, `Instantiate`) of',
            'generation/src/proof_generation/pattern.py: the methods `instantiate`, `metavars`, `apply_esubst`, `apply_ssubst`,',
            '`evar_is_free`, `__eq__` (written, or generated by `@dataclass`) and `Instantiate.simplify`, statement by statement,',
            'on patterns with notation (`NPat`) — do not edit.',
            '`Pi2/NotTie.lean` proves these equal to the hand-written `NPat.instF`, `mapF`, `metavarsF`, `esubF`, `ssubF`, `simplifyF`,',
            '`peqF`, `evarIsFreeF`. -/',
            'open PyM PyN',
            'set_option linter.unusedVariables false',
            'namespace Gen.PyNot']
    lines = []
    problems = []
    ok = True
    try:
        mod = Module(ast.parse(open(path, encoding='utf-8').read()))
    except (OSError, SyntaxError) as ex:
        problems.append(f'PyNotation: {path}: {ex}')
        mod, ok = None, False
    if mod is not None:
        ok = mod.scan()
        funs = []
        if ok:
            for m, (ret, params) in METHODS.items():
                arms = []
                for cls in CLASSES:
                    arm = mod.method(cls, m, params, ret)
                    if arm is None:
                        ok = False
                    else:
                        arms += arm
                funs.append([f'/-- {DOCS[m]}, class by class -/', f'def {m} : {SIGS[m]}',
                             '  | 0' + ', _' * (1 + len(params)) + ' => none'] + arms)
            arms = []
            for cls in CLASSES:
                if EQ in mod.meths(cls):
                    arm = mod.method(cls, EQ, None, 'Bool', wrap=True)
                else:
                    arm = mod.dataclass_eq(cls)
                if arm is None:
                    ok = False
                else:
                    arms += arm
            funs.append(['/-- `p.__eq__(o)`, class by class; `some none` = `NotImplemented` -/',
                         f'def {EQ} : Nat → NPat → NPat → Option (Option Bool)', '  | 0, _, _ => none'] + arms)
            simp = None
            if mod.simplify_expr is None:
                mod.problem('Instantiate.simplify is not of the form `return <expression>`'); ok = False
            else:
                tr = NTr(mod, 'Instantiate', 'simplify', [], 'Pat', wrap=True)
                try:
                    simp = tr.block(list(mod.meths('Instantiate')['simplify'].body))
                except TrErr as ex:
                    mod.problem(f'Instantiate.simplify: {ex}'); ok = False
        if ok:
            lines.append('mutual')
            for f in funs:
                lines += f
            for l in mod.lifted:
                lines += l
            lines.append('end')
            lines += ['/-- the operator `a == b` on patterns -/',
                      f'def eq (n : Nat) (a b : NPat) : Option Bool := opEq ({EQ} n) a b',
                      '/-- `p.simplify()`; `some none`: `p` is not an `Instantiate` (`AttributeError`) -/',
                      'def simplify (n : Nat) : NPat → Option (Option NPat)',
                      '  | p@(.inst b_pattern b_inst) =>',
                      '    -- Instantiate.simplify'] + indent(simp, 2) + ['  | _ => pure none']
        problems += mod.problems
    if not ok:
        lines = ['-- NOT TRANSLATED: ' + p for p in problems]
    lines = head + lines + [f'def translated : Bool := {"true" if ok else "false"}', 'end Gen.PyNot']
    from .translate import _write_if_changed, GEN
    _write_if_changed(os.path.join(outdir or GEN, 'PyNotation.lean'), '\n'.join(lines) + '\n')
    return problems


if __name__ == '__main__':
    import sys
    print(gen_py_notation(*sys.argv[1:3]))
