"""Translator: the DATA SLICE of the tautology prover (generation/src/proof_generation/tautology.py, Python `ast`) -> the Lean
functions of `Pi2/Gen/PyTaut.lean` (namespace `Gen.PyTaut`), statement by statement, regenerated on every run.
`Pi2/TautTie.lean` proves them equal to / refinements of the hand-written model `Pi2/Taut.lean`.
Target language: the primitives of `Pi2/TautSupport.lean`.

What is translated: the normal-form classes (`ConjForm` and its subclasses, `ResolutionHintSource`) and every method of
`Tautology` that is reachable from the ROOTS below through a call in a data position and does not return a `ProofThunk`.

The slice.  Every stage returns DATA (normal form / clause list / verdict) together with PROOF OBJECTS (`ProofThunk`s).
  * an expression whose type is `ProofThunk` (a call `self.m(..)` of a method annotated `-> ProofThunk` in tautology.py,
    proofs/propositional.py or proof.py; a variable all of whose bindings are such) is `()`; its arguments are not evaluated.
    `ProofThunk | None` is `Option Unit`: whether it is `None` is data.
  * LIVE variables = the least set containing the variables read by: the non-`ProofThunk` positions of `return`s, every `if` /
    `while` test, `for` iterable and `match` subject, every `assert`, every in-place mutation of a live object, and the right-hand
    sides of assignments to live variables / parameters that are mutated in place.
  * a statement is DROPPED (proof-only) iff it is an assignment all of whose targets are non-live variables, an expression
    statement that mutates nothing live, or an `if` / `for` / `match` all of whose bodies are dropped and whose test is free of
    effects.  The dropped statements are listed in the header of the generated file by line number.  A dropped statement is
    ASSUMED not to raise (its exceptions are failures of proof construction: C10 and the replay of the real proof objects in
    the check).  A proof-only value in a data position (`pf.conc` in a live test, ...) is a problem.
Conventions
  * every function returns `Option _` (`none` = raises / out of fuel) in `do` notation; an operation that can raise is bound to a
    temporary `t<k>_` before the statement it occurs in, in evaluation order.
  * a function that calls itself takes fuel and is defined by cases on it; a function that calls one passes its fuel on.
  * `for T in ITER: BODY` -> a function `<f>_for<k>` of its own.  If BODY does not mutate ITER: structural recursion on the list.
    If BODY mutates the list it iterates over (`l.append`, `l.remove`): CPython's list iterator, an index machine
    (`i_`, `l[i_]?`) with one unit of fuel per iteration.  The state = the variables that exist before the loop and are assigned
    / mutated by BODY (so a loop variable of an OUTER loop that an inner BODY rebinds is carried and the rebinding is seen by the
    following iterations).  `break` returns the state, `continue` / the end of BODY goes on; a loop that contains `return`
    answers `Ctl.ret v | Ctl.go state`.
  * an `if` that is followed by further statements: a branch that ends in `return / raise / break / continue` takes no
    continuation; if no branch contains a jump the assigned variables are joined in a tuple; otherwise the rest is emitted in
    each branch that falls through.
  * a parameter that a function mutates in place as a container (`hint[k] = v`, `l.append`) is returned next to the result and
    re-bound by the caller.  `x.negated = e` is the functional update of `x`; `x.f.negated = e` that of `x`.  ASSUMPTION: the
    normal-form trees are not shared (each node has one owner) — true of what `to_conj_form` builds.  A function that mutates
    attributes below a parameter leaves the caller's copy stale: reading the argument (or a part of it / a whole containing it)
    after the call in a kept statement is a problem.
Everything that is not recognised is reported as a problem and makes the generated file define `translated := false`."""
from __future__ import annotations

import ast
import os

from . import core

ROOTS = ['to_conj_form', 'propag_neg', 'to_cnf', 'to_clauses', 'resolvable', 'resolution_algorithm', 'is_trivial_clause',
         'start_resolution_algorithm', 'prove_tautology']
KEYWORDS = {'include', 'from', 'at', 'end', 'in', 'fun', 'match', 'do', 'then', 'else', 'have', 'show', 'open', 'variable',
            'omit', 'by', 'let', 'if', 'with', 'where', 'instance', 'class', 'structure', 'theorem', 'def', 'section',
            'namespace', 'import', 'export', 'prefix', 'infix', 'notation', 'macro', 'syntax', 'universe', 'mutual', 'local',
            'private', 'protected', 'partial', 'unsafe', 'axiom', 'example', 'abbrev', 'inductive', 'deriving', 'set_option',
            'attribute', 'return', 'for', 'unless', 'try', 'catch', 'finally', 'break', 'continue', 'nomatch', 'nofun', 'type',
            'Type', 'Prop', 'Sort', 'suffices', 'calc', 'using', 'extends', 'mut', 'this', 'pure', 'some', 'none', 'true',
            'false', 'fuel_', 'it_', 'i_'}
MUTATORS = {'append', 'remove', 'extend', 'pop', 'insert', 'clear', 'add', 'discard', 'update', 'sort', 'reverse', 'setdefault',
            'popitem'}

INT, BOOL, PAT, PROOF, FS, NONE = 'int', 'bool', 'pat', 'proof', 'fs', 'none'


class TrErr(Exception):
    pass


def lname(n):
    return f'«{n}»' if n in KEYWORDS else n


def first_line(node):
    return ast.unparse(node).splitlines()[0][:110]


def paren_ty(s):
    return f'({s})' if ' ' in s and not (s.startswith('(') and _closes(s)) else s


def _closes(s):
    d = 0
    for i, ch in enumerate(s):
        if ch == '(':
            d += 1
        elif ch == ')':
            d -= 1
            if d == 0 and i != len(s) - 1:
                return False
    return d == 0


def lean_ty(t):
    if t == INT:
        return 'Int'
    if t == BOOL:
        return 'Bool'
    if t == PAT:
        return 'Form'
    if t == PROOF:
        return 'Unit'
    if t == FS:
        return 'FrozenSet'
    if isinstance(t, tuple):
        if t[0] == 'opt':
            return f'Option {paren_ty(lean_ty(t[1]))}'
        if t[0] == 'list':
            if t[1] is None:
                raise TrErr('the element type of an empty list is unknown')
            return f'List {paren_ty(lean_ty(t[1]))}'
        if t[0] == 'tuple':
            return '(' + ' × '.join(paren_ty(lean_ty(x)) for x in t[1]) + ')'
        if t[0] == 'dict':
            if t[1] is None:
                raise TrErr('the type of an empty dict is unknown')
            return f'PyDict {paren_ty(lean_ty(t[1]))} {paren_ty(lean_ty(t[2]))}'
        if t[0] == 'cls':
            return t[1]
        if t[0] == 'union':
            return f'Sum {paren_ty(lean_ty(t[1]))} {paren_ty(lean_ty(t[2]))}'
    raise TrErr(f'no Lean type for {t}')


def is_kind(t, *kinds):
    return isinstance(t, tuple) and t[0] in kinds


def root_name(e):
    """x / x.f / x.f.g / x[i] -> x"""
    while isinstance(e, (ast.Attribute, ast.Subscript)):
        e = e.value
    return e.id if isinstance(e, ast.Name) else None


def access_path(e):
    """x.f.g -> ('x', 'f', 'g'); None if not a pure attribute path"""
    p = []
    while isinstance(e, ast.Attribute):
        p.append(e.attr)
        e = e.value
    if isinstance(e, ast.Name):
        return tuple([e.id] + p[::-1])
    return None


def terminal(stmts, dropped=()):
    stmts = [s for s in stmts if id(s) not in dropped]
    if not stmts:
        return False
    s = stmts[-1]
    if isinstance(s, (ast.Return, ast.Raise, ast.Continue, ast.Break)):
        return True
    if isinstance(s, ast.If):
        return bool(s.orelse) and terminal(s.body, dropped) and terminal(s.orelse, dropped)
    return False


def contains(stmts, kinds):
    return any(isinstance(x, kinds) for s in stmts for x in ast.walk(s))


def indent(lines, n=2):
    return [' ' * n + l for l in lines]


# ----------------------------------------------------------------------------------------------
# the module: type aliases, classes, method tables
# ----------------------------------------------------------------------------------------------

class ClassInfo:
    def __init__(self, node):
        self.node = node
        self.name = node.name
        self.bases = [b.id for b in node.bases if isinstance(b, ast.Name)]
        self.fields = []          # (name, annotation node) declared in the class body
        self.init = None
        for s in node.body:
            if isinstance(s, ast.AnnAssign) and isinstance(s.target, ast.Name) and s.value is None:
                self.fields.append((s.target.id, s.annotation))
            elif isinstance(s, ast.FunctionDef) and s.name == '__init__':
                self.init = s


class Mod:
    def __init__(self, src, extra_srcs):
        self.src = src
        self.lines = src.splitlines()
        self.tree = ast.parse(src)
        self.problems = []
        self.aliases = {}
        self.classes = {}
        self.module_funcs = {}
        self.taut = None
        for s in self.tree.body:
            if isinstance(s, ast.ClassDef):
                if s.name == 'Tautology':
                    self.taut = s
                else:
                    self.classes[s.name] = ClassInfo(s)
            elif isinstance(s, ast.FunctionDef):
                self.module_funcs[s.name] = s
        # families: root class -> [subclasses in source order]
        self.root_of = {}
        for c in self.classes.values():
            r = c
            seen = set()
            while r.bases and r.bases[0] in self.classes and r.name not in seen:
                seen.add(r.name)
                r = self.classes[r.bases[0]]
            self.root_of[c.name] = r.name
        for s in self.tree.body:
            if isinstance(s, ast.Assign) and len(s.targets) == 1 and isinstance(s.targets[0], ast.Name):
                try:
                    self.aliases[s.targets[0].id] = self.ann(s.value)
                except TrErr:
                    pass
        self.methods = {}
        self.method_ret = {}       # name -> annotation node (Tautology first, then the base classes)
        if self.taut is None:
            self.problems.append('no class Tautology')
        else:
            for s in self.taut.body:
                if isinstance(s, ast.FunctionDef):
                    self.methods[s.name] = s
                    self.method_ret[s.name] = s.returns
        for es in extra_srcs:
            try:
                t = ast.parse(es)
            except SyntaxError as ex:
                self.problems.append(f'cannot parse a base-class module: {ex}')
                continue
            for c in t.body:
                if isinstance(c, ast.ClassDef) and c.name in ('Propositional', 'ProofExp'):
                    for s in c.body:
                        if isinstance(s, ast.FunctionDef) and s.name not in self.method_ret:
                            self.method_ret[s.name] = s.returns
        self.proof_methods = {n for n, r in self.method_ret.items() if isinstance(r, ast.Name) and r.id == 'ProofThunk'}

    def ann(self, a):
        """annotation node -> type"""
        if a is None:
            raise TrErr('missing annotation')
        if isinstance(a, ast.Constant):
            if a.value is None:
                return NONE
            if isinstance(a.value, str):
                return self.ann(ast.parse(a.value, mode='eval').body)
        if isinstance(a, ast.Name):
            if a.id == 'int':
                return INT
            if a.id == 'bool':
                return BOOL
            if a.id == 'Pattern':
                return PAT
            if a.id == 'ProofThunk':
                return PROOF
            if a.id in self.classes:
                return ('cls', self.root_of[a.id])
            if a.id in self.aliases:
                return self.aliases[a.id]
        if isinstance(a, ast.Subscript) and isinstance(a.value, ast.Name):
            h = a.value.id
            args = a.slice.elts if isinstance(a.slice, ast.Tuple) else [a.slice]
            if h == 'list' and len(args) == 1:
                return ('list', self.ann(args[0]))
            if h in ('frozenset', 'set') and len(args) == 1 and self.ann(args[0]) == INT:
                return FS
            if h == 'dict' and len(args) == 2:
                return ('dict', self.ann(args[0]), self.ann(args[1]))
            if h == 'tuple':
                if len(args) == 2 and isinstance(args[1], ast.Constant) and args[1].value is Ellipsis:
                    return ('list', self.ann(args[0]))
                return ('tuple', tuple(self.ann(x) for x in args))
        if isinstance(a, ast.BinOp) and isinstance(a.op, ast.BitOr):
            l, r = self.ann(a.left), self.ann(a.right)
            if r == NONE:
                return ('opt', l)
            if l == NONE:
                return ('opt', r)
            return ('union', l, r)
        raise TrErr(f'annotation `{ast.unparse(a)}`')

    # ---- classes ------------------------------------------------------------------------------
    def family(self, root):
        return [c for c in self.classes.values() if self.root_of[c.name] == root]

    def all_fields(self, cname):
        """fields of a class including the inherited ones, base first"""
        c = self.classes[cname]
        out = []
        if c.bases and c.bases[0] in self.classes:
            out = self.all_fields(c.bases[0])
        for f, a in c.fields:
            if f not in [x for x, _ in out]:
                out.append((f, self.ann(a)))
        return out

    def ctors(self, root):
        """the instantiable members of a family: every class except a root that has subclasses"""
        fam = self.family(root)
        return [c for c in fam if not (c.name == root and len(fam) > 1)]

    def init_of(self, cname):
        c = self.classes[cname]
        while c.init is None and c.bases and c.bases[0] in self.classes:
            c = self.classes[c.bases[0]]
        return c.init, c.name

    def eval_init(self, cname, args):
        """symbolic evaluation of `cname(*args)`: field -> Lean text"""
        init, owner = self.init_of(cname)
        if init is None:
            raise TrErr(f'class {cname} has no __init__')
        params = [a.arg for a in init.args.args[1:]]
        if len(params) != len(args) or init.args.vararg or init.args.kwarg or init.args.defaults:
            raise TrErr(f'{cname}.__init__: arity / defaults')
        env = dict(zip(params, args))
        out = {}

        def val(e):
            if isinstance(e, ast.Name) and e.id in env:
                return env[e.id]
            if isinstance(e, ast.Constant) and isinstance(e.value, bool):
                return 'true' if e.value else 'false'
            if isinstance(e, ast.Constant) and isinstance(e.value, int):
                return f'({e.value} : Int)'
            raise TrErr(f'{owner}.__init__: expression `{ast.unparse(e)}`')
        for s in init.body:
            if isinstance(s, ast.Expr) and isinstance(s.value, ast.Constant) and isinstance(s.value.value, str):
                continue
            if (isinstance(s, ast.Expr) and isinstance(s.value, ast.Call) and isinstance(s.value.func, ast.Attribute)
                    and s.value.func.attr == '__init__' and isinstance(s.value.func.value, ast.Call)
                    and isinstance(s.value.func.value.func, ast.Name) and s.value.func.value.func.id == 'super'):
                base = self.classes[owner].bases[0] if self.classes[owner].bases else None
                if base not in self.classes:
                    raise TrErr(f'{owner}.__init__: super() of an unknown base')
                out.update(self.eval_init(base, [val(a) for a in s.value.args]))
                continue
            if (isinstance(s, ast.Assign) and len(s.targets) == 1 and isinstance(s.targets[0], ast.Attribute)
                    and isinstance(s.targets[0].value, ast.Name) and s.targets[0].value.id == 'self'):
                out[s.targets[0].attr] = val(s.value)
                continue
            raise TrErr(f'{owner}.__init__ line {s.lineno}: statement `{first_line(s)}`')
        return out

    def gen_classes(self, assigned_attrs):
        """Lean text of the class families"""
        out = []
        roots = []
        for c in self.classes.values():
            r = self.root_of[c.name]
            if r not in roots:
                roots.append(r)
        for r in roots:
            try:
                out += self.gen_family(r, assigned_attrs)
            except TrErr as ex:
                self.problems.append(f'class {r}: {ex}')
        return out

    def gen_family(self, root, assigned_attrs):
        out = []
        ctors = self.ctors(root)
        lab = (lambda c: 'mk') if len(ctors) == 1 else (lambda c: c.name)
        names = ', '.join(f'`{c.name}`' for c in self.family(root))
        out.append(f'/-- the class{"es" if len(self.family(root)) > 1 else ""} {names} (tautology.py line {self.classes[root].node.lineno}); '
                   f'one constructor per instantiable class, the fields in declaration order (inherited ones first) -/')
        out.append(f'inductive {root} where')
        for c in ctors:
            fs = self.all_fields(c.name)
            out.append(f'  | {lab(c)} ' + ' '.join(f'({lname(f)} : {lean_ty(t)})' for f, t in fs))
        out.append('deriving DecidableEq, Repr, Inhabited')
        # constructors as the __init__ methods compute them
        for c in ctors:
            init, owner = self.init_of(c.name)
            params = [a.arg for a in init.args.args[1:]] if init else []
            fs = self.all_fields(c.name)
            vals = self.eval_init(c.name, [lname(p) for p in params])
            ptys = []
            for p, a in zip(params, init.args.args[1:]):
                ptys.append(f'({lname(p)} : {lean_ty(self.ann(a.annotation))})')
            missing = [f for f, _ in fs if f not in vals]
            if missing:
                raise TrErr(f'{c.name}.__init__ does not set {missing}')
            extra = [f for f in vals if f not in [x for x, _ in fs]]
            if extra:
                raise TrErr(f'{c.name}.__init__ sets undeclared attributes {extra}')
            out.append(f'/-- `{c.name}(..)`: `{owner}.__init__` (line {init.lineno}) -/')
            out.append(f'def {c.name}_new {" ".join(ptys)} : {root} := .{lab(c)} ' + ' '.join(vals[f] for f, _ in fs))
        # isinstance
        if len(ctors) > 1:
            for c in ctors:
                desc = [d.name for d in ctors if self.is_sub(d.name, c.name)]
                arms = ' '.join(f'| .{d} .. => true' for d in desc)
                out.append(f'/-- `isinstance(x, {c.name})` -/')
                out.append(f'def {root}.is{c.name} : {root} → Bool {arms} | _ => false')
        # accessors
        allf = []
        for c in ctors:
            for f, t in self.all_fields(c.name):
                if f not in [x for x, _ in allf]:
                    allf.append((f, t))
        self.total_fields = getattr(self, 'total_fields', {})
        for f, t in allf:
            have = [c for c in ctors if f in [x for x, _ in self.all_fields(c.name)]]
            total = len(have) == len(ctors)
            self.total_fields[(root, f)] = (total, t)
            arms = []
            for c in have:
                fs = self.all_fields(c.name)
                pat = ' '.join('v_' if x == f else '_' for x, _ in fs)
                arms.append(f'| .{lab(c)} {pat} => ' + ('v_' if total else 'some v_'))
            if total:
                out.append(f'/-- `x.{f}` -/')
                out.append(f'def {root}.{lname(f)} : {root} → {lean_ty(t)} ' + ' '.join(arms))
            else:
                out.append(f'/-- `x.{f}` (`AttributeError` on a class without it) -/')
                out.append(f'def {root}.{lname(f)} : {root} → Option {paren_ty(lean_ty(t))} ' + ' '.join(arms) + ' | _ => none')
            if f in assigned_attrs:
                arms = []
                for c in have:
                    fs = self.all_fields(c.name)
                    pat = ' '.join('_' if x == f else f'a{i}_' for i, (x, _) in enumerate(fs))
                    rhs = ' '.join('v_' if x == f else f'a{i}_' for i, (x, _) in enumerate(fs))
                    arms.append(f'| .{lab(c)} {pat}, v_ => .{lab(c)} {rhs}')
                out.append(f'/-- `x.{f} = v` as a functional update' + ('' if total else ' (a class without the field: unchanged; the translator emits it only after reading `x.' + f + '`)') + ' -/')
                out.append(f'def {root}.set_{f} : {root} → {lean_ty(t)} → {root} ' + ' '.join(arms) + ('' if total else ' | x_, _ => x_'))
        return out

    def is_sub(self, a, b):
        while True:
            if a == b:
                return True
            c = self.classes.get(a)
            if not c or not c.bases or c.bases[0] not in self.classes:
                return False
            a = c.bases[0]


# ----------------------------------------------------------------------------------------------
# one function: the slice (pre-pass)
# ----------------------------------------------------------------------------------------------

class Fn:
    def __init__(self, mod, node, is_method):
        self.mod = mod
        self.node = node
        self.name = node.name
        self.is_method = is_method
        self.problems = []
        args = node.args.args[1:] if is_method else node.args.args
        if node.args.vararg or node.args.kwarg or node.args.defaults or node.args.kwonlyargs:
            self.problems.append(f'{self.name}: default / variadic parameters')
        self.params = []
        for a in args:
            try:
                self.params.append((a.arg, mod.ann(a.annotation)))
            except TrErr as ex:
                self.problems.append(f'{self.name}: parameter {a.arg}: {ex}')
                self.params.append((a.arg, None))
        try:
            self.ret = mod.ann(node.returns)
        except TrErr as ex:
            self.problems.append(f'{self.name}: return type: {ex}')
            self.ret = None
        self.body = node.body
        self.locals = self._locals()
        self.container_mut = self._container_mutated_params()
        self.attr_mut = self._attr_mutated_params()
        self.self_rec = any(self._is_call_of(x, self.name) for x in ast.walk(node))
        self.index_loops = any(isinstance(x, ast.For) and isinstance(x.iter, ast.Name)
                               and x.iter.id in self._mutated_containers(x.body) for x in ast.walk(node))
        self.fuel = self.self_rec or self.index_loops    # closed over the call graph by translate_source
        self.calls = set()
        self.dropped = set()
        self.dropped_list = []

    # ---- syntactic helpers ----------------------------------------------------------------
    def _is_call_of(self, x, name):
        return (isinstance(x, ast.Call) and isinstance(x.func, ast.Attribute) and isinstance(x.func.value, ast.Name)
                and x.func.value.id == 'self' and x.func.attr == name)

    def self_call(self, x):
        if (isinstance(x, ast.Call) and isinstance(x.func, ast.Attribute) and isinstance(x.func.value, ast.Name)
                and x.func.value.id == 'self'):
            return x.func.attr
        return None

    def _locals(self):
        out = [p for p, _ in self.params]

        def target(t):
            if isinstance(t, ast.Name):
                if t.id not in out:
                    out.append(t.id)
            elif isinstance(t, (ast.Tuple, ast.List)):
                for x in t.elts:
                    target(x)
            elif isinstance(t, ast.Starred):
                target(t.value)
        for n in ast.walk(self.node):
            if isinstance(n, ast.Assign):
                for t in n.targets:
                    target(t)
            elif isinstance(n, (ast.AugAssign, ast.AnnAssign, ast.For, ast.NamedExpr)):
                target(n.target)
            elif isinstance(n, ast.comprehension):
                target(n.target)
        return out

    def _mutated_containers(self, stmts):
        """names mutated in place as containers (method mutators, `x[k] = v`, `del x[k]`) by the statements"""
        out = []
        for s in stmts:
            for n in ast.walk(s):
                r = None
                if isinstance(n, ast.Call) and isinstance(n.func, ast.Attribute) and n.func.attr in MUTATORS:
                    r = n.func.value.id if isinstance(n.func.value, ast.Name) else None
                elif isinstance(n, (ast.Assign, ast.AugAssign)):
                    for t in (n.targets if isinstance(n, ast.Assign) else [n.target]):
                        if isinstance(t, ast.Subscript) and isinstance(t.value, ast.Name) and t.value.id not in out:
                            out.append(t.value.id)
                elif isinstance(n, ast.Delete):
                    for t in n.targets:
                        if isinstance(t, ast.Subscript) and isinstance(t.value, ast.Name) and t.value.id not in out:
                            out.append(t.value.id)
                if r is not None and r not in out:
                    out.append(r)
        return out

    def _container_mutated_params(self):
        direct = self._mutated_containers(self.body)
        return [p for p, _ in self.params if p in direct]

    def _attr_mutated_params(self):
        out = []
        for n in ast.walk(self.node):
            if isinstance(n, (ast.Assign, ast.AugAssign)):
                for t in (n.targets if isinstance(n, ast.Assign) else [n.target]):
                    if isinstance(t, ast.Attribute):
                        r = root_name(t)
                        if r in [p for p, _ in self.params] and r not in out:
                            out.append(r)
        return out

    # ---- proof-typed expressions ----------------------------------------------------------
    def proof_call(self, e):
        n = self.self_call(e)
        return n is not None and n in self.mod.proof_methods

    def proofish(self, e):
        """an expression whose value is (built from) proof objects only"""
        if self.proof_call(e):
            return True
        if isinstance(e, ast.Name):
            return e.id in self.proofvars
        if isinstance(e, (ast.Attribute, ast.Subscript, ast.Starred)):
            return self.proofish(e.value)
        if isinstance(e, ast.Call) and isinstance(e.func, ast.Name) and e.func.id in ('reversed', 'list', 'tuple', 'reduce') and e.args:
            return all(self.proofish(a) or (isinstance(a, ast.Attribute) and root_name(a) == 'self') for a in e.args) and any(self.proofish(a) for a in e.args)
        if isinstance(e, ast.ListComp):
            saved = set(self.proofvars)
            ok = self.proofish(e.elt)
            self.proofvars = saved
            return ok
        if isinstance(e, (ast.Tuple, ast.List)) and e.elts:
            return all(self.proofish(x) for x in e.elts)
        return False

    def ret_positions(self, fname):
        """types of the positions of the tuple a translated / known method returns (None: not a tuple)"""
        r = self.mod.method_ret.get(fname)
        if r is None:
            return None
        try:
            t = self.mod.ann(r)
        except TrErr:
            return None
        if is_kind(t, 'opt'):
            t = t[1]
        if is_kind(t, 'tuple'):
            return list(t[1])
        return None

    def bindings(self):
        """(name, kind, value-or-None) for every binding in the function; kind: 'proof' | 'other'"""
        out = []

        def bind(t, v, kind=None):
            if isinstance(t, ast.Name):
                if kind is None:
                    kind = 'proof' if (v is not None and self.proofish(v)) else 'other'
                out.append((t.id, kind))
            elif isinstance(t, (ast.Tuple, ast.List)):
                pos = None
                if v is not None and self.self_call(v):
                    pos = self.ret_positions(self.self_call(v))
                if isinstance(v, (ast.Tuple, ast.List)) and len(v.elts) == len(t.elts):
                    for x, y in zip(t.elts, v.elts):
                        bind(x, y)
                elif pos is not None and len(pos) == len(t.elts):
                    for x, p in zip(t.elts, pos):
                        bind(x, None, 'proof' if p == PROOF else 'other')
                else:
                    for x in t.elts:
                        bind(x, None, 'proof' if (v is not None and self.proofish(v)) else 'other')
        for p, t in self.params:
            out.append((p, 'proof' if t == PROOF else 'other'))
        declared = set()        # `x: ProofThunk = ..` declares x for the whole function
        for n in ast.walk(self.node):
            if isinstance(n, ast.AnnAssign) and isinstance(n.target, ast.Name):
                try:
                    if self.mod.ann(n.annotation) == PROOF:
                        declared.add(n.target.id)
                except TrErr:
                    pass
        for n in ast.walk(self.node):
            if isinstance(n, ast.Assign):
                for t in n.targets:
                    if isinstance(t, ast.Name) and t.id in declared:
                        out.append((t.id, 'proof'))
                    else:
                        bind(t, n.value)
            elif isinstance(n, ast.AnnAssign) and n.value is not None:
                isp = False
                try:
                    isp = self.mod.ann(n.annotation) == PROOF
                except TrErr:
                    pass
                bind(n.target, n.value, 'proof' if isp else None)
            elif isinstance(n, ast.AugAssign):
                bind(n.target, n.value)
            elif isinstance(n, ast.NamedExpr):
                bind(n.target, n.value)
            elif isinstance(n, ast.For):
                bind(n.target, None, 'proof' if self.proofish(n.iter) else 'other')
        return out

    def compute_proofvars(self):
        self.proofvars = set()
        while True:
            kinds = {}
            for name, kind in self.bindings():
                kinds.setdefault(name, set()).add(kind)
            new = {n for n, k in kinds.items() if k == {'proof'}}
            if new == self.proofvars:
                break
            self.proofvars = new
        for name, k in kinds.items():
            if k == {'proof', 'other'}:
                self.problems.append(f'{self.name}: variable {name} is bound both to proof objects and to data')

    # ---- liveness ---------------------------------------------------------------------------
    def loads(self, e):
        """local names an expression reads when evaluated as DATA (proof-typed subexpressions are not evaluated)"""
        out = set()

        def go(x, bound):
            if self.proofish(x):
                return
            if isinstance(x, ast.Name):
                if isinstance(x.ctx, ast.Load) and x.id in self.locals and x.id not in bound:
                    out.add(x.id)
                return
            if isinstance(x, (ast.ListComp, ast.SetComp, ast.GeneratorExp)):
                b = set(bound)
                for g in x.generators:
                    go(g.iter, b)
                    for t in ast.walk(g.target):
                        if isinstance(t, ast.Name):
                            b.add(t.id)
                    for c in g.ifs:
                        go(c, b)
                go(x.elt, b)
                return
            for c in ast.iter_child_nodes(x):
                go(c, bound)
        go(e, set())
        return out

    def mutating_calls(self, e):
        """(root name) of every in-place container mutation / call of a container-mutating translated method inside e"""
        out = []
        for n in ast.walk(e):
            if isinstance(n, ast.Call) and isinstance(n.func, ast.Attribute) and n.func.attr in MUTATORS:
                r = root_name(n.func.value)
                if r in self.locals:
                    out.append(r)
            m = self.self_call(n)
            if m and m in self.all_fns:
                f = self.all_fns[m]
                for (p, _), a in zip(f.params, n.args):
                    if p in f.container_mut and isinstance(a, ast.Name):
                        out.append(a.id)
        return out

    def effectful(self, e):
        if contains([e], ast.NamedExpr):
            return True
        for n in ast.walk(e):
            if isinstance(n, ast.Call) and isinstance(n.func, ast.Attribute) and n.func.attr in MUTATORS and root_name(n.func.value) in self.locals:
                return True
            m = self.self_call(n)
            if m and m in self.all_fns and (self.all_fns[m].container_mut or self.all_fns[m].attr_mut):
                return True
        return False

    def ret_data_exprs(self, s):
        """the sub-expressions of `return e` that are data"""
        if s.value is None:
            return []
        t = self.ret
        if is_kind(t, 'opt'):
            t = t[1]
        if is_kind(t, 'tuple') and isinstance(s.value, ast.Tuple) and len(s.value.elts) == len(t[1]):
            return [e for e, pt in zip(s.value.elts, t[1]) if pt != PROOF]
        return [s.value]

    def compute_live(self):
        live = set(self.container_mut)
        stmts = [n for n in ast.walk(self.node) if isinstance(n, ast.stmt)]
        changed = True
        while changed:
            before = len(live)
            for s in stmts:
                if isinstance(s, ast.Return):
                    for e in self.ret_data_exprs(s):
                        live |= self.loads(e)
                elif isinstance(s, (ast.If, ast.While)):
                    live |= self.loads(s.test)
                    for n in ast.walk(s.test):
                        if isinstance(n, ast.NamedExpr) and n.target.id in live:
                            live |= self.loads(n.value)
                elif isinstance(s, ast.For):
                    live |= self.loads(s.iter)
                elif isinstance(s, ast.Match):
                    live |= self.loads(s.subject)
                elif isinstance(s, ast.Assert):
                    live |= self.loads(s.test)
                elif isinstance(s, ast.Expr):
                    ms = self.mutating_calls(s.value)
                    if any(r in live for r in ms):
                        live |= self.loads(s.value)
                elif isinstance(s, (ast.Assign, ast.AnnAssign, ast.AugAssign)):
                    if getattr(s, 'value', None) is None:
                        continue
                    ts = s.targets if isinstance(s, ast.Assign) else [s.target]
                    hit = False
                    for t in ts:
                        for x in ([t] if not isinstance(t, (ast.Tuple, ast.List)) else t.elts):
                            if isinstance(x, ast.Starred):
                                x = x.value
                            if isinstance(x, ast.Name) and x.id in live:
                                hit = True
                            elif isinstance(x, (ast.Attribute, ast.Subscript)) and root_name(x) in live:
                                hit = True
                                live |= self.loads(x)
                    if any(r in live for r in self.mutating_calls(s.value)):
                        hit = True
                    if hit:
                        live |= self.loads(s.value)
                        if isinstance(s, ast.AugAssign):
                            live |= self.loads(s.target)
            changed = len(live) != before
        self.live = live

    # ---- dropped statements --------------------------------------------------------------
    def is_dropped(self, s):
        if isinstance(s, ast.Pass):
            return True
        if isinstance(s, (ast.Assign, ast.AnnAssign, ast.AugAssign)):
            if getattr(s, 'value', None) is None:
                return True
            ts = s.targets if isinstance(s, ast.Assign) else [s.target]
            for t in ts:
                for x in ([t] if not isinstance(t, (ast.Tuple, ast.List)) else t.elts):
                    if isinstance(x, ast.Starred):
                        x = x.value
                    if isinstance(x, ast.Name):
                        if x.id in self.live:
                            return False
                    elif root_name(x) in self.live or root_name(x) is None:
                        return False
            return not any(r in self.live for r in self.mutating_calls(s.value)) and not contains([s.value], ast.NamedExpr)
        if isinstance(s, ast.Expr):
            if isinstance(s.value, ast.Constant):
                return True
            return not any(r in self.live for r in self.mutating_calls(s.value)) and not contains([s.value], ast.NamedExpr)
        if isinstance(s, ast.If):
            return all(self.is_dropped(x) for x in s.body + s.orelse) and not self.effectful(s.test)
        if isinstance(s, ast.For):
            return all(self.is_dropped(x) for x in s.body + s.orelse) and not self.effectful(s.iter)
        if isinstance(s, ast.Match):
            return all(self.is_dropped(x) for c in s.cases for x in c.body) and not self.effectful(s.subject)
        return False

    def compute_dropped(self):
        self.dropped = set()
        self.dropped_list = []

        def walk(stmts, top):
            for s in stmts:
                if self.is_dropped(s):
                    for n in ast.walk(s):
                        if isinstance(n, ast.stmt):
                            self.dropped.add(id(n))
                    if not isinstance(s, ast.Pass) and not (isinstance(s, ast.Expr) and isinstance(s.value, ast.Constant)):
                        self.dropped_list.append(s)
                    continue
                for fld in ('body', 'orelse'):
                    if hasattr(s, fld) and isinstance(getattr(s, fld), list):
                        walk(getattr(s, fld), False)
                if isinstance(s, ast.Match):
                    for c in s.cases:
                        walk(c.body, False)
        walk(self.body, True)

    def prepass(self, all_fns):
        self.all_fns = all_fns
        self.compute_proofvars()
        self.compute_live()
        self.compute_dropped()
        # data calls of translated / translatable methods in kept statements
        self.calls = set()
        for s in ast.walk(self.node):
            if isinstance(s, ast.stmt) and id(s) not in self.dropped:
                for e in self.kept_exprs(s):
                    self._collect_calls(e)

    def kept_exprs(self, s):
        if isinstance(s, ast.Return):
            return self.ret_data_exprs(s)
        if isinstance(s, (ast.If, ast.While, ast.Assert)):
            return [s.test]
        if isinstance(s, ast.For):
            return [s.iter]
        if isinstance(s, ast.Expr):
            return [s.value]
        if isinstance(s, (ast.Assign, ast.AnnAssign, ast.AugAssign)) and getattr(s, 'value', None) is not None:
            return [s.value]
        return []

    def _collect_calls(self, e):
        if self.proofish(e):
            return
        m = self.self_call(e)
        if m and m not in self.mod.proof_methods:
            self.calls.add(m)
        for c in ast.iter_child_nodes(e):
            self._collect_calls(c)

    # ------------------------------------------------------------------------------------------
    # expressions: ex(e) -> (Lean text, type); operations that can raise go to self.pre
    # ------------------------------------------------------------------------------------------
    def tmp(self):
        self.ntmp += 1
        return f't{self.ntmp}_'

    def bindm(self, text, ty):
        t = self.tmp()
        self.pre.append(f'let {t} ← {text}')
        return t, ty

    def check_stale(self, e):
        p = access_path(e)
        if p is None or self.skip_stale:
            return
        for s in self.stale:
            n = min(len(s), len(p))
            if s[:n] == p[:n]:
                raise TrErr(f'`{".".join(p)}` is read after `{".".join(s)}` was passed to a method that mutates attributes below '
                            f'its parameter: the functional reading would be stale')

    def truthy(self, txt, ty):
        if ty == BOOL:
            return txt
        if is_kind(ty, 'list'):
            return f'(!(List.isEmpty {txt}))'
        if ty == FS:
            return f'(fsTruthy {txt})'
        if is_kind(ty, 'dict'):
            return f'(dictTruthy {txt})'
        if is_kind(ty, 'opt') and (is_kind(ty[1], 'tuple') and len(ty[1][1]) > 0 or is_kind(ty[1], 'cls') or ty[1] == PROOF):
            return f'(Option.isSome {txt})'
        if ty == INT:
            return f'({txt} != 0)'
        if is_kind(ty, 'tuple') and len(ty[1]) > 0:
            return 'true'
        raise TrErr(f'truth value of a {ty}')

    def cond(self, e):
        txt, ty = self.ex(e)
        return self.truthy(txt, ty)

    def ex(self, e, want=None):
        # proof-typed expressions are opaque
        if self.proofish(e):
            if self.proof_call(e) or isinstance(e, ast.Name):
                if is_kind(want, 'opt'):
                    return '(some ())', ('opt', PROOF)
                return '()', PROOF
            raise TrErr(f'the proof-only value `{ast.unparse(e)[:60]}` is used as data: the slice cannot be determined')
        if isinstance(e, ast.Constant):
            if e.value is None:
                return 'none', (want if is_kind(want, 'opt') else NONE)
            if isinstance(e.value, bool):
                return ('true' if e.value else 'false'), BOOL
            if isinstance(e.value, int):
                return (f'({e.value} : Int)' if e.value >= 0 else f'(-{-e.value} : Int)'), INT
            raise TrErr(f'constant {e.value!r}')
        if isinstance(e, ast.Name):
            if e.id not in self.env:
                if e.id in self.locals:
                    raise TrErr(f'variable {e.id} is read where it may be unbound / is proof-only')
                raise TrErr(f'global name {e.id}')
            self.check_stale(e)
            ty = self.env[e.id]
            if ty == PROOF:
                return '()', PROOF
            if is_kind(want, 'opt') and not is_kind(ty, 'opt') and ty != NONE:
                return f'(some {lname(e.id)})', ('opt', ty)
            return lname(e.id), ty
        if isinstance(e, ast.Attribute):
            return self.ex_attr(e)
        if isinstance(e, ast.Call):
            return self.ex_call(e, want)
        if isinstance(e, ast.Compare):
            return self.ex_compare(e)
        if isinstance(e, ast.BoolOp):
            parts = []
            for i, v in enumerate(e.values):
                saved = self.pre
                self.pre = []
                c = self.cond(v)
                mine, self.pre = self.pre, saved
                if mine and i > 0:
                    # short circuit: the later operand is evaluated only if needed
                    sofar = parts[0] if len(parts) == 1 else '(' + (' && ' if isinstance(e.op, ast.And) else ' || ').join(parts) + ')'
                    t = self.tmp()
                    body = '; '.join(mine + [f'pure {c}'])
                    if isinstance(e.op, ast.And):
                        self.pre.append(f'let {t} ← (if {sofar} then (do {body}) else pure false)')
                    else:
                        self.pre.append(f'let {t} ← (if {sofar} then pure true else (do {body}))')
                    parts = [t]
                else:
                    self.pre += mine
                    parts.append(c)
            if len(parts) == 1:
                return parts[0], BOOL
            return '(' + (' && ' if isinstance(e.op, ast.And) else ' || ').join(parts) + ')', BOOL
        if isinstance(e, ast.UnaryOp):
            if isinstance(e.op, ast.Not):
                return f'(!{self.cond(e.operand)})', BOOL
            if isinstance(e.op, ast.USub):
                t, ty = self.ex(e.operand)
                if ty != INT:
                    raise TrErr(f'unary minus on {ty}')
                return f'(-{t})', INT
            raise TrErr(f'operator `{ast.unparse(e)}`')
        if isinstance(e, ast.BinOp):
            a, ta = self.ex(e.left)
            b, tb = self.ex(e.right, ta if is_kind(ta, 'list') else None)
            if isinstance(e.op, ast.Add):
                if ta == INT and tb == INT:
                    return f'({a} + {b})', INT
                if is_kind(ta, 'list') and is_kind(tb, 'list'):
                    el = ta[1] if ta[1] is not None else tb[1]
                    if ta[1] is not None and tb[1] is not None and ta[1] != tb[1]:
                        raise TrErr(f'`+` on lists of {ta[1]} and {tb[1]}')
                    return f'({a} ++ {b})', ('list', el)
            if isinstance(e.op, ast.Sub) and ta == INT and tb == INT:
                return f'({a} - {b})', INT
            if isinstance(e.op, ast.Sub) and ta == FS and tb == FS:
                return f'(fsDiff {a} {b})', FS
            if isinstance(e.op, ast.BitOr) and ta == FS and tb == FS:
                return f'(fsUnion {a} {b})', FS
            if isinstance(e.op, ast.BitAnd) and ta == FS and tb == FS:
                return f'(fsInter {a} {b})', FS
            if isinstance(e.op, ast.Mult):
                if ta == INT and tb == INT:
                    return f'({a} * {b})', INT
                if is_kind(ta, 'list') and tb == INT:
                    return f'(pyRepeat {a} {b})', ta
            raise TrErr(f'operator `{ast.unparse(e)[:60]}` on {ta}, {tb}')
        if isinstance(e, ast.Subscript):
            v, tv = self.ex(e.value)
            if isinstance(e.slice, ast.Slice):
                if is_kind(tv, 'list') and e.slice.lower is not None and e.slice.upper is None and e.slice.step is None:
                    lo, tl = self.ex(e.slice.lower)
                    if tl == INT:
                        return f'(pySliceFrom {v} {lo})', tv
                raise TrErr(f'slice `{ast.unparse(e)}`')
            i, ti = self.ex(e.slice)
            if is_kind(tv, 'list') and ti == INT:
                return self.bindm(f'pyIndex {v} {i}', tv[1])
            if is_kind(tv, 'dict') and ti == tv[1]:
                return self.bindm(f'dictGet {v} {i}', tv[2])
            if is_kind(tv, 'tuple') and isinstance(e.slice, ast.Constant) and isinstance(e.slice.value, int) and 0 <= e.slice.value < len(tv[1]):
                k, n = e.slice.value, len(tv[1])
                proj = v + ''.join(['.2'] * k) + ('.1' if k < n - 1 else '')
                return f'({proj})', tv[1][k]
            raise TrErr(f'subscript `{ast.unparse(e)[:60]}` on {tv}')
        if isinstance(e, ast.List) or isinstance(e, ast.Tuple) and is_kind(want, 'list'):
            el = want[1] if is_kind(want, 'list') else None
            xs = []
            for x in e.elts:
                t, ty = self.ex(x, el)
                if el is None:
                    el = ty
                elif ty != el and not (is_kind(el, 'list') and is_kind(ty, 'list') and ty[1] is None):
                    raise TrErr(f'list literal with elements of {el} and {ty}')
                xs.append(t)
            if not xs:
                if el is None:
                    return '[]', ('list', None)
                return f'([] : {lean_ty(("list", el))})', ('list', el)
            return '[' + ', '.join(xs) + ']', ('list', el)
        if isinstance(e, ast.Tuple):
            wants = list(want[1]) if is_kind(want, 'tuple') and len(want[1]) == len(e.elts) else [None] * len(e.elts)
            xs = [self.ex(x, w) for x, w in zip(e.elts, wants)]
            return '(' + ', '.join(t for t, _ in xs) + ')', ('tuple', tuple(ty for _, ty in xs))
        if isinstance(e, ast.Set):
            xs = [self.ex(x) for x in e.elts]
            if any(ty != INT for _, ty in xs):
                raise TrErr('set literal of non-integers')
            return '(fsOfList [' + ', '.join(t for t, _ in xs) + '])', FS
        if isinstance(e, ast.Dict) and not e.keys:
            if is_kind(want, 'dict'):
                return f'([] : {lean_ty(want)})', want
            return '[]', ('dict', None, None)
        if isinstance(e, (ast.ListComp, ast.SetComp)):
            return self.ex_comp(e)
        if isinstance(e, ast.IfExp):
            c = self.cond(e.test)
            saved = self.pre
            self.pre = []
            a, ta = self.ex(e.body, want)
            b, tb = self.ex(e.orelse, want)
            inner, self.pre = self.pre, saved
            if inner:
                raise TrErr('conditional expression with operands that can raise')
            if ta != tb:
                raise TrErr(f'conditional expression of {ta} and {tb}')
            return f'(if {c} then {a} else {b})', ta
        raise TrErr(f'expression `{ast.unparse(e)[:60]}` ({type(e).__name__})')

    def ex_attr(self, e):
        self.skip_stale += 1
        try:
            v, tv = self.ex(e.value)
        finally:
            self.skip_stale -= 1
        self.check_stale(e)
        if tv == PAT and e.attr == 'name':
            return self.bindm(f'MetaVar_name {v}', INT)
        if is_kind(tv, 'cls'):
            key = (tv[1], e.attr)
            if key not in self.mod.total_fields:
                raise TrErr(f'class {tv[1]} has no field {e.attr}')
            total, ft = self.mod.total_fields[key]
            if total:
                return f'({tv[1]}.{lname(e.attr)} {v})', ft
            return self.bindm(f'{tv[1]}.{lname(e.attr)} {v}', ft)
        if tv == PROOF:
            raise TrErr(f'`{ast.unparse(e)}`: attribute of a ProofThunk in a data position: the slice cannot be determined')
        raise TrErr(f'attribute `{ast.unparse(e)[:60]}` of a {tv}')

    def ex_comp(self, e):
        if len(e.generators) != 1 or e.generators[0].is_async:
            raise TrErr('nested comprehension')
        g = e.generators[0]
        it, ti = self.ex(g.iter)
        if ti == FS:
            it, ti = f'(fsToList {it})', ('list', INT)
        if not is_kind(ti, 'list') or ti[1] is None:
            raise TrErr(f'comprehension over a {ti}')
        pat, binds = self.target_pattern(g.target, ti[1], all_live=True)
        saved_env, saved_pre = dict(self.env), self.pre
        self.env.update(binds)
        self.pre = []
        conds = [self.cond(c) for c in g.ifs]
        elt, te = self.ex(e.elt)
        inner, self.pre = self.pre, saved_pre
        self.env = saved_env
        if inner:
            raise TrErr('comprehension whose element can raise')
        src = it
        if conds:
            src = f'(List.filter (fun {pat} => {" && ".join(conds)}) {it})'
        r = f'(List.map (fun {pat} => {elt}) {src})'
        if isinstance(e, ast.SetComp):
            if te != INT:
                raise TrErr('set comprehension of non-integers')
            return f'(fsOfList {r})', FS
        return r, ('list', te)

    def ex_compare(self, e):
        if len(e.ops) > 1:
            parts = []
            left = e.left
            for op, right in zip(e.ops, e.comparators):
                parts.append(self.ex_compare(ast.Compare(left=left, ops=[op], comparators=[right]))[0])
                left = right
            return '(' + ' && '.join(parts) + ')', BOOL
        op, r = e.ops[0], e.comparators[0]
        if isinstance(op, (ast.Is, ast.IsNot)):
            if not (isinstance(r, ast.Constant) and r.value is None):
                raise TrErr(f'`is` against something other than None: `{ast.unparse(e)}`')
            if self.proofish(e.left) and not (isinstance(e.left, ast.Name) and is_kind(self.env.get(e.left.id), 'opt')):
                raise TrErr(f'`{ast.unparse(e)}`: None-test of a proof-only value: the slice cannot be determined')
            a, ta = self.ex(e.left)
            if not is_kind(ta, 'opt'):
                raise TrErr(f'`{ast.unparse(e)}`: None-test of a {ta}')
            return (f'(Option.isNone {a})' if isinstance(op, ast.Is) else f'(Option.isSome {a})'), BOOL
        a, ta = self.ex(e.left)
        if isinstance(op, (ast.In, ast.NotIn)):
            b, tb = self.ex(r)
            if is_kind(tb, 'dict') and ta == tb[1]:
                t = f'(dictHas {b} {a})'
            elif tb == FS and ta == INT:
                t = f'(fsMem {a} {b})'
            elif is_kind(tb, 'list') and ta == tb[1]:
                t = f'(List.contains {b} {a})'
            else:
                raise TrErr(f'`{ast.unparse(e)[:60]}`: membership of {ta} in {tb}')
            return (t if isinstance(op, ast.In) else f'(!{t})'), BOOL
        b, tb = self.ex(r, ta)
        if ta == PROOF or tb == PROOF:
            raise TrErr(f'`{ast.unparse(e)[:60]}`: comparison of proof objects in a data position')
        if isinstance(op, (ast.Eq, ast.NotEq)):
            if ta != tb and not (is_kind(ta, 'list') and is_kind(tb, 'list') and (ta[1] is None or tb[1] is None)):
                raise TrErr(f'`{ast.unparse(e)[:60]}`: == between {ta} and {tb}')
            return f'({a} {"==" if isinstance(op, ast.Eq) else "!="} {b})', BOOL
        sym = {ast.Lt: '<', ast.LtE: '≤', ast.Gt: '>', ast.GtE: '≥'}.get(type(op))
        if sym is None:
            raise TrErr(f'comparison `{ast.unparse(e)[:60]}`')
        if ta == INT and tb == INT:
            return f'(decide ({a} {sym} {b}))', BOOL
        if ta == FS and tb == FS:
            f, x, y = {'<': ('fsProperSubset', a, b), '≤': ('fsSubset', a, b), '>': ('fsProperSubset', b, a), '≥': ('fsSubset', b, a)}[sym]
            return f'({f} {x} {y})', BOOL
        raise TrErr(f'`{ast.unparse(e)[:60]}`: order comparison of {ta} and {tb}')

    def ex_call(self, e, want):
        f = e.func
        if e.keywords:
            raise TrErr(f'keyword arguments: `{ast.unparse(e)[:60]}`')
        m = self.self_call(e)
        if m is not None:
            if m not in self.all_fns:
                raise TrErr(f'call of the method {m}, which is not translated')
            g = self.all_fns[m]
            if len(e.args) != len(g.params):
                raise TrErr(f'{m}: {len(e.args)} arguments for {len(g.params)} parameters')
            args = []
            for a, (p, pt) in zip(e.args, g.params):
                t, ty = self.ex(a, pt)
                if ty != pt and not (is_kind(ty, 'list') and ty[1] is None and is_kind(pt, 'list')):
                    raise TrErr(f'{m}: argument `{ast.unparse(a)[:40]}` of {ty} for the parameter {p} of {pt}')
                args.append(t if not (ty != pt) else f'({t} : {lean_ty(pt)})')
            call = f'{lname(m)} ' + ' '.join((['fuel_'] if g.fuel else []) + args)
            for a, (p, _) in zip(e.args, g.params):
                if p in g.attr_mut:
                    ap = access_path(a)
                    if ap is None:
                        raise TrErr(f'{m} mutates attributes below its parameter {p}; the argument `{ast.unparse(a)[:40]}` is not a path')
                    self.new_stale.append(ap)
            if g.container_mut:
                t = self.tmp()
                outs = []
                for a, (p, _) in zip(e.args, g.params):
                    if p in g.container_mut:
                        outs.append(lname(a.id) if isinstance(a, ast.Name) and a.id in self.env else '_')
                self.pre.append(f'let ({t}, {", ".join(outs)}) ← {call}')
                return t, g.ret
            return self.bindm(call, g.ret)
        if isinstance(f, ast.Name):
            n = f.id
            if n in self.mod.classes:
                root = self.mod.root_of[n]
                if n not in [c.name for c in self.mod.ctors(root)]:
                    raise TrErr(f'the base class {n} is instantiated')
                init, _ = self.mod.init_of(n)
                ptys = [self.mod.ann(a.annotation) for a in init.args.args[1:]]
                if len(ptys) != len(e.args):
                    raise TrErr(f'{n}(..): arity')
                args = []
                for a, pt in zip(e.args, ptys):
                    t, ty = self.ex(a, pt)
                    if ty != pt:
                        raise TrErr(f'{n}(..): argument `{ast.unparse(a)[:40]}` of {ty} for a parameter of {pt}')
                    args.append(t)
                return f'({n}_new ' + ' '.join(args) + ')', ('cls', root)
            if n in ('bot', 'top') and not e.args:
                return f'TautSup.{n}', PAT
            if n == 'neg' and len(e.args) == 1:
                a, ta = self.ex(e.args[0])
                if ta != PAT:
                    raise TrErr('neg(..) of a non-pattern')
                return f'(TautSup.neg {a})', PAT
            if n == 'isinstance' and len(e.args) == 2 and isinstance(e.args[1], ast.Name):
                a, ta = self.ex(e.args[0])
                c = e.args[1].id
                if is_kind(ta, 'cls') and c in self.mod.classes and self.mod.root_of[c] == ta[1]:
                    if c == ta[1] or len(self.mod.ctors(ta[1])) == 1:
                        return 'true', BOOL
                    return f'({ta[1]}.is{c} {a})', BOOL
                if ta == PAT and c == 'MetaVar':
                    return f'(isMetaVar {a})', BOOL
                if is_kind(ta, 'union'):
                    if is_kind(ta[1], 'cls') and self.mod.root_of.get(c) == ta[1][1]:
                        return f'(Sum.isLeft {a})', BOOL
                    if is_kind(ta[2], 'cls') and self.mod.root_of.get(c) == ta[2][1]:
                        return f'(Sum.isRight {a})', BOOL
                raise TrErr(f'`{ast.unparse(e)}`: isinstance of a {ta}')
            if n == 'len' and len(e.args) == 1:
                a, ta = self.ex(e.args[0])
                if is_kind(ta, 'list'):
                    return f'(pyLen {a})', INT
                if ta == FS:
                    return f'(fsLen {a})', INT
                if is_kind(ta, 'dict'):
                    return f'(dictLen {a})', INT
                raise TrErr(f'len of a {ta}')
            if n in ('frozenset', 'set') and len(e.args) <= 1:
                if not e.args:
                    return '(fsOfList [])', FS
                a, ta = self.ex(e.args[0], ('list', INT))
                if ta == FS:
                    return a, FS
                if ta == ('list', INT) or ta == ('list', None):
                    return f'(fsOfList {a})', FS
                raise TrErr(f'{n}(..) of a {ta}')
            if n == 'list' and len(e.args) == 1:
                x = e.args[0]
                if isinstance(x, ast.Call) and isinstance(x.func, ast.Attribute) and x.func.attr == 'keys' and not x.args:
                    d, td = self.ex(x.func.value)
                    if is_kind(td, 'dict'):
                        return f'(dictKeys {d})', ('list', td[1])
                a, ta = self.ex(x)
                if ta == FS:
                    return f'(fsToList {a})', ('list', INT)
                if is_kind(ta, 'list'):
                    return a, ta
                if is_kind(ta, 'dict'):
                    return f'(dictKeys {a})', ('list', ta[1])
                raise TrErr(f'list(..) of a {ta}')
            if n == 'range' and len(e.args) in (1, 2):
                xs = [self.ex(a) for a in e.args]
                if any(ty != INT for _, ty in xs):
                    raise TrErr('range of non-integers')
                return (f'(pyRange {xs[0][0]})' if len(xs) == 1 else f'(pyRange2 {xs[0][0]} {xs[1][0]})'), ('list', INT)
            if n == 'enumerate' and len(e.args) == 1:
                a, ta = self.ex(e.args[0])
                if ta == FS:
                    a, ta = f'(fsToList {a})', ('list', INT)
                if is_kind(ta, 'list') and ta[1] is not None:
                    return f'(pyEnumerate {a})', ('list', ('tuple', (INT, ta[1])))
                raise TrErr(f'enumerate of a {ta}')
            if n == 'combinations' and len(e.args) == 2 and isinstance(e.args[1], ast.Constant) and e.args[1].value == 2:
                a, ta = self.ex(e.args[0])
                if ta == FS:
                    a, ta = f'(fsToList {a})', ('list', INT)
                if is_kind(ta, 'list') and ta[1] is not None:
                    return f'(pyCombinations2 {a})', ('list', ('tuple', (ta[1], ta[1])))
                raise TrErr(f'combinations of a {ta}')
            raise TrErr(f'call of `{n}` in a data position')
        if isinstance(f, ast.Attribute):
            if isinstance(f.value, ast.Name) and f.value.id == 'Implies' and f.attr == 'extract' and len(e.args) == 1:
                a, ta = self.ex(e.args[0])
                if ta != PAT:
                    raise TrErr('Implies.extract of a non-pattern')
                return self.bindm(f'Implies_extract {a}', ('list', PAT))
            if f.attr in ('difference', 'union', 'intersection') and len(e.args) == 1:
                a, ta = self.ex(f.value)
                b, tb = self.ex(e.args[0])
                if ta == FS and tb == FS:
                    fn = {'difference': 'fsDiff', 'union': 'fsUnion', 'intersection': 'fsInter'}[f.attr]
                    return f'({fn} {a} {b})', FS
                raise TrErr(f'`.{f.attr}` on {ta}, {tb}')
            if f.attr == 'keys' and not e.args:
                d, td = self.ex(f.value)
                if is_kind(td, 'dict'):
                    return f'(dictKeys {d})', ('list', td[1])
        raise TrErr(f'call `{ast.unparse(e)[:60]}` in a data position')

    def target_pattern(self, t, ty, all_live=False):
        """Lean pattern for an assignment target of type ty, and the bindings it makes"""
        if isinstance(t, ast.Name):
            if ty == PROOF or (not all_live and t.id not in self.live) or t.id == '_':
                return '_', {}
            return lname(t.id), {t.id: ty}
        if isinstance(t, (ast.Tuple, ast.List)) and is_kind(ty, 'tuple') and len(ty[1]) == len(t.elts):
            ps, bs = [], {}
            for x, xt in zip(t.elts, ty[1]):
                p, b = self.target_pattern(x, xt, all_live)
                ps.append(p)
                bs.update(b)
            return '(' + ', '.join(ps) + ')', bs
        raise TrErr(f'assignment target `{ast.unparse(t)}` for a value of {ty}')

    # ------------------------------------------------------------------------------------------
    # statements (continuation-passing on the TEXT: k() = the lines for "fall off the end of this block")
    # ------------------------------------------------------------------------------------------
    def src_comment(self, s):
        return f'-- {s.lineno}: {first_line(s)}'

    def flush(self):
        out, self.pre = self.pre, []
        self.stale = self.stale + self.new_stale
        self.new_stale = []
        return out

    def assigned(self, stmts):
        """live names (re)bound or mutated in place by the kept statements, in order of first occurrence"""
        out = []

        def add(n):
            if n is not None and n in self.live and n not in out and n != '_':
                out.append(n)

        def target(t):
            if isinstance(t, ast.Name):
                add(t.id)
            elif isinstance(t, (ast.Tuple, ast.List)):
                for x in t.elts:
                    target(x)
            elif isinstance(t, ast.Starred):
                target(t.value)
            elif isinstance(t, (ast.Subscript, ast.Attribute)):
                add(root_name(t))

        def visit(n):
            if isinstance(n, ast.stmt) and id(n) in self.dropped:
                return
            if isinstance(n, ast.Assign):
                for t in n.targets:
                    target(t)
            elif isinstance(n, (ast.AugAssign, ast.AnnAssign, ast.For, ast.NamedExpr)):
                target(n.target)
            if isinstance(n, ast.expr):
                if self.proofish(n):
                    return
                for r in self.mutating_calls(n) if isinstance(n, ast.Call) else []:
                    add(r)
            for c in ast.iter_child_nodes(n):
                visit(c)
        for s in stmts:
            visit(s)
        return out

    def has_jump(self, stmts):
        for s in stmts:
            if id(s) in self.dropped:
                continue
            for n in ast.walk(s):
                if isinstance(n, (ast.Return, ast.Raise, ast.Break, ast.Continue)):
                    return True
        return False

    def tuple_of(self, names):
        if not names:
            return '()'
        if len(names) == 1:
            return lname(names[0])
        return '(' + ', '.join(lname(n) for n in names) + ')'

    def tr_block(self, stmts, k, ctx):
        stmts = [s for s in stmts if id(s) not in self.dropped]
        if not stmts:
            return k()
        s, rest = stmts[0], stmts[1:]
        try:
            return self.tr_stmt(s, rest, k, ctx)
        except TrErr as ex:
            self.problems.append(f'{self.name} line {s.lineno}: {ex}')
            self.pre = []
            return [self.src_comment(s), f'-- PROBLEM: {ex}', 'none']

    def tr_stmt(self, s, rest, k, ctx):
        kr = lambda: self.tr_block(rest, k, ctx)      # noqa: E731
        out = [self.src_comment(s)]
        if isinstance(s, ast.Return):
            return out + self.tr_return(s, ctx)
        if isinstance(s, ast.Raise):
            return out + ['none']
        if isinstance(s, ast.Continue):
            if ctx.get('cont') is None:
                raise TrErr('continue outside a loop')
            return out + ctx['cont']()
        if isinstance(s, ast.Break):
            if ctx.get('brk') is None:
                raise TrErr('break outside a loop')
            return out + ctx['brk']()
        if isinstance(s, ast.Assert):
            c = self.cond(s.test)
            return out + self.flush() + [f'pyAssert {c}'] + kr()
        if isinstance(s, (ast.Assign, ast.AnnAssign, ast.AugAssign)):
            lines = self.tr_assign(s)
            return out + lines + kr()
        if isinstance(s, ast.Expr):
            lines = self.tr_expr_stmt(s)
            return out + lines + kr()
        if isinstance(s, ast.If):
            return out + self.tr_if(s, rest, k, ctx)
        if isinstance(s, ast.For):
            return out + self.tr_for(s, rest, k, ctx)
        raise TrErr(f'statement `{first_line(s)}` ({type(s).__name__}) in the data slice')

    def tr_return(self, s, ctx):
        rt = self.ret
        if s.value is None:
            v, tv = 'none', NONE
        else:
            inner = rt[1] if is_kind(rt, 'opt') else rt
            if is_kind(inner, 'tuple') and isinstance(s.value, ast.Tuple) and len(s.value.elts) == len(inner[1]):
                parts = []
                for e, pt in zip(s.value.elts, inner[1]):
                    if pt == PROOF:
                        if not self.proofish(e):
                            raise TrErr(f'`{ast.unparse(e)[:50]}` in a ProofThunk position of the result is not recognised as a proof object')
                        parts.append('()')
                    else:
                        t, ty = self.ex(e, pt)
                        if ty == NONE and is_kind(pt, 'opt'):
                            ty = pt
                        if ty != pt and not (is_kind(ty, 'list') and ty[1] is None and is_kind(pt, 'list')):
                            raise TrErr(f'`{ast.unparse(e)[:50]}` of {ty} returned where {pt} is declared')
                        parts.append(t)
                v, tv = '(' + ', '.join(parts) + ')', inner
            else:
                v, tv = self.ex(s.value, rt)
        if tv == NONE and is_kind(rt, 'opt'):
            tv = rt
        if is_kind(rt, 'opt') and tv == rt[1]:
            v, tv = f'(some {v})', rt
        if tv != rt:
            raise TrErr(f'a value of {tv} is returned where {rt} is declared')
        lines = self.flush()
        if self.container_mut:
            v = '(' + ', '.join([v] + [lname(p) for p in self.container_mut]) + ')'
        return lines + ctx['ret'](v)

    def tr_assign(self, s):
        if isinstance(s, ast.AugAssign):
            val = ast.BinOp(left=ast.Name(id=s.target.id, ctx=ast.Load()) if isinstance(s.target, ast.Name) else s.target,
                            op=s.op, right=s.value)
            ast.copy_location(val, s)
            ast.fix_missing_locations(val)
            targets = [s.target]
            want = None
        elif isinstance(s, ast.AnnAssign):
            val, targets = s.value, [s.target]
            want = self.mod.ann(s.annotation)
        else:
            val, targets, want = s.value, s.targets, None
        if len(targets) != 1:
            raise TrErr('chained assignment')
        t = targets[0]
        if isinstance(t, ast.Name) and want is None and t.id in self.env and isinstance(val, (ast.List, ast.Dict, ast.Constant)):
            want = self.env[t.id]
        # `a, b = x, y`
        if isinstance(t, (ast.Tuple, ast.List)) and isinstance(val, ast.Tuple) and len(val.elts) == len(t.elts) and all(isinstance(x, ast.Name) for x in t.elts):
            xs = [self.ex(v) if not self.proofish(v) else ('()', PROOF) for v in val.elts]
            pat, binds = self.target_pattern(t, ('tuple', tuple(ty for _, ty in xs)))
            lines = self.flush() + [f'let {pat} := (' + ', '.join(x for x, _ in xs) + ')']
            self.env.update(binds)
            return lines
        v, tv = self.ex(val, want)
        if isinstance(t, ast.Name):
            if tv == NONE:
                raise TrErr(f'{t.id} = None without a type')
            if want is not None and tv != want and not (is_kind(tv, 'list') and tv[1] is None) and not (is_kind(tv, 'dict') and tv[1] is None):
                raise TrErr(f'a value of {tv} is assigned to {t.id}, annotated {want}')
            if want is not None:
                tv = want
            lines = self.flush() + [f'let {lname(t.id)} := {v}']
            self.env[t.id] = tv
            self.unstale(t.id)
            return lines
        if isinstance(t, (ast.Tuple, ast.List)):
            if is_kind(tv, 'opt') and is_kind(tv[1], 'tuple'):
                pat, binds = self.target_pattern(t, tv[1])
                lines = self.flush() + [f'let {pat} ← {v}']
            elif is_kind(tv, 'tuple'):
                pat, binds = self.target_pattern(t, tv)
                lines = self.flush() + [f'let {pat} := {v}']
            elif (tv == FS or is_kind(tv, 'list')) and len(t.elts) == 1:
                el = INT if tv == FS else tv[1]
                pat, binds = self.target_pattern(t.elts[0], el)
                lines = self.flush() + [f'let {pat} ← pyUnpack1 {"(fsToList " + v + ")" if tv == FS else v}']
            else:
                raise TrErr(f'unpacking of a {tv}')
            self.env.update(binds)
            for n in binds:
                self.unstale(n)
            return lines
        if isinstance(t, ast.Subscript):
            d, td = self.ex(t.value)
            if not (isinstance(t.value, ast.Name) and is_kind(td, 'dict')):
                raise TrErr(f'assignment to `{ast.unparse(t)[:40]}`')
            i, ti = self.ex(t.slice)
            if ti != td[1]:
                raise TrErr(f'key of {ti} for a dict of {td}')
            if tv != td[2]:
                if is_kind(td[2], 'union') and tv == td[2][1]:
                    v = f'(Sum.inl {v})'
                elif is_kind(td[2], 'union') and tv == td[2][2]:
                    v = f'(Sum.inr {v})'
                else:
                    raise TrErr(f'value of {tv} for a dict of {td}')
            return self.flush() + [f'let {lname(t.value.id)} := dictSet {d} {i} {v}']
        if isinstance(t, ast.Attribute):
            return self.flush_attr_store(t, v, tv)
        raise TrErr(f'assignment to `{ast.unparse(t)[:40]}`')

    def flush_attr_store(self, t, v, tv):
        """x.f = v  /  x.g.f = v  (functional update of x)"""
        path = access_path(t)
        if path is None or len(path) not in (2, 3):
            raise TrErr(f'assignment to `{ast.unparse(t)[:40]}`')
        x = path[0]
        tx = self.env.get(x)
        if not is_kind(tx, 'cls'):
            raise TrErr(f'attribute assignment on {x} of {tx}')

        def fld(cls, f):
            if (cls, f) not in self.mod.total_fields:
                raise TrErr(f'class {cls} has no field {f}')
            return self.mod.total_fields[(cls, f)]
        lines = self.flush()
        if len(path) == 2:
            total, ft = fld(tx[1], path[1])
            if not total:
                raise TrErr(f'`{ast.unparse(t)}`: the field is not defined on every class of {tx[1]}')
            if ft != tv:
                raise TrErr(f'a value of {tv} is assigned to the field {path[1]} of {ft}')
            return lines + [f'let {lname(x)} := {tx[1]}.set_{path[1]} {lname(x)} {v}']
        total1, ft1 = fld(tx[1], path[1])
        if not is_kind(ft1, 'cls'):
            raise TrErr(f'`{ast.unparse(t)}`: {path[1]} is not an object')
        total2, ft2 = fld(ft1[1], path[2])
        if not total2 or ft2 != tv:
            raise TrErr(f'`{ast.unparse(t)}`: field {path[2]} of {ft2}, value of {tv}')
        tmp = self.tmp()
        get = f'let {tmp} ← {tx[1]}.{lname(path[1])} {lname(x)}' if not total1 else f'let {tmp} := {tx[1]}.{lname(path[1])} {lname(x)}'
        return lines + [get, f'let {lname(x)} := {tx[1]}.set_{path[1]} {lname(x)} ({ft1[1]}.set_{path[2]} {tmp} {v})']

    def unstale(self, name):
        self.stale = [p for p in self.stale if p[0] != name]

    def tr_expr_stmt(self, s):
        e = s.value
        if isinstance(e, ast.Call) and isinstance(e.func, ast.Attribute) and isinstance(e.func.value, ast.Name) and e.func.attr in MUTATORS:
            x = e.func.value.id
            tx = self.env.get(x)
            if tx is None:
                raise TrErr(f'{x} is not bound')
            if e.func.attr == 'append' and len(e.args) == 1 and is_kind(tx, 'list'):
                v, tv = self.ex(e.args[0], tx[1])
                if tx[1] is None:
                    tx = ('list', tv)
                    self.env[x] = tx
                    self.refined[x] = tx
                if tv != tx[1]:
                    raise TrErr(f'append of a {tv} to a {tx}')
                return self.flush() + [f'let {lname(x)} := {lname(x)} ++ [{v}]']
            if e.func.attr == 'remove' and len(e.args) == 1 and is_kind(tx, 'list'):
                v, tv = self.ex(e.args[0], tx[1])
                if tv != tx[1]:
                    raise TrErr(f'remove of a {tv} from a {tx}')
                return self.flush() + [f'let {lname(x)} ← pyListRemove {lname(x)} {v}']
            raise TrErr(f'mutation `{ast.unparse(e)[:50]}`')
        m = self.self_call(e)
        if m and m in self.all_fns:
            v, tv = self.ex(e)
            return self.flush()
        raise TrErr(f'expression statement `{ast.unparse(e)[:50]}`')

    def tr_if(self, s, rest, k, ctx):
        # `isinstance(v, C)` on a union-typed variable: a match that narrows v
        t = s.test
        if (isinstance(t, ast.Call) and isinstance(t.func, ast.Name) and t.func.id == 'isinstance' and len(t.args) == 2
                and isinstance(t.args[0], ast.Name) and is_kind(self.env.get(t.args[0].id), 'union') and isinstance(t.args[1], ast.Name)):
            v = t.args[0].id
            tu = self.env[v]
            c = t.args[1].id
            if is_kind(tu[1], 'cls') and self.mod.root_of.get(c) == tu[1][1]:
                first, second, ty1, ty2 = '.inl', '.inr', tu[1], tu[2]
            elif is_kind(tu[2], 'cls') and self.mod.root_of.get(c) == tu[2][1]:
                first, second, ty1, ty2 = '.inr', '.inl', tu[2], tu[1]
            else:
                raise TrErr(f'isinstance({v}, {c}) on a {tu}')
            if not terminal(s.body, self.dropped) and rest:
                b1, b2 = s.body + rest, s.orelse + rest
            elif not terminal(s.orelse, self.dropped) and rest:
                b1, b2 = s.body, s.orelse + rest
            else:
                b1, b2 = s.body, s.orelse
                if rest:
                    raise TrErr('unreachable statements after an if')
            saved = (dict(self.env), list(self.stale))
            self.env[v] = ty1
            l1 = self.tr_block(b1, k, ctx)
            self.env, self.stale = dict(saved[0]), list(saved[1])
            self.env[v] = ty2
            l2 = self.tr_block(b2, k, ctx)
            self.env, self.stale = saved
            return [f'match {lname(v)} with', f'| {first} {lname(v)} =>'] + indent(l1) + [f'| {second} {lname(v)} =>'] + indent(l2)
        # walrus: `if x := e:`
        pre_lines = []
        if isinstance(t, ast.NamedExpr):
            v, tv = self.ex(t.value)
            pre_lines = self.flush() + [f'let {lname(t.target.id)} := {v}']
            self.env[t.target.id] = tv
            c = self.truthy(lname(t.target.id), tv)
        else:
            c = self.cond(t)
            pre_lines = self.flush()
        tb, to = terminal(s.body, self.dropped), terminal(s.orelse, self.dropped)
        saved = (dict(self.env), list(self.stale))

        def branch(stmts, kk):
            self.env, self.stale = dict(saved[0]), list(saved[1])
            r = self.tr_block(stmts, kk, ctx)
            return r
        if not rest or tb or to or self.has_jump(s.body + s.orelse):
            if tb and to and rest:
                raise TrErr('unreachable statements after an if')
            l1 = branch(s.body + ([] if tb else rest), k)
            e1 = (dict(self.env), list(self.stale))
            l2 = branch(s.orelse + ([] if to else rest), k)
            # after the if (only relevant when k is reached through both): keep the bindings common to both
            self.env = {n: ty for n, ty in self.env.items() if e1[0].get(n) == ty} if not (tb or to) else (e1[0] if to else self.env)
            self.stale = list({*e1[1], *self.stale})
            return pre_lines + [f'if {c} then'] + indent(l1) + ['else'] + indent(l2)
        # join: no jump in either branch, statements follow
        names = self.assigned(s.body + s.orelse)
        in_body, in_else = self.assigned(s.body), self.assigned(s.orelse)
        for n in names:
            if n not in saved[0] and not (n in in_body and n in in_else):
                raise TrErr(f'{n} is bound in one branch of the if only')
        tup = self.tuple_of(names)
        l1 = branch(s.body, lambda: [f'pure {tup}'])
        e1 = (dict(self.env), list(self.stale))
        l2 = branch(s.orelse, lambda: [f'pure {tup}'])
        for n in names:
            if e1[0].get(n) != self.env.get(n):
                raise TrErr(f'{n} has the types {e1[0].get(n)} / {self.env.get(n)} in the branches of the if')
        self.stale = list({*e1[1], *self.stale})
        head = f'let {tup} ← (do' if names else '(do'
        return pre_lines + [head, f'  if {c} then'] + indent(l1, 4) + ['  else'] + indent(l2[:-1] + [l2[-1] + ')'], 4) + self.tr_block(rest, k, ctx)

    # ---- loops ---------------------------------------------------------------------------------
    def kept_reads(self, stmts):
        out = set()
        for s in stmts:
            for n in ast.walk(s):
                if isinstance(n, ast.stmt) and id(n) not in self.dropped:
                    for e in self.kept_exprs(n):
                        out |= self.loads(e)
                    if isinstance(n, (ast.Assign, ast.AnnAssign, ast.AugAssign)):
                        for t in (n.targets if isinstance(n, ast.Assign) else [n.target]):
                            for x in ast.walk(t):
                                if isinstance(x, (ast.Attribute, ast.Subscript)):
                                    out |= self.loads(x)
                        if isinstance(n, ast.AugAssign) and isinstance(n.target, ast.Name):
                            out.add(n.target.id)
                    if isinstance(n, ast.Expr):
                        out |= set(self.mutating_calls(n.value))
                    if isinstance(n, ast.Return):
                        out |= set(self.container_mut)
        return out

    def calls_fuel(self, stmts):
        for s in stmts:
            for n in ast.walk(s):
                m = self.self_call(n)
                if m and m in self.all_fns and self.all_fns[m].fuel and not self.proofish(n):
                    return True
        return False

    def full_ret_ty(self):
        t = lean_ty(self.ret)
        if self.container_mut:
            ptys = dict(self.params)
            return '(' + ' × '.join([paren_ty(t)] + [paren_ty(lean_ty(ptys[p])) for p in self.container_mut]) + ')'
        return t

    def tr_for(self, s, rest, k, ctx):
        if s.orelse:
            raise TrErr('for .. else')
        if any(self._is_call_of(x, self.name) for b in s.body for x in ast.walk(b)):
            raise TrErr('a loop whose body calls the enclosing function')
        it, ti = self.ex(s.iter)
        if ti == FS:
            it, ti = f'(fsToList {it})', ('list', INT)
        if not is_kind(ti, 'list') or ti[1] is None:
            raise TrErr(f'iteration over a {ti}')
        pre_lines = self.flush()
        index = isinstance(s.iter, ast.Name) and s.iter.id in self._mutated_containers(s.body)
        key = id(s)
        before = dict(self.env)
        state = [n for n in self.assigned(s.body) if n in before]
        tnames = [x.id for x in ast.walk(s.target) if isinstance(x, ast.Name)]
        state = [n for n in state if n not in tnames or n in before]
        if index and s.iter.id not in state:
            raise TrErr('index loop without its list in the state')
        has_ret = any(isinstance(n, ast.Return) for b in s.body for n in ast.walk(b))
        fuel = index or self.calls_fuel(s.body)
        reads = self.kept_reads(s.body)
        ctxv = [n for n in before if n in reads and n not in state and n not in tnames]
        if key not in self.loops:
            self.nloops += 1
            number = self.nloops
            name = f'{self.name}_for{number}'
            self.loops[key] = name
            pat, binds = self.target_pattern(s.target, ti[1])
            stv = ' '.join(lname(n) for n in state)
            ctxa = ' '.join(lname(n) for n in ctxv)
            if index:
                nxt = ' '.join(x for x in [name, ctxa, 'fuel_', '(i_ + 1)', stv] if x)
            else:
                nxt = ' '.join(x for x in [name, ('fuel_' if fuel else ''), ctxa, 'it_', stv] if x)
            stup = self.tuple_of(state)
            go = f'pure (Ctl.go {stup})' if has_ret else f'pure {stup}'
            saved = (dict(self.env), list(self.stale), self.pre)
            self.env = dict(before)
            self.env.update(binds)
            self.pre = []
            ctx2 = {'ret': (lambda v: [f'pure (Ctl.ret {v})']), 'cont': (lambda: [nxt]), 'brk': (lambda: [go])}
            body = self.tr_block(s.body, lambda: [nxt], ctx2)
            env_after = self.env
            self.env, self.stale, self.pre = saved
            for n in state:
                if n in self.refined:
                    self.env[n] = self.refined[n]
            styl = [lean_ty(self.env[n]) for n in state]
            sty = 'Unit' if not state else (styl[0] if len(state) == 1 else '(' + ' × '.join(paren_ty(x) for x in styl) + ')')
            rty = f'Ctl {paren_ty(self.full_ret_ty())} {paren_ty(sty)}' if has_ret else sty
            ctxp = ' '.join(f'({lname(n)} : {lean_ty(self.env[n])})' for n in ctxv)
            doc = (f'/-- the `for` loop at line {s.lineno} of `{self.name}` (loop {number}): `{first_line(s)}`'
                   + ('; CPython\'s list iterator over the list the body mutates: index `i_`, one unit of fuel per iteration' if index else '') + ' -/')
            d = [doc]
            arrow = ' → '.join(paren_ty(x) for x in styl)
            if index:
                d.append(f'def {name} {ctxp} : Nat → Nat' + (f' → {arrow}' if styl else '') + f' → Option {paren_ty(rty)}')
                d.append('  | 0, _' + ', _' * len(state) + ' => none')
                d.append('  | fuel_ + 1, i_' + ''.join(f', {lname(n)}' for n in state) + ' =>')
                d.append(f'    match {lname(s.iter.id)}[i_]? with')
                d.append(f'    | none => {go}')
                d.append(f'    | some {pat} => do')
                d += indent(body, 6)
            else:
                fp = '(fuel_ : Nat) ' if fuel else ''
                d.append(f'def {name} {fp}{ctxp} : {lean_ty(ti)}' + (f' → {arrow}' if styl else '') + f' → Option {paren_ty(rty)}')
                d.append('  | []' + ''.join(f', {lname(n)}' for n in state) + f' => {go}')
                d.append(f'  | {pat} :: it_' + ''.join(f', {lname(n)}' for n in state) + ' => do')
                d += indent(body, 4)
            self.loop_defs.append(d)
        name = self.loops[key]
        stv = ' '.join(lname(n) for n in state)
        ctxa = ' '.join(lname(n) for n in ctxv)
        if index:
            call = ' '.join(x for x in [name, ctxa, 'fuel_', '0', stv] if x)
        else:
            call = ' '.join(x for x in [name, ('fuel_' if fuel else ''), ctxa, it, stv] if x)
        stup = self.tuple_of(state)
        for n in state:
            if n in self.refined:
                self.env[n] = self.refined[n]
        if has_ret:
            t = self.tmp()
            return (pre_lines + [f'let {t} ← {call}', f'match {t} with', '| .ret r_ =>'] + indent(ctx['ret']('r_'))
                    + [f'| .go {stup} =>'] + indent(self.tr_block(rest, k, ctx)))
        return pre_lines + [f'let {stup} ← {call}'] + self.tr_block(rest, k, ctx)

    # ---- the function -----------------------------------------------------------------------------
    def translate(self):
        self.env = {p: t for p, t in self.params if t is not None}
        self.pre, self.stale, self.new_stale, self.refined = [], [], [], {}
        self.ntmp, self.nloops, self.loops, self.loop_defs = 0, 0, {}, []
        self.skip_stale = 0
        if self.ret is None:
            return [f'-- PROBLEM: {self.name}: no return type']

        def k_end():
            if is_kind(self.ret, 'opt'):
                v = 'none'
                if self.container_mut:
                    v = '(' + ', '.join([v] + [lname(p) for p in self.container_mut]) + ')'
                return ['-- (end of the function: returns None)', f'pure {v}']
            self.problems.append(f'{self.name}: control can reach the end of the function, which does not return a value')
            return ['-- PROBLEM: end of the function without return', 'none']
        ctx = {'ret': (lambda v: [f'pure {v}']), 'cont': None, 'brk': None}
        try:
            body = self.tr_block(self.body, k_end, ctx)
            rty = self.full_ret_ty()
            ptys = [lean_ty(t) for _, t in self.params]
        except TrErr as ex:
            self.problems.append(f'{self.name}: {ex}')
            return [f'-- PROBLEM: {self.name}: {ex}']
        out = []
        for d in self.loop_defs:
            out += d
        drops = ', '.join(str(s.lineno) + (f'-{s.end_lineno}' if s.end_lineno != s.lineno else '') for s in self.dropped_list)
        doc = f'/-- `{self.name}` (tautology.py line {self.node.lineno}): the data slice'
        if self.container_mut:
            doc += '; also returns its parameter' + ('s ' if len(self.container_mut) > 1 else ' ') + ', '.join(self.container_mut) + ', mutated in place'
        doc += ('; proof-only statements dropped at lines ' + drops) if drops else ''
        out.append(doc + ' -/')
        if self.self_rec:
            out.append(f'def {lname(self.name)} : Nat' + ''.join(f' → {paren_ty(t)}' for t in ptys) + f' → Option {paren_ty(rty)}')
            out.append('  | 0' + ', _' * len(ptys) + ' => none')
            out.append('  | fuel_ + 1' + ''.join(f', {lname(p)}' for p, _ in self.params) + ' => do')
            out += indent(body, 4)
        else:
            ps = ('(fuel_ : Nat) ' if self.fuel else '') + ' '.join(f'({lname(p)} : {t})' for (p, _), t in zip(self.params, ptys))
            out.append(f'def {lname(self.name)} {ps} : Option {paren_ty(rty)} := do')
            out += indent(body, 2)
        return out


# ----------------------------------------------------------------------------------------------
# the module
# ----------------------------------------------------------------------------------------------

HEADER = '''import Pi2.TautSupport
/-! GENERATED by /verif/vlib/transtaut.py from the normal-form classes and the DATA SLICE of the tautology prover
(generation/src/proof_generation/tautology.py), statement by statement — do not edit.
`Pi2/TautTie.lean` proves these equal to / refinements of the hand-written model `Pi2/Taut.lean`.
`none` = the Python code raises, or the fuel ran out; a value that may be `None` is an `Option` inside; an expression of type
`ProofThunk` is `()` (its arguments are not evaluated), `ProofThunk | None` is `Option Unit`; a `frozenset[int]` is its ascending
list; every `for` loop is a function of its own (a loop over a list that its body mutates is CPython's index machine, with
fuel); a parameter mutated in place as a container is returned next to the result; `x.negated = e` is a functional update
(ASSUMPTION: normal-form trees are not shared); patterns are represented by their notation-free expansion `Form`
(ASSUMPTION spelled out in `Pi2/TautSupport.lean`).  A dropped statement is ASSUMED not to raise.
%s-/
set_option linter.unusedVariables false
namespace Gen.PyTaut
open TautSup'''


def translate_source(src, extra_srcs):
    """-> (lines of the body of the generated file, header notes, problems)"""
    mod = Mod(src, extra_srcs)
    problems = list(mod.problems)
    if mod.taut is None:
        return [], [], problems
    cands = {}
    for name, node in mod.methods.items():
        if name in mod.proof_methods or name.startswith('__'):
            continue
        if any(isinstance(x, (ast.FunctionDef, ast.Lambda)) for x in ast.walk(node) if x is not node):
            continue
        cands[name] = Fn(mod, node, True)
    for r in ROOTS:
        if r not in cands:
            problems.append(f'method {r} not found (or it returns a ProofThunk / has nested functions)')
    for _ in range(3):
        for f in cands.values():
            saved = list(f.problems)
            f.prepass(cands)
            f.problems = saved if _ < 2 else f.problems
    # reachable from the roots through data calls
    reach, work = [], [r for r in ROOTS if r in cands]
    while work:
        n = work.pop(0)
        if n in reach:
            continue
        reach.append(n)
        for c in sorted(cands[n].calls, key=lambda x: cands[x].node.lineno if x in cands else 0):
            if c in cands:
                work.append(c)
            elif c not in mod.proof_methods:
                problems.append(f'{n}: data call of the method {c}, which cannot be translated')
    fns = {n: cands[n] for n in reach}
    # fuel: closed over the call graph
    changed = True
    while changed:
        changed = False
        for f in fns.values():
            if not f.fuel and any(c in fns and fns[c].fuel for c in f.calls):
                f.fuel = True
                changed = True
    # container mutation through calls (a parameter passed on to a mutating method) is not supported silently
    for f in fns.values():
        for n in ast.walk(f.node):
            m = f.self_call(n)
            if m in fns and m != f.name:
                for (p, _), a in zip(fns[m].params, n.args):
                    if p in fns[m].container_mut and isinstance(a, ast.Name) and a.id in [q for q, _ in f.params] and a.id not in f.container_mut:
                        f.container_mut.append(a.id)
    # order: callees first, source order otherwise
    order = []

    def visit(n, stack=()):
        if n in order or n in stack:
            return
        for c in sorted(fns[n].calls, key=lambda x: fns[x].node.lineno if x in fns else 0):
            if c in fns and c != n:
                visit(c, stack + (n,))
        order.append(n)
    for n in sorted(fns, key=lambda x: fns[x].node.lineno):
        visit(n)
    # classes
    attrs = set()
    for f in fns.values():
        for n in ast.walk(f.node):
            if isinstance(n, (ast.Assign, ast.AugAssign)):
                for t in (n.targets if isinstance(n, ast.Assign) else [n.target]):
                    p = access_path(t) if isinstance(t, ast.Attribute) else None
                    if p:
                        attrs |= set(p[1:])
    body = mod.gen_classes(attrs)
    problems += [p for p in mod.problems if p not in problems]
    for n in order:
        f = fns[n]
        for g in fns.values():
            g.all_fns = fns
        body += f.translate()
        problems += f.problems
    # notes for the header
    notes = ['Translated (callees first): ' + ', '.join(order) + '.']
    notes.append('Proof-only statements DROPPED (line numbers of tautology.py; everything else of these functions is translated):')
    for n in sorted(fns, key=lambda x: fns[x].node.lineno):
        f = fns[n]
        if f.dropped_list:
            notes.append(f'  {n}:')
            for s in f.dropped_list:
                ln = str(s.lineno) + (f'-{s.end_lineno}' if s.end_lineno != s.lineno else '')
                notes.append(f'    {ln}: {first_line(s)}')
        else:
            notes.append(f'  {n}: none')
    pm = sorted(m for m in mod.methods if m in mod.proof_methods)
    notes.append('Methods of `Tautology` that return a `ProofThunk` (proof objects only, not translated): ' + ', '.join(pm) + '.')
    other = [m for m in mod.methods if m not in mod.proof_methods and m not in fns]
    notes.append('Other methods not reachable from the prover through a data call (not translated): ' + (', '.join(other) or 'none') + '.')
    notes.append('Module-level functions (build the patterns the proof objects are about; called from dropped statements only, '
                 'not translated): ' + ', '.join(mod.module_funcs) + '.')
    return body, notes, problems


def gen_py_taut(src_path=None, out_dir=None):
    """regenerate Pi2/Gen/PyTaut.lean; `src_path` overrides tautology.py (the base classes are read next to it if they are
    there, else from the repository), `out_dir` the output directory"""
    default = os.path.join(core.PYSRC, 'proof_generation/tautology.py')
    src_path = src_path or default
    extra = []
    for rel in ('proofs/propositional.py', 'proof.py'):
        p = os.path.join(os.path.dirname(src_path), rel)
        if not os.path.exists(p):
            p = os.path.join(os.path.dirname(default), rel)
        try:
            extra.append(open(p).read())
        except OSError:
            pass
    try:
        body, notes, problems = translate_source(open(src_path).read(), extra)
    except SyntaxError as ex:
        body, notes, problems = [], [], [f'cannot parse: {ex}']
    except Exception as ex:   # noqa  (a bug of the translator must not leave a stale generated file behind)
        body, notes, problems = [], [], [f'translator failure {type(ex).__name__}: {ex}']
    problems = ['PyTaut: ' + p for p in problems]
    lines = [HEADER % ''.join(n.replace('-/', '- /').replace('/-', '/ -') + '\n' for n in notes)] + body
    lines.append(f'def translated : Bool := {"true" if not problems else "false"}')
    for p in problems:
        lines.append('-- PROBLEM: ' + p.replace('\n', ' '))
    lines.append('end Gen.PyTaut')
    from .translate import _write_if_changed, GEN
    _write_if_changed(os.path.join(out_dir or GEN, 'PyTaut.lean'), '\n'.join(lines) + '\n')
    return problems


if __name__ == '__main__':
    import sys
    print(gen_py_taut(*sys.argv[1:3]))
