"""Correspondence run for `deconstruct_nary_application` (proofs/kore.py) against `NPat.naryF` (Pi2/Nary.lean).

    cd /tmp/naryw && /venv/bin/python vlib/try_nary.py [seed] [N]

Sends `nary <npat>` to the Lean driver and to the real Python code and `law-nary-transparent <npat>` to the real
code only; reports every disagreement (answers where the model says `fuel` are counted separately).
"""
from __future__ import annotations

import collections
import os
import random
import sys

if __name__ == '__main__':
    sys.path.insert(0, os.path.dirname(os.path.dirname(os.path.abspath(__file__))))
from vlib import core, gen, sx  # noqa: E402


def mv(i):
    return ('mv', i, (), (), (), (), ())


BODIES = [
    ('app01', 2, ('app', mv(0), mv(1))),
    ('mv0', 1, mv(0)),
    ('app012', 3, ('app', ('app', mv(0), mv(1)), mv(2))),
    ('app10', 2, ('app', mv(1), mv(0))),                      # head is the *second* argument
    ('app0(app12)', 3, ('app', mv(0), ('app', mv(1), mv(2)))),  # an application in argument position stays one argument
]


def nary_shipped():
    """shipped notations whose body is an application spine over a symbol (`nary_app`-style) or any application"""
    out = []
    for label, arity, body, _, _ in gen.shipped_notations():
        if body[0] == 'app':
            out.append((label, arity, body))
    return out


def spine(rng, depth, nots):
    """a pattern whose function position is interesting: applications / notation applications, nested"""
    r = rng.random()
    if depth <= 0 or r < 0.12:
        return gen.gen_npat(rng, rng.choice((0, 1, 2)))
    d = depth - 1
    if r < 0.30:
        return ('app', spine(rng, d, nots), arg(rng, d, nots))
    if r < 0.75:
        label, arity, body = rng.choice(BODIES)
        keys = list(range(arity))
    else:
        label, arity, body = rng.choice(nots)
        keys = list(range(arity))
    if rng.random() < 0.15 and keys:
        keys = rng.sample(keys, rng.randint(0, len(keys)))       # partial application: head may stay a metavariable
    if rng.random() < 0.15:
        rng.shuffle(keys)
    # the value bound to the metavariable in function position is itself a spine
    return ('inst', body, tuple((k, spine(rng, d, nots) if rng.random() < 0.6 else arg(rng, d, nots)) for k in keys))


def arg(rng, depth, nots):
    r = rng.random()
    if r < 0.35:
        return gen.gen_npat(rng, rng.choice((0, 1, 2)))
    if r < 0.7:
        return spine(rng, depth, nots)
    return ('app', gen.gen_npat(rng, 1), gen.gen_npat(rng, 1))


def classify(p):
    return p[0]


def main():
    seed = int(sys.argv[1]) if len(sys.argv) > 1 else 0
    n = int(sys.argv[2]) if len(sys.argv) > 2 else 3000
    rng = random.Random(seed * 1000003 + 1212)
    nots = nary_shipped()
    pats = []
    for _ in range(n):
        pats.append(('random', gen.gen_npat(rng, rng.choice((1, 2, 3, 4)))))
    for _ in range(n // 3):
        # random pattern under an explicit application spine
        p = gen.gen_npat(rng, rng.choice((1, 2, 3)))
        for _ in range(rng.randint(1, 3)):
            p = ('app', p, gen.gen_npat(rng, rng.choice((0, 1, 2))))
        pats.append(('random-spine', p))
    for _ in range(n):
        pats.append(('family', spine(rng, rng.choice((1, 2, 3, 4)), nots)))
    # every shipped application-bodied notation at spine arguments
    for label, arity, body in nots:
        for _ in range(8):
            args = [spine(rng, rng.choice((0, 1, 2)), nots) for _ in range(arity)]
            pats.append(('shipped:' + label, ('inst', body, tuple(enumerate(args)))))
    lines = ['nary ' + sx.pat_to_s(p) for _, p in pats]
    laws = ['law-nary-transparent ' + sx.pat_to_s(p) for _, p in pats]
    la = core.lean_drv(lines)
    pa = core.py_h(lines)
    lw = core.py_h(laws)
    fuel_model = sum(1 for a in la if a == 'fuel')
    fuel_py = sum(1 for a in pa if a == 'fuel')
    dis = [(k, l, a, b) for (k, _), l, a, b in zip(pats, lines, la, pa) if a != b and a != 'fuel']
    bad = [(k, l, a) for (k, _), l, a in zip(pats, laws, lw) if a != 'true']
    # statistics on what was exercised
    nargs = collections.Counter()
    heads = collections.Counter()
    looked_through = 0
    for (k, p), a in zip(pats, pa):
        if a.startswith('(some'):
            x = sx.parse(a)[0]
            nargs[min(len(x[2]), 6)] += 1
            heads[x[1][0]] += 1
            if p[0] == 'inst':
                looked_through += 1
    print('requests: %d nary (distinct %d) + %d laws' % (len(lines), len(set(lines)), len(laws)))
    print('by family:', dict(collections.Counter(k.split(':')[0] for k, _ in pats)))
    print('shipped application-bodied notations used: %d' % len(nots))
    print('top node is a notation application: %d' % looked_through)
    print('number of arguments (6 = six or more):', dict(sorted(nargs.items())))
    print('head class of the answer:', dict(heads))
    print('model out of fuel: %d, python RecursionError: %d, python raised: %d' % (
        fuel_model, fuel_py, sum(1 for a in pa if a.startswith('(raise'))))
    print('model/python disagreements: %d' % len(dis))
    for d in dis[:10]:
        print('  DIS', d)
    print('law failures on the real code: %d' % len(bad))
    for b in bad[:10]:
        print('  LAW', b)
    return 1 if (dis or bad) else 0


if __name__ == '__main__':
    sys.exit(main())
