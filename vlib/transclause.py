"""Translator: the CLAUSE UTILITIES and the resolution proof builder of the tautology prover WITH THEIR PROOF OBJECTS
(generation/src/proof_generation/tautology.py, Python `ast`) -> the Lean functions of `Pi2/Gen/ClauseProofs.lean` (namespace
`Gen.Clause`), statement by statement, regenerated on every run.  `Pi2/ClauseThm.lean` proves that the proof objects conclude
what the docstrings say.

This is the translator of `vlib/transstage.py` (class `ClauseFn` extends `transstage.StageFn`, which extends `transtaut.Fn`:
the data part of every function is produced by the same code over the same primitives, every `ProofThunk` expression is a
value of the carrier `τ` of a thunk algebra `A : StageSup.SAlg τ`, a call of a library lemma is `lib A ix_<lemma> [..] [..]`),
extended by what only the clause utilities use:

  * MODULE-LEVEL functions (`id_to_metavar`, `foldl_op`, `foldr_op`, `clause_to_pattern`, `clause_conjunctionto_pattern`) are
    translated like methods; a call `f(..)` of one of them is a call of the generated function; DEFAULT parameter values are
    filled in at the call (`foldr_op(op, l)` is `foldr_op op l 0 (-1)`);
  * a parameter annotated `Callable[[X..], Y]` is a function `X.. → Y` when `Y` is `Pattern` (a notation constructor: total)
    and `X.. → Option Y` otherwise (a proof method / `assert_matches`: may raise); `tuple[Pattern, ...]` is a `List Pat`.
    A function VALUE is: a local of such a type; `_or` / `_and` (`Lem.orP` / `Lem.andP`); `_or.assert_matches`
    (`Lem.matchNotn .or`: the tuple of the arguments); a bound library lemma `self.or_assoc`
    (`fun a b c => lib A ix_or_assoc [a, b, c] []`); a `lambda` (its parameters are patterns: checked at its calls);
  * a NESTED function (`unroll` in `ac_move_to_front`) is a generated function of its own, `<f>_<g>`; the variables of the
    enclosing function it reads (none of which is assigned after the `def`) are its leading parameters;
  * `a, b = e` for a `tuple[X, ...]`/list `e` is `ClauseSup.pyUnpack2` (`ValueError`); `xs[i] = v` on a list is
    `ClauseSup.pyListSet` (`IndexError`); `sorted` / `abs` are `ClauseSup.pySorted` / `ClauseSup.pyAbs`;
  * a variable that is bound ONLY inside a `for` loop and read after it (`neg_first`, `id`, `pos` of `prove_trivial_clause`) is
    carried through the loop as an `Option` (`none` = unbound); every later read of it is a bind (`UnboundLocalError`);
  * `match (b1, b2): case False, True: ..` on a tuple of booleans whose cases are constants and exhaustive (checked here) is
    the chain `if b1 == False && b2 == True then .. else ..`, the last case being the final `else`.
Nothing is dropped.  Everything that is not recognised is reported as a problem and makes the generated file define
`translated := false`."""
from __future__ import annotations

import ast
import copy
import itertools
import os
import re

from . import core
from . import transstage as ts
from . import transtaut as tt
from .transstage import PATX, PNOT, SUBST, LemmaTable, StageFn
from .transtaut import BOOL, FS, INT, NONE, PAT, PROOF, TrErr, first_line, indent, is_kind, lname, paren_ty

MODULE_FUNCS = ['id_to_metavar', 'foldl_op', 'foldr_op', 'clause_to_pattern', 'clause_conjunctionto_pattern']
METHODS = ['conjunction_implies_nth', 'ac_move_to_front', 'or_move_to_front', 'and_move_to_front',
           'reduce_n_or_duplicates_at_front', 'simplify_clause', 'merge_clauses', 'prove_trivial_clause', 'build_proof_from_hint']
NOTN = {'neg': '.neg', '_and': '.and', '_or': '.or', 'equiv': '.equiv'}


def px(t):
    """Pattern -> proof-side pattern, everywhere in a type"""
    if t == PAT:
        return PATX
    if isinstance(t, tuple):
        if t[0] in ('opt', 'list', 'late'):
            return (t[0], px(t[1]))
        if t[0] == 'tuple':
            return ('tuple', tuple(px(x) for x in t[1]))
        if t[0] in ('dict', 'union'):
            return (t[0], px(t[1]), px(t[2]))
        if t[0] == 'fn':
            return ('fn', tuple(px(x) for x in t[1]), px(t[2]))
    return t


def fn_monadic(t):
    """a callable that returns a pattern is a notation constructor (total); any other one may raise"""
    return t[2] != PATX


def clause_lean_ty(t):
    if is_kind(t, 'fn'):
        r = paren_ty(clause_lean_ty(t[2]))
        return ' → '.join([paren_ty(clause_lean_ty(a)) for a in t[1]] + [('Option ' + r) if fn_monadic(t) else r])
    if is_kind(t, 'late'):
        return 'Option ' + paren_ty(clause_lean_ty(t[1]))
    return ts.stage_lean_ty(t)


class ClauseMod(tt.Mod):
    def ann(self, a):
        if isinstance(a, ast.Subscript) and isinstance(a.value, ast.Name) and a.value.id == 'Callable':
            args = a.slice.elts if isinstance(a.slice, ast.Tuple) else []
            if len(args) == 2 and isinstance(args[0], ast.List):
                return ('fn', tuple(self.ann(x) for x in args[0].elts), self.ann(args[1]))
        return super().ann(a)


def strip_nested(node):
    """-> (copy of the function in which every top-level nested `def` is a placeholder statement, [nested defs])"""
    c = copy.deepcopy(node)
    nested = []
    body = []
    for s in c.body:
        if isinstance(s, ast.FunctionDef):
            p = ast.Pass()
            ast.copy_location(p, s)
            p._nested = s
            nested.append(s)
            body.append(p)
        else:
            body.append(s)
    c.body = body
    return c, nested


class ClauseFn(StageFn):
    def __init__(self, mod, node, lemmas, kind, parent=None):
        self.kind = kind                 # 'method' | 'module' | 'nested'
        self.pyname = node.name
        self.parent = parent
        self.closure = []                # [(name, type)] of a nested function, known when the enclosing `def` is reached
        tt.Fn.__init__(self, mod, node, kind == 'method')
        self.problems = [p for p in self.problems if 'default / variadic' not in p]
        if node.args.vararg or node.args.kwarg or node.args.kwonlyargs:
            self.problems.append(f'{self.name}: variadic / keyword-only parameters')
        args = node.args.args[1:] if kind == 'method' else node.args.args
        self.defaults = [None] * (len(args) - len(node.args.defaults)) + list(node.args.defaults)
        self.lem = lemmas
        self.params = [(p, px(t)) for p, t in self.params]
        self.ret = px(self.ret)
        self.declared_proof = set()
        for n in ast.walk(node):
            if isinstance(n, ast.AnnAssign) and isinstance(n.target, ast.Name):
                try:
                    if mod.ann(n.annotation) == PROOF:
                        self.declared_proof.add(n.target.id)
                except TrErr:
                    pass
        self.opaque_used = []
        if kind == 'nested':
            self.name = f'{parent.name}_{node.name}'
        self.nested = {}                 # python name -> ClauseFn, of an enclosing function

    # ---- calls by name ---------------------------------------------------------------------------
    def _is_call_of(self, x, name):
        if self.kind != 'method' and isinstance(x, ast.Call) and isinstance(x.func, ast.Name) and x.func.id == self.pyname:
            return name in (self.name, self.pyname)
        return tt.Fn._is_call_of(self, x, name)

    def named(self, x):
        """the translated module-level / nested function a call `f(..)` is a call of"""
        if isinstance(x, ast.Call) and isinstance(x.func, ast.Name):
            g = getattr(self, 'all_fns', {}).get(x.func.id)
            if g is not None and getattr(g, 'kind', 'method') != 'method':
                return g
        return None

    def self_call(self, x):
        g = self.named(x)
        if g is not None:
            return g.pyname
        return tt.Fn.self_call(self, x)

    def compute_proofvars(self):
        self.proofvars = set()

    def is_dropped(self, s):
        if isinstance(s, ast.Pass) and hasattr(s, '_nested'):
            return False
        return super().is_dropped(s)

    def src_comment(self, s):
        if hasattr(s, '_comment'):
            return f'-- {s.lineno}: {s._comment}'
        if hasattr(s, '_nested'):
            return f'-- {s.lineno}: {first_line(s._nested)}'
        return super().src_comment(s)

    # ---- expressions -----------------------------------------------------------------------------
    def ex(self, e, want=None):
        if isinstance(e, ast.Name) and is_kind(self.env.get(e.id), 'late'):
            # a local that is bound inside a loop only: `none` = still unbound (UnboundLocalError); once read it is bound
            if self.nest:
                raise TrErr(f'{e.id}, bound inside a loop only, is first read inside a comprehension / lambda')
            self.pre.append(f'let {lname(e.id)} ← {lname(e.id)}')
            self.env[e.id] = self.env[e.id][1]
            return self.ex(e, want)
        if is_kind(want, 'fn'):
            return self.ex_fnval(e, want)
        if isinstance(e, ast.Lambda):
            return self.ex_lambda(e, None)
        if isinstance(e, ast.Name) and is_kind(self.env.get(e.id), 'fn'):
            return lname(e.id), self.env[e.id]
        if isinstance(e, ast.Call) and isinstance(e.func, ast.Name) and not e.keywords:
            n = e.func.id
            if is_kind(self.env.get(n), 'fn'):
                return self.ex_local_call(e, self.env[n])
            g = self.named(e)
            if g is not None:
                return self.ex_named_call(e, g)
            if n == 'sorted' and len(e.args) == 1:
                a, ta = self.ex(e.args[0])
                if ta != ('list', INT):
                    raise TrErr(f'sorted(..) of a {ta}')
                return f'(ClauseSup.pySorted {a})', ta
            if n == 'abs' and len(e.args) == 1:
                a, ta = self.ex(e.args[0])
                if ta != INT:
                    raise TrErr(f'abs(..) of a {ta}')
                return f'(ClauseSup.pyAbs {a})', INT
        return super().ex(e, want)

    def typed_args(self, what, args, ptys):
        out = []
        for a, pt in zip(args, ptys):
            t, ty = self.ex(a, pt)
            if ty == ('opt', PROOF) and pt == PROOF:
                t, ty = self.bindm(t, PROOF)
            if ty != pt and not (is_kind(ty, 'list') and ty[1] is None and is_kind(pt, 'list')):
                raise TrErr(f'{what}: argument `{ast.unparse(a)[:40]}` of {ty} for a parameter of {pt}')
            out.append(t if ty == pt else f'({t} : {clause_lean_ty(pt)})')
        return out

    def ex_local_call(self, e, fty):
        n = e.func.id
        if len(e.args) != len(fty[1]):
            raise TrErr(f'{n}(..): {len(e.args)} arguments for a callable of {len(fty[1])}')
        args = self.typed_args(n, e.args, fty[1])
        call = f'{lname(n)} ' + ' '.join(args)
        if fn_monadic(fty):
            return self.bindm(call, fty[2])
        return f'({call})', fty[2]

    def ex_named_call(self, e, g):
        n = g.pyname
        if len(e.args) > len(g.params):
            raise TrErr(f'{n}: too many arguments')
        args = list(e.args)
        for i in range(len(args), len(g.params)):
            d = g.defaults[i]
            if d is None:
                raise TrErr(f'{n}: missing argument {g.params[i][0]}')
            args.append(d)
        if any(t is None for _, t in g.params):
            raise TrErr(f'{n}: a parameter has no type')
        targs = self.typed_args(n, args, [t for _, t in g.params])
        clo = []
        if g.kind == 'nested':
            if g.closure is None:
                raise TrErr(f'{n} is called before its definition is reached')
            for c, ct in g.closure:
                if c not in self.env and not (self is g):
                    raise TrErr(f'{n}: its free variable {c} is not bound at the call')
                clo.append(lname(c))
        call = ' '.join([lname(g.name)] + clo + (['fuel_'] if g.fuel else []) + targs)
        return self.bindm(call, g.ret)

    nest = 0

    def ex_comp(self, e):
        self.nest += 1
        try:
            return super().ex_comp(e)
        finally:
            self.nest -= 1

    def ex_list(self, e, want):
        if isinstance(e, ast.ListComp):
            self.nest += 1
            try:
                return super().ex_list(e, want)
            finally:
                self.nest -= 1
        return super().ex_list(e, want)

    def ex_lambda(self, e, want):
        self.nest += 1
        try:
            return self.ex_lambda_(e, want)
        finally:
            self.nest -= 1

    def ex_lambda_(self, e, want):
        a = e.args
        if a.vararg or a.kwarg or a.defaults or a.kwonlyargs or a.posonlyargs:
            raise TrErr('lambda with default / variadic parameters')
        names = [x.arg for x in a.args]
        ptys = list(want[1]) if want is not None else [PATX] * len(names)     # patterns: checked by the body and at the calls
        if len(ptys) != len(names):
            raise TrErr('lambda: arity')
        for n_ in names:
            if n_ in self.locals:
                raise TrErr(f'lambda parameter {n_} shadows a local')
        saved_env, saved_pre = dict(self.env), self.pre
        self.env.update(dict(zip(names, ptys)))
        self.pre = []
        try:
            v, tv = self.ex(e.body, want[2] if want is not None else None)
            inner = self.pre
        finally:
            self.env, self.pre = saved_env, saved_pre
        ty = ('fn', tuple(ptys), tv)
        if want is not None and ty != want:
            raise TrErr(f'lambda of {ty} where {want} is expected')
        ps = ' '.join(f'({lname(n_)} : {clause_lean_ty(t)})' for n_, t in zip(names, ptys))
        if fn_monadic(ty):
            return f'(fun {ps} => do ' + '; '.join(inner + [f'pure {v}']) + ')', ty
        if inner:
            raise TrErr('a lambda that returns a pattern and can raise')
        return f'(fun {ps} => {v})', ty

    def ex_fnval(self, e, want):
        if isinstance(e, ast.Name) and e.id in self.env:
            if self.env[e.id] != want:
                raise TrErr(f'{e.id} of {self.env[e.id]} where a callable of {want} is expected')
            return lname(e.id), want
        if isinstance(e, ast.Lambda):
            return self.ex_lambda(e, want)
        if isinstance(e, ast.Name) and e.id in PNOT and e.id not in self.locals:
            if want != ('fn', tuple([PATX] * PNOT[e.id][1]), PATX):
                raise TrErr(f'the notation {e.id} where a callable of {want} is expected')
            return PNOT[e.id][0], want
        if isinstance(e, ast.Attribute) and isinstance(e.value, ast.Name):
            if e.attr == 'assert_matches' and e.value.id in NOTN and e.value.id not in self.locals:
                if want != ('fn', (PATX,), ('list', PATX)):
                    raise TrErr(f'{e.value.id}.assert_matches where a callable of {want} is expected')
                return f'(Lem.matchNotn {NOTN[e.value.id]})', want
            if e.value.id == 'self' and e.attr in self.lem.index and e.attr not in self.all_fns:
                m = e.attr
                callee = self.lem.methods[m]
                if want[2] != PROOF:
                    raise TrErr(f'self.{m} where a callable of {want} is expected')
                ps, tsx, xs = [], [], []
                for i, (pn, kind, dv) in enumerate(callee.params):
                    if i < len(want[1]):
                        x = f'x{i + 1}_'
                        if (kind, want[1][i]) not in (('P', PATX), ('T', PROOF)):
                            raise TrErr(f'self.{m}: parameter {pn} for an argument of {want[1][i]}')
                        xs.append(x)
                        (ps if kind == 'P' else tsx).append(x)
                    else:
                        if dv is None or kind != 'P':
                            raise TrErr(f'self.{m}: missing argument {pn}')
                        ps.append(f'(phi {dv})')
                if len(want[1]) > len(callee.params):
                    raise TrErr(f'self.{m}: too many arguments')
                return f'(fun {" ".join(xs)} => lib A {self.lem.use(m)} [{", ".join(ps)}] [{", ".join(tsx)}])', want
        raise TrErr(f'`{ast.unparse(e)[:50]}` where a callable of {want} is expected')

    # ---- statements ------------------------------------------------------------------------------
    def tr_stmt(self, s, rest, k, ctx):
        if isinstance(s, ast.Pass) and hasattr(s, '_nested'):
            return [self.src_comment(s)] + self.tr_nested_def(s, rest) + self.tr_block(rest, k, ctx)
        if isinstance(s, ast.Match):
            return [self.src_comment(s)] + self.tr_match(s, rest, k, ctx)
        if isinstance(s, ast.Pass) and hasattr(s, '_comment'):
            return [self.src_comment(s)] + self.tr_block(rest, k, ctx)
        return super().tr_stmt(s, rest, k, ctx)

    def tr_nested_def(self, s, rest):
        node = s._nested
        g = self.nested.get(node.name)
        if g is None:
            raise TrErr(f'nested function {node.name} is not registered')
        free = []
        for n in ast.walk(node):
            if isinstance(n, ast.Name) and isinstance(n.ctx, ast.Load) and n.id in self.locals and n.id not in g.locals and n.id not in free:
                free.append(n.id)
        free.sort(key=self.locals.index)
        for c in free:
            if c not in self.env:
                raise TrErr(f'{node.name} reads {c}, which is not bound where {node.name} is defined')
            for r in rest:
                for n in ast.walk(r):
                    if isinstance(n, ast.Name) and n.id == c and isinstance(n.ctx, (ast.Store, ast.Del)):
                        raise TrErr(f'{c}, read by the nested function {node.name}, is assigned after its definition')
        g.closure = [(c, self.env[c]) for c in free]
        g.all_fns = self.all_fns
        lines = g.translate()
        self.problems += g.problems
        self.loop_defs.append(lines)
        self.nested_names = getattr(self, 'nested_names', []) + list(g.loops.values()) + [g.name]
        return [f'-- (the generated function `{g.name}`; it reads ' + (', '.join(free) or 'nothing') + ' of this function)']

    def tr_match(self, s, rest, k, ctx):
        subj = s.subject.elts if isinstance(s.subject, ast.Tuple) else [s.subject]
        lines = []
        names = []
        for i, e in enumerate(subj):
            t, ty = self.ex(e)
            if ty != BOOL:
                raise TrErr(f'match on a {ty}')
            nm = f'm{s.lineno}_{i + 1}_'
            lines += self.flush() + [f'let {nm} := {t}']
            self.env[nm] = BOOL
            names.append(nm)
        combos = []
        for c in s.cases:
            if c.guard is not None:
                raise TrErr('case with a guard')
            p = c.pattern
            ps = p.patterns if isinstance(p, ast.MatchSequence) else [p]
            if len(ps) != len(subj) or not all(isinstance(x, ast.MatchSingleton) and isinstance(x.value, bool) for x in ps):
                raise TrErr(f'case pattern `{ast.unparse(p)}`')
            combos.append(tuple(x.value for x in ps))
        if len(set(combos)) != len(combos) or set(combos) != set(itertools.product((False, True), repeat=len(subj))):
            raise TrErr('match whose cases are not exactly all combinations of booleans')
        node = None
        for c, combo in reversed(list(zip(s.cases, combos))):
            if node is None:
                # the last case: all other combinations have been tested (the cases are exhaustive and distinct)
                mark = ast.Pass()
                ast.copy_location(mark, c.pattern)
                mark._comment = 'case ' + ast.unparse(c.pattern) + ': (the remaining combination)'
                node = [mark] + list(c.body)
                continue
            test = ast.BoolOp(op=ast.And(), values=[
                ast.Compare(left=ast.Name(id=nm, ctx=ast.Load()), ops=[ast.Eq()], comparators=[ast.Constant(value=v)])
                for nm, v in zip(names, combo)]) if len(names) > 1 else ast.Compare(
                left=ast.Name(id=names[0], ctx=ast.Load()), ops=[ast.Eq()], comparators=[ast.Constant(value=combo[0])])
            ifn = ast.If(test=test, body=list(c.body), orelse=node)
            ast.copy_location(ifn, c.pattern)
            ast.fix_missing_locations(ifn)
            ifn._comment = 'case ' + ast.unparse(c.pattern) + ':'
            node = [ifn]
        ifn = node[0]
        return lines + [self.src_comment(ifn)] + self.tr_if(ifn, rest, k, ctx)

    def tr_assign(self, s):
        t = s.targets[0] if isinstance(s, ast.Assign) and len(s.targets) == 1 else None
        if isinstance(t, ast.Name) and is_kind(self.env.get(t.id), 'late'):
            del self.env[t.id]          # the assignment binds it
        if isinstance(t, (ast.Tuple, ast.List)) and len(t.elts) == 2 and not isinstance(s.value, ast.Tuple):
            saved = (list(self.pre), self.ntmp)
            v, tv = self.ex(s.value)
            if is_kind(tv, 'list') and tv[1] is not None:
                pat, binds = self.target_pattern(t, ('tuple', (tv[1], tv[1])))
                lines = self.flush() + [f'let {pat} ← ClauseSup.pyUnpack2 {v}']
                self.env.update(binds)
                for n in binds:
                    self.unstale(n)
                return lines
            self.pre, self.ntmp = saved
        if isinstance(t, ast.Subscript) and isinstance(t.value, ast.Name) and is_kind(self.env.get(t.value.id), 'list'):
            x = t.value.id
            tx = self.env[x]
            i, ti = self.ex(t.slice)
            if ti != INT:
                raise TrErr(f'`{ast.unparse(t)[:40]}`: index of {ti}')
            v, tv = self.ex(s.value, tx[1])
            if tv != tx[1]:
                raise TrErr(f'a value of {tv} is stored in a {tx}')
            return self.flush() + [f'let {lname(x)} ← ClauseSup.pyListSet {lname(x)} {i} {v}']
        return super().tr_assign(s)

    # ---- loops: as transtaut, plus the variables that are bound inside the loop only and read after it --------------
    def dry_run_types(self, s, elty, late, before):
        saved = (dict(self.env), list(self.stale), self.pre, self.ntmp, self.nloops, dict(self.loops), list(self.loop_defs),
                 list(self.problems), dict(self.refined), list(self.new_stale))
        found = {}

        def record():
            for n in late:
                if n in self.env and not is_kind(self.env[n], 'late') and n not in found:
                    found[n] = self.env[n]
            return ['none']
        try:
            pat, binds = self.target_pattern(s.target, elty)
            self.env = dict(before)
            self.env.update(binds)
            self.pre = []
            ctx2 = {'ret': (lambda v: record()), 'cont': record, 'brk': record}
            self.tr_block(s.body, record, ctx2)
        finally:
            (self.env, self.stale, self.pre, self.ntmp, self.nloops, self.loops, self.loop_defs, self.problems, self.refined,
             self.new_stale) = saved
        return found

    def tr_for(self, s, rest, k, ctx):
        if s.orelse:
            raise TrErr('for .. else')
        if any(self._is_call_of(x, self.name) for b in s.body for x in ast.walk(b)):
            raise TrErr('a loop whose body calls the enclosing function')
        it, ti = self.ex(s.iter)
        if ti == FS:
            it, ti = f'(fsToList {it})', ('list', INT)
        if not is_kind(ti, 'list') or ti[1] is None:
            raise TrErr(f'iteration over a {ti}')
        pre_lines = self.flush()
        index = isinstance(s.iter, ast.Name) and s.iter.id in self._mutated_containers(s.body)
        if index:
            return super().tr_for(s, rest, k, ctx)
        key = id(s)
        before = dict(self.env)
        tnames = [x.id for x in ast.walk(s.target) if isinstance(x, ast.Name)]
        body_assigned = self.assigned(s.body)
        late = [n for n in body_assigned if n not in before and n not in tnames and self.read_outside(n, s)]
        if late:
            found = self.dry_run_types(s, ti[1], late, before)
            for n in late:
                if n not in found:
                    raise TrErr(f'{n} is bound inside the loop only, and its type cannot be determined')
                before[n] = ('late', found[n])
                self.env[n] = ('late', found[n])
            pre_lines.append('-- (not bound before the loop: ' + ', '.join(late) + '; `none` = unbound, a read is a bind: UnboundLocalError)')
            for n in late:
                pre_lines.append(f'let {lname(n)} := (none : {clause_lean_ty(before[n])})')
        state = [n for n in body_assigned if n in before]
        state = [n for n in state if n not in tnames or n in before]
        has_ret = any(isinstance(n, ast.Return) for b in s.body for n in ast.walk(b))
        fuel = self.calls_fuel(s.body)
        reads = self.kept_reads(s.body)
        ctxv = [n for n in before if n in reads and n not in state and n not in tnames]

        def state_now():
            parts = []
            for n in state:
                if n in late and not is_kind(self.env.get(n), 'late'):
                    parts.append(f'(some {lname(n)})')
                else:
                    parts.append(lname(n))
            return parts

        def tup(parts):
            if not parts:
                return '()'
            return parts[0] if len(parts) == 1 else '(' + ', '.join(parts) + ')'
        if key not in self.loops:
            self.nloops += 1
            number = self.nloops
            name = f'{self.name}_for{number}'
            self.loops[key] = name
            pat, binds = self.target_pattern(s.target, ti[1])
            ctxa = ' '.join(lname(n) for n in ctxv)

            def nxt():
                return [' '.join(x for x in [name, ('fuel_' if fuel else ''), ctxa, 'it_'] + state_now() if x)]

            def go():
                return [f'pure (Ctl.go {tup(state_now())})' if has_ret else f'pure {tup(state_now())}']
            saved = (dict(self.env), list(self.stale), self.pre)
            self.env = dict(before)
            self.env.update(binds)
            self.pre = []
            ctx2 = {'ret': (lambda v: [f'pure (Ctl.ret {v})']), 'cont': nxt, 'brk': go}
            body = self.tr_block(s.body, nxt, ctx2)
            self.env, self.stale, self.pre = saved
            for n in state:
                if n in self.refined:
                    self.env[n] = self.refined[n]
            styl = [clause_lean_ty(self.env[n]) for n in state]
            sty = 'Unit' if not state else (styl[0] if len(state) == 1 else '(' + ' × '.join(paren_ty(x) for x in styl) + ')')
            rty = f'Ctl {paren_ty(self.full_ret_ty())} {paren_ty(sty)}' if has_ret else sty
            ctxp = ' '.join(f'({lname(n)} : {clause_lean_ty(self.env[n])})' for n in ctxv)
            doc = f'/-- the `for` loop at line {s.lineno} of `{self.pyname}` (loop {number}): `{first_line(s)}` -/'
            d = [doc]
            arrow = ' → '.join(paren_ty(x) for x in styl)
            fp = '(fuel_ : Nat) ' if fuel else ''
            d.append(f'def {name} {fp}{ctxp} : {clause_lean_ty(ti)}' + (f' → {arrow}' if styl else '') + f' → Option {paren_ty(rty)}')
            stn = [lname(n) for n in state]
            d.append('  | []' + ''.join(f', {n}' for n in stn) + ' => ' + (f'pure (Ctl.go {tup(stn)})' if has_ret else f'pure {tup(stn)}'))
            d.append(f'  | {pat} :: it_' + ''.join(f', {n}' for n in stn) + ' => do')
            d += indent(body, 4)
            self.loop_defs.append(d)
        name = self.loops[key]
        stv = ' '.join(lname(n) for n in state)
        ctxa = ' '.join(lname(n) for n in ctxv)
        call = ' '.join(x for x in [name, ('fuel_' if fuel else ''), ctxa, it, stv] if x)
        stup = self.tuple_of(state)
        for n in state:
            if n in self.refined:
                self.env[n] = self.refined[n]
        if has_ret:
            t = self.tmp()
            return (pre_lines + [f'let {t} ← {call}', f'match {t} with', '| .ret r_ =>'] + indent(ctx['ret']('r_'))
                    + [f'| .go {stup} =>'] + indent(self.tr_block(rest, k, ctx)))
        return pre_lines + [f'let {stup} ← {call}'] + self.tr_block(rest, k, ctx)

    # ---- the function ----------------------------------------------------------------------------
    def translate(self):
        self.translating = True
        try:
            return self._translate()
        finally:
            self.translating = False

    def _translate(self):
        self.env = {p: t for p, t in self.params if t is not None}
        for c, ct in self.closure:
            self.env[c] = ct
        self.pre, self.stale, self.new_stale, self.refined = [], [], [], {}
        self.ntmp, self.nloops, self.loops, self.loop_defs = 0, 0, {}, []
        self.skip_stale = 0
        if self.ret is None:
            return [f'-- PROBLEM: {self.name}: no return type']

        def k_end():
            if is_kind(self.ret, 'opt'):
                return ['-- (end of the function: returns None)', 'pure none']
            self.problems.append(f'{self.name}: control can reach the end of the function, which does not return a value')
            return ['-- PROBLEM: end of the function without return', 'none']
        ctx = {'ret': (lambda v: [f'pure {v}']), 'cont': None, 'brk': None}
        if self.container_mut:
            self.problems.append(f'{self.name}: a parameter is mutated in place')
        try:
            body = self.tr_block(self.body, k_end, ctx)
            rty = clause_lean_ty(self.ret)
            ptys = [clause_lean_ty(t) for _, t in self.params]
            clo = ''.join(f' ({lname(c)} : {clause_lean_ty(ct)})' for c, ct in self.closure)
        except TrErr as ex:
            self.problems.append(f'{self.name}: {ex}')
            return [f'-- PROBLEM: {self.name}: {ex}']
        out = []
        for d in self.loop_defs:
            out += d
        what = {'method': '', 'module': 'module-level function ', 'nested': f'nested function `{self.pyname}` of '}[self.kind]
        where = f'`{self.parent.pyname}`' if self.kind == 'nested' else f'`{self.pyname}`'
        out.append(f'/-- {what}{where} (tautology.py line {self.node.lineno}): data and proof objects -/')
        if self.self_rec:
            out.append(f'def {lname(self.name)}{clo} : Nat' + ''.join(f' → {paren_ty(t)}' for t in ptys) + f' → Option {paren_ty(rty)}')
            out.append('  | 0' + ', _' * len(ptys) + ' => none')
            out.append('  | fuel_ + 1' + ''.join(f', {lname(p)}' for p, _ in self.params) + ' => do')
            out += indent(body, 4)
        else:
            ps = ('(fuel_ : Nat) ' if self.fuel else '') + ' '.join(f'({lname(p)} : {t})' for (p, _), t in zip(self.params, ptys))
            out.append(f'def {lname(self.name)}{clo} {ps} : Option {paren_ty(rty)} := do')
            out += indent(body, 2)
        return out


# ----------------------------------------------------------------------------------------------
# the module
# ----------------------------------------------------------------------------------------------

HEADER = '''import Pi2.ClauseSupport
import Pi2.Gen.PyTaut
/-! GENERATED by /verif/vlib/transclause.py from the clause utilities and the resolution proof builder of the tautology prover
WITH THEIR PROOF OBJECTS (generation/src/proof_generation/tautology.py), statement by statement — do not edit.
`Pi2/ClauseThm.lean` proves that the returned proof objects conclude what the docstrings say, over the conclusion algebra
`StageSup.algCS` and over the proof-tree algebra `StageSup.algGS`.
Conventions as in `Pi2/Gen/StageProofs.lean` (same translator): a `ProofThunk` is a value of the carrier `τ` of the thunk
algebra `A : StageSup.SAlg τ`; `lib A ix_<lemma> [patterns] [thunks]` is the call of a library lemma of `Gen.lemmaDefs`
(`Pi2/Gen/Lemmas.lean`), `A.mp` is `modus_ponens`; proof-side patterns are notation-free (`Pat`).  A `Callable` parameter is a
function (`→ Option _` unless it returns a pattern); a nested function is a function of its own whose leading parameters are
the variables of the enclosing function it reads; a variable bound inside a loop only is an `Option` (a read is a bind).
`none` = the Python code raises (also: a proof construction fails), or the fuel ran out.
%s-/
set_option linter.unusedVariables false
namespace Gen.Clause
open TautSup Pat
open StageSup (lib)
open Gen.PyTaut (%s)'''


def translate_source(src, extra_srcs):
    """-> (lines, notes, problems, opens)"""
    mod = ClauseMod(src, extra_srcs)
    problems = list(mod.problems)
    if mod.taut is None:
        return [], [], problems, ''
    lemmas = LemmaTable()
    fns = {}
    nested_all = []
    for name in MODULE_FUNCS + METHODS:
        is_mod = name in MODULE_FUNCS
        node = (mod.module_funcs if is_mod else mod.methods).get(name)
        if node is None:
            problems.append(f'{"function" if is_mod else "method"} {name} not found')
            continue
        bad = [x for x in ast.walk(node) if isinstance(x, ast.FunctionDef) and x is not node and x not in node.body]
        if bad:
            problems.append(f'{name}: a nested function that is not a top-level statement of its body')
            continue
        node2, nested = strip_nested(node)
        f = ClauseFn(mod, node2, lemmas, 'module' if is_mod else 'method')
        fns[name] = f
        for nd in nested:
            if nd.name in fns or nd.name in mod.methods or nd.name in mod.module_funcs or nd.name in [g.pyname for g in nested_all]:
                problems.append(f'{name}: the name of the nested function {nd.name} is used elsewhere')
                continue
            if any(isinstance(x, (ast.FunctionDef)) for x in ast.walk(nd) if x is not nd):
                problems.append(f'{name}: doubly nested function in {nd.name}')
                continue
            g = ClauseFn(mod, nd, lemmas, 'nested', parent=f)
            g.closure = None
            f.nested[nd.name] = g
            nested_all.append(g)
    allf = dict(fns)
    for g in nested_all:
        allf[g.pyname] = g
    for _ in range(3):
        for f in allf.values():
            saved = list(f.problems)
            f.prepass(allf)
            f.problems = saved if _ < 2 else f.problems
    for f in allf.values():
        f.fuel = f.self_rec or f.index_loops
    for f in fns.values():      # a function calls the functions nested in it
        for g in f.nested.values():
            f.calls.add(g.pyname)
    changed = True
    while changed:
        changed = False
        for f in allf.values():
            if not f.fuel and any(c in allf and allf[c].fuel for c in f.calls):
                f.fuel = True
                changed = True
    order = []

    def visit(n, stack=()):
        if n in order or n in stack:
            return
        for c in sorted(fns[n].calls, key=lambda x: allf[x].node.lineno if x in allf else 0):
            if c in fns and c != n:
                visit(c, stack + (n,))
        order.append(n)
    for n in sorted(fns, key=lambda x: fns[x].node.lineno):
        visit(n)
    mod.gen_classes(set())          # fills the field tables; the classes themselves are those of Gen.PyTaut
    problems += [p for p in mod.problems if p not in problems]
    body = []
    defined = []
    for n in order:
        f = fns[n]
        for g in allf.values():
            g.all_fns = allf
        lines = f.translate()
        problems += f.problems
        defined += list(f.loops.values()) + getattr(f, 'nested_names', []) + [f.name]
        body.append(lines)
    for g in nested_all:
        if g.closure is None:
            problems.append(f'the nested function {g.pyname} was not reached')
    out = []
    rx = re.compile(r'(?<![\w.«])(' + '|'.join(re.escape(d) for d in sorted(defined, key=len, reverse=True)) + r')(?![\w»])') if defined else None
    for lines in body:
        for line in lines:
            st = line.strip()
            if st.startswith('--') or st.startswith('/--'):
                out.append(line)
                continue
            m = re.match(r'(\s*)def (\S+)\s*(.*)$', line)
            if m and m.group(2) in defined:
                out.append(f'{m.group(1)}def {m.group(2)} {{τ : Type}} (A : StageSup.SAlg τ) {m.group(3)}')
                continue
            if rx is not None:
                line = rx.sub(lambda mm: mm.group(0) + ' A', line)
            out.append(line)
    table = ['/-- the library lemmas the clause utilities call: index in `Gen.lemmaDefs` -/']
    for name in lemmas.used:
        table.append(f'def ix_{name} : Nat := {lemmas.index[name]}')
    table.append('/-- …by name -/')
    table.append('def lemmaTable : List (String × Nat) := [' + ', '.join(f'("{n}", ix_{n})' for n in lemmas.used) + ']')
    table.append('/-- the indices are those of `Gen.lemmaDefs` (same run of the translators; checked by evaluation) -/')
    table.append('theorem lemmaTable_ok : lemmaTable.all (fun p => (Gen.lemmaDefs[p.2]?).map (·.name) == some p.1) = true := by decide')
    notes = ['Translated (callees first): ' + ', '.join(order) + ' (+ the nested function ' + ', '.join(f'{g.pyname} of {g.parent.pyname}' for g in nested_all) + ').',
             'Library lemmas called: ' + ', '.join(f'{n} ({lemmas.index[n]})' for n in lemmas.used) + '.']
    opens = []
    for c in mod.classes.values():
        r = mod.root_of[c.name]
        if r not in opens:
            opens.append(r)
        if c.name in [x.name for x in mod.ctors(r)]:
            opens.append(f'{c.name}_new')
    return table + out, notes, problems, ' '.join(opens)


def gen_clause_proofs(src_path=None, out_dir=None):
    """regenerate Pi2/Gen/ClauseProofs.lean"""
    default = os.path.join(core.PYSRC, 'proof_generation/tautology.py')
    src_path = src_path or default
    extra = []
    for rel in ('proofs/propositional.py', 'proof.py'):
        p = os.path.join(os.path.dirname(src_path), rel)
        if not os.path.exists(p):
            p = os.path.join(os.path.dirname(default), rel)
        try:
            extra.append(open(p).read())
        except OSError:
            pass
    saved = tt.lean_ty
    tt.lean_ty = clause_lean_ty
    try:
        body, notes, problems, opens = translate_source(open(src_path).read(), extra)
    except SyntaxError as ex:
        body, notes, problems, opens = [], [], [f'cannot parse: {ex}'], ''
    except Exception as ex:   # noqa  (a bug of the translator must not leave a stale generated file behind)
        body, notes, problems, opens = [], [], [f'translator failure {type(ex).__name__}: {ex}'], ''
    finally:
        tt.lean_ty = saved
    problems = ['ClauseProofs: ' + p for p in problems]
    lines = [HEADER % (''.join(n.replace('-/', '- /').replace('/-', '/ -') + '\n' for n in notes), opens or 'ConjForm')] + body
    lines.append(f'def translated : Bool := {"true" if not problems else "false"}')
    for p in problems:
        lines.append('-- PROBLEM: ' + p.replace('\n', ' '))
    lines.append('end Gen.Clause')
    from .translate import _write_if_changed, GEN
    _write_if_changed(os.path.join(out_dir or GEN, 'ClauseProofs.lean'), '\n'.join(lines) + '\n')
    return problems


if __name__ == '__main__':
    import sys
    print(gen_clause_proofs(*sys.argv[1:3]))
