"""Generators: patterns and instruction streams.  Every random choice comes from the `random.Random`
passed in (seeded from VERIF_SEED), so any case replays exactly."""
from __future__ import annotations

from . import pymach as pm

IDS = (0, 1, 2)


def sub(rng, pool, maxlen=2):
    n = rng.choice((0, 0, 0, 1, 1, 2)[:3 + maxlen])
    return tuple(sorted(rng.sample(pool, min(n, len(pool)))))


def gen_mv(rng, constrained=0.5):
    if rng.random() > constrained:
        return pm.phi(rng.choice(IDS))
    ef = sub(rng, IDS)
    holes = tuple(h for h in sub(rng, IDS) if h not in ef) if rng.random() < 0.8 else sub(rng, IDS)
    return ('mv', rng.choice(IDS), ef, sub(rng, IDS), sub(rng, IDS), sub(rng, IDS), holes)


def gen_pat(rng, depth, meta=True, subst=True, wf_shape=True):
    """random pattern.  wf_shape: ESubst/SSubst heads are meta-headed (as every machine-built one)."""
    if depth <= 0 or rng.random() < 0.18:
        r = rng.random()
        if r < 0.3:
            return ('evar', rng.choice(IDS))
        if r < 0.55:
            return ('svar', rng.choice(IDS))
        if r < 0.7 or not meta:
            return ('sym', rng.choice(IDS))
        return gen_mv(rng)
    r = rng.random()
    if r < 0.28:
        return ('imp', gen_pat(rng, depth - 1, meta, subst, wf_shape), gen_pat(rng, depth - 1, meta, subst, wf_shape))
    if r < 0.42:
        return ('app', gen_pat(rng, depth - 1, meta, subst, wf_shape), gen_pat(rng, depth - 1, meta, subst, wf_shape))
    if r < 0.58:
        return ('ex', rng.choice(IDS), gen_pat(rng, depth - 1, meta, subst, wf_shape))
    if r < 0.74:
        return ('mu', rng.choice(IDS), gen_pat(rng, depth - 1, meta, subst, wf_shape))
    if not (meta and subst):
        return ('imp', gen_pat(rng, depth - 1, meta, subst, wf_shape), gen_pat(rng, depth - 1, meta, subst, wf_shape))
    kind = 'esub' if rng.random() < 0.5 else 'ssub'
    if wf_shape:
        head = gen_meta_head(rng, depth - 1)
    else:
        head = gen_pat(rng, depth - 1, meta, subst, wf_shape)
    return (kind, head, rng.choice(IDS), gen_pat(rng, depth - 1, meta, subst, wf_shape))


def gen_meta_head(rng, depth):
    if depth <= 0 or rng.random() < 0.55:
        return gen_mv(rng)
    kind = 'esub' if rng.random() < 0.5 else 'ssub'
    return (kind, gen_meta_head(rng, depth - 1), rng.choice(IDS), gen_pat(rng, depth - 1))


def all_small_pats(size, ids=(0, 1), meta=True):
    """every pattern with exactly `size` constructors over the given ids (unconstrained metavars)"""
    memo = {}

    def go(n):
        if n in memo:
            return memo[n]
        out = []
        if n == 1:
            for i in ids:
                out += [('evar', i), ('svar', i)]
            out.append(('sym', 0))
            if meta:
                out.append(pm.phi(0))
                out.append(('mv', 1, (0,), (), (), (), ()))
                out.append(('mv', 1, (), (0,), (0,), (), ()))
        else:
            for i in ids:
                for q in go(n - 1):
                    out.append(('ex', i, q)); out.append(('mu', i, q))
            for a in range(1, n - 1):
                for l in go(a):
                    for r in go(n - 1 - a):
                        out.append(('imp', l, r)); out.append(('app', l, r))
                        if meta and l[0] in ('mv', 'esub', 'ssub'):
                            for i in ids:
                                out.append(('esub', l, i, r)); out.append(('ssub', l, i, r))
        memo[n] = out
        return out
    return go(size)


# ----------------------------------------------------------------------------------------------
# instruction streams
# ----------------------------------------------------------------------------------------------

def enc_all(instrs):
    out = []
    for i in instrs:
        out += pm.enc(i)
    return out


def gen_proof_stream(rng, length=25, phase='proof', mach=None, lenient_ok=False):
    """random walk steered by the Python mirror so that most instructions are accepted; returns
    (instrs, mach).  With small probability an unsteered (possibly rejecting) instruction is emitted."""
    m = mach or pm.Mach()
    out = []
    went_lenient = False
    for _ in range(length):
        cands = []
        S = m.stack
        top = S[-1] if S else None
        snd = S[-2] if len(S) > 1 else None
        cands += [('pat', 3)]
        cands += [('axiom', 3)]
        if top:
            cands += [('save', 1), ('pop', 0.5)]
        if m.memory:
            cands += [('load', 1.5)]
        if top and top[0] == 'P':
            cands += [('ex', 1), ('mu', 1)]
            if snd and snd[0] == 'P':
                cands += [('implies', 2), ('app', 1), ('esubst', 2), ('ssubst', 2)]
        if top and top[0] == 'T':
            cands += [('gen', 3), ('weaken', 2)]
            if snd and snd[0] == 'P':
                cands += [('subst', 4)]
            if snd and snd[0] == 'T':
                cands += [('mp', 4)]
            cands += [('publish', 1.0 if phase == 'proof' and m.claims else 0.05)]
        if top:
            cands += [('instantiate', 4)]
        if top and top[0] == 'P' and phase != 'proof':
            cands += [('publish', 2)]
        tot = sum(w for _, w in cands)
        r = rng.random() * tot
        for name, w in cands:
            r -= w
            if r <= 0:
                break
        seq = make_instr(rng, name, m)
        for ins in seq:
            try:
                m2 = m.copy()
                m2.step(ins, phase)
                m = m2
                out.append(ins)
            except pm.SideRej:
                # a side condition fails.  Sometimes go on AS IF a weakened checker had accepted (lenient mirror): a checker
                # that lost the side condition is then driven on to a conclusion the oracle can refute
                if lenient_ok and rng.random() < 0.5:
                    pm.LENIENT = True
                    try:
                        m2 = m.copy()
                        m2.step(ins, phase)
                        m = m2
                        out.append(ins)
                        went_lenient = True
                        continue
                    except Exception:
                        break
                    finally:
                        pm.LENIENT = False
                if rng.random() < 0.05:
                    out.append(ins)
                    return out, None
                break
            except pm.Rej:
                if rng.random() < 0.03:
                    out.append(ins)     # keep a rejecting instruction now and then
                    return out, None
                break
            except Exception:
                break
    return out, m


def make_instr(rng, name, m):
    if name == 'pat':
        return pm.build(gen_pat(rng, rng.choice((0, 1, 1, 2)), wf_shape=True))
    if name == 'axiom':
        return [(rng.choice(('prop1', 'prop2', 'prop3', 'quantifier', 'existence')),)]
    if name in ('save', 'pop', 'implies', 'app', 'mp', 'publish'):
        return [(name,)]
    if name == 'load':
        return [('load', rng.randrange(len(m.memory) + (1 if rng.random() < 0.05 else 0)))]
    if name in ('ex', 'mu', 'esubst', 'ssubst', 'gen', 'subst'):
        return [(name, rng.choice(IDS))]
    if name == 'instantiate':
        # choose ids among the metavariables of the term on top, push plugs beneath it: we cannot
        # push *beneath*, so emit: plugs..., then re-load the term (needs it in memory) — instead
        # build: save; pop; plugs; load
        n = rng.choice((1, 1, 2, 3))
        ids = [rng.choice(IDS) for _ in range(n)]
        seq = [('save',), ('pop',)]
        for _ in range(n):
            seq += pm.build(gen_pat(rng, rng.choice((0, 1, 2)), wf_shape=True))
        seq += [('load', len(m.memory)), ('instantiate', tuple(ids))]
        return seq
    if name == 'weaken':
        # from Proved A on top derive Proved (B -> A):  plugs, Prop1, Instantiate, swap via memory, MP
        A = m.stack[-1][1]
        B = gen_pat(rng, 1, wf_shape=True)
        idx = len(m.memory)
        return ([('save',), ('pop',)] + pm.build(B) + pm.build(A) + [('prop1',), ('instantiate', (0, 1)),
                ('load', idx), ('mp',)])
    raise ValueError(name)


def mutate(rng, bs):
    """1..3 byte-level mutations"""
    bs = list(bs)
    for _ in range(rng.choice((1, 1, 2, 3))):
        if not bs:
            bs.append(rng.randrange(40))
            continue
        k = rng.random()
        i = rng.randrange(len(bs))
        if k < 0.3:
            bs[i] = rng.choice((rng.randrange(2, 31), rng.randrange(256), 137, 0, 1, bs[i] ^ 1))
        elif k < 0.5:
            del bs[i]
        elif k < 0.7:
            bs.insert(i, rng.choice((rng.randrange(2, 31), rng.randrange(4))))
        elif k < 0.85:
            bs = bs[:i]
        else:
            j = rng.randrange(len(bs))
            bs[i], bs[j] = bs[j], bs[i]
    return bs


# ----------------------------------------------------------------------------------------------
# patterns with notation (NPat)
# ----------------------------------------------------------------------------------------------

_NOTATIONS = None


def shipped_notations():
    global _NOTATIONS
    if _NOTATIONS is None:
        import json
        import os
        from . import core, sx
        p = os.path.join(core.BUILD, 'notations.json')
        d = json.load(open(p))
        _NOTATIONS = [(n['label'], n['arity'], sx.pat_of_s(n['definition']), n['format'], n['group'])
                      for n in d['notations']]
    return _NOTATIONS


def gen_npat(rng, depth, constrained=0.15, subst=0.5):
    """random pattern with notation nodes; substitutions are meta-headed (or notation-headed)"""
    if depth <= 0 or rng.random() < 0.15:
        r = rng.random()
        if r < 0.25:
            return ('evar', rng.choice(IDS))
        if r < 0.4:
            return ('svar', rng.choice(IDS))
        if r < 0.5:
            return ('sym', rng.choice(IDS))
        return gen_mv(rng, constrained)
    r = rng.random()
    d = depth - 1
    if r < 0.22:
        return ('imp', gen_npat(rng, d, constrained, subst), gen_npat(rng, d, constrained, subst))
    if r < 0.30:
        return ('app', gen_npat(rng, d, constrained, subst), gen_npat(rng, d, constrained, subst))
    if r < 0.40:
        return ('ex', rng.choice(IDS), gen_npat(rng, d, constrained, subst))
    if r < 0.46:
        return ('mu', rng.choice(IDS), gen_npat(rng, d, constrained, subst))
    if r < 0.46 + 0.12 * subst * 2:
        kind = 'esub' if rng.random() < 0.5 else 'ssub'
        head = gen_mv(rng, constrained) if rng.random() < 0.7 else gen_npat_meta_head(rng, d, constrained, subst)
        return (kind, head, rng.choice(IDS), gen_npat(rng, d, constrained, subst))
    # notation node
    if rng.random() < 0.6:
        label, arity, body, _, _ = rng.choice(shipped_notations())
        keys = list(range(arity))
    else:
        body = gen_npat(rng, d, constrained, subst)
        keys = [0, 1, 2]
    if rng.random() < 0.25 and keys:
        keys = rng.sample(keys, rng.randint(0, len(keys)))       # partial application
    rng.shuffle(keys) if rng.random() < 0.2 else None
    return ('inst', body, tuple((k, gen_npat(rng, d, constrained, subst)) for k in keys))


def gen_npat_meta_head(rng, depth, constrained, subst):
    if depth <= 0 or rng.random() < 0.5:
        return gen_mv(rng, constrained)
    kind = 'esub' if rng.random() < 0.5 else 'ssub'
    return (kind, gen_npat_meta_head(rng, depth - 1, constrained, subst), rng.choice(IDS),
            gen_npat(rng, depth - 1, constrained, subst))


def gen_delta(rng, depth, constrained=0.15, subst=0.5):
    keys = rng.sample([0, 1, 2, 3], rng.choice((0, 1, 1, 2, 2, 3)))
    return tuple((k, gen_npat(rng, depth, constrained, subst)) for k in keys)


def delta_to_s(d):
    from . import sx
    return '(' + ' '.join(f'({k} {sx.pat_to_s(v)})' for k, v in d) + ')'
