"""Validation of the Lean reference verifier (lean/Pi2/MM/Verify.lean: `verifyLemma`, `verifyDb`) against the independent
Python verifier vlib/mm.py (`Verifier(strict=True)`).

    python3 -m vlib.validate_verify [--n N] [--seed S]

Corpus: RichDB databases (valid), the slices the REAL slicer cuts out of them, and mutations of both (wrong proof step,
missing $d, reordered $f, undeclared constant, wrong typecode, dropped hypothesis / axiom / float / variable, duplicated
label, …).  For every (database, label) pair the driver command `mmcheck` is compared with

`mm.Verifier(strict=True)` restricted to the proof of `label` (`TargetVerifier`: other proofs are not run, the run
stops after the target), and `mmcheckdb` with `mm.verify(db, strict=True)`.  (mm.py has been repaired in the four places
where it deviated from the Metamath specification, `SPEC_NOTES`; the two verifiers are expected to agree everywhere.)
"""
from __future__ import annotations

import argparse
import collections
import copy
import json
import os
import random
import sys

from . import core, mm, mmgen2, sx

SPEC_NOTES = [
    'labels are unique in the whole database (mm.py used to look at the active labels only)',
    'the $d check of a proof step uses all $d active at the $p, also those on dummy variables (mm.py used to restrict them to the '
    'mandatory variables of the $p and rejected e.g. mm-benchmarks/disjointness-alt-lemma.mm)',
    'the variable of a $f has to be an active variable (mm.py used to accept a declared constant)',
    'normal (uncompressed) proofs are run as well (mm.py used to know compressed proofs only)',
]


def hx(s):
    return 'h' + s.encode('utf-8').hex()


# ---------------------------------------------------------------------------------------------------------
# mm.py statements -> the AST S-expression of the driver (terms are trees; flat fall-back)
# ---------------------------------------------------------------------------------------------------------

def terms_of(toks, mvs):
    """token list -> list of term trees ('mv', n) | ('app', s, [subterms]) with printTerms(result) == toks"""
    def parse(i):
        t = toks[i]
        if t == '(':
            head = toks[i + 1]
            if head in ('(', ')'):
                raise ValueError
            j = i + 2
            subs = []
            while toks[j] != ')':
                s, j = parse(j)
                subs.append(s)
            if not subs:
                raise ValueError
            return ('app', head, subs), j + 1
        if t == ')':
            raise ValueError
        if t in mvs:
            return ('mv', t), i + 1
        return ('app', t, []), i + 1
    try:
        out, i = [], 0
        while i < len(toks):
            s, i = parse(i)
            out.append(s)
        return out
    except (ValueError, IndexError):
        return [('mv', t) if t in mvs else ('app', t, []) for t in toks]


def flat(t):
    if t[0] == 'mv':
        return [t[1]]
    if not t[2]:
        return [t[1]]
    return ['(', t[1]] + [x for a in t[2] for x in flat(a)] + [')']


def term_sx(t):
    if t[0] == 'mv':
        return '(mv %s)' % hx(t[1])
    return '(app %s)' % ' '.join([hx(t[1])] + [term_sx(a) for a in t[2]])


def stmts_sx(stmts, mvs=None):
    mvs = set() if mvs is None else mvs
    out = []
    for s in stmts:
        k = s[0]
        if k in ('c', 'v', 'd'):
            if k == 'v':
                mvs.update(s[1])
            out.append('(%s (%s))' % (k, ' '.join(hx(x) for x in s[1])))
        elif k == 'f':
            out.append('(f %s %s %s)' % (hx(s[1]), hx(s[2]), hx(s[3])))
        elif k in ('e', 'a'):
            ts = terms_of(s[2], mvs)
            assert [x for t in ts for x in flat(t)] == list(s[2])
            out.append('(%s %s (%s))' % (k, hx(s[1]), ' '.join(term_sx(t) for t in ts)))
        elif k == 'p':
            ts = terms_of(s[2], mvs)
            assert [x for t in ts for x in flat(t)] == list(s[2])
            out.append('(p %s (%s) (%s))' % (hx(s[1]), ' '.join(term_sx(t) for t in ts), ' '.join(hx(x) for x in s[3])))
        elif k == 'block':
            out.append('(block %s)' % ' '.join(stmts_sx(s[1], mvs)) if s[1] else '(block)')
        else:
            raise ValueError(k)
    return out


def db_sx(stmts):
    body = stmts_sx(stmts)
    return '(mdb %s)' % ' '.join(body) if body else '(mdb)'


# ---------------------------------------------------------------------------------------------------------
# the Python side
# ---------------------------------------------------------------------------------------------------------

class Done(Exception):
    pass


class TargetVerifier(mm.Verifier):
    """mm.Verifier(strict=True), only the proof of `target` is run; `Done` is raised when it has been verified"""

    def __init__(self, target):
        super().__init__(strict=True)
        self.target = target

    def verify_proof(self, label, assertion, proof):
        if label != self.target:
            return
        super().verify_proof(label, assertion, proof)
        raise Done


class AllVerifier(mm.Verifier):
    def __init__(self, target=None):
        super().__init__(strict=True)


def py_lemma(cls, stmts, label):
    v = cls(label)
    try:
        v.run(stmts)
    except Done:
        return True
    except RecursionError:
        raise
    except Exception:      # VerifyError, or a crash (KeyError / IndexError / AssertionError) = not accepted
        return False
    return False


def py_db(stmts):
    try:
        mm.verify(stmts, strict=True)
        return True
    except RecursionError:
        raise
    except Exception:
        return False


# ---------------------------------------------------------------------------------------------------------
# mutations (on mm.py statement lists)
# ---------------------------------------------------------------------------------------------------------

def paths(stmts, pre=()):
    for i, s in enumerate(stmts):
        yield pre + (i,), s
        if s[0] == 'block':
            yield from paths(s[1], pre + (i,))


def get_list(stmts, path):
    for i in path[:-1]:
        stmts = stmts[i][1]
    return stmts


def pick(rng, stmts, pred):
    c = [(p, s) for p, s in paths(stmts) if pred(s)]
    return rng.choice(c) if c else (None, None)


def mutate(rng, stmts):
    """-> (kind, mutated copy) or None"""
    st = copy.deepcopy(stmts)
    kind = rng.choice(MUTATIONS)
    if kind == 'wrong-step':
        p, s = pick(rng, st, lambda s: s[0] == 'p')
        if p is None:
            return None
        proof = list(s[3])
        letters = list(proof[-1])
        k = rng.randrange(len(letters))
        letters[k] = rng.choice('ABCDEFGHIJZ')
        if rng.random() < 0.2:
            del letters[k]
        proof[-1] = ''.join(letters)
        get_list(st, p)[p[-1]] = ('p', s[1], s[2], proof)
    elif kind == 'wrong-label':
        p, s = pick(rng, st, lambda s: s[0] == 'p' and len(s[3]) > 3)
        if p is None:
            return None
        proof = list(s[3])
        k = rng.randrange(1, len(proof) - 2)
        labs = [x[1] for _, x in paths(st) if x[0] in ('a', 'f', 'e', 'p')]
        proof[k] = rng.choice(labs + ['nope'])
        get_list(st, p)[p[-1]] = ('p', s[1], s[2], proof)
    elif kind == 'missing-d':
        p, s = pick(rng, st, lambda s: s[0] == 'd')
        if p is None:
            return None
        if len(s[1]) > 2 and rng.random() < 0.5:
            get_list(st, p)[p[-1]] = ('d', s[1][:-1])
        else:
            del get_list(st, p)[p[-1]]
    elif kind == 'extra-d':
        vs = [x for _, s in paths(st) if s[0] == 'v' for x in s[1]]
        fl = [i for i, s in enumerate(st) if s[0] == 'f']
        if len(vs) < 2 or not fl:
            return None
        st.insert(rng.choice(fl) + 1, ('d', rng.sample(vs, 2)))
    elif kind == 'reorder-f':
        fl = [i for i, s in enumerate(st) if s[0] == 'f']
        if len(fl) < 2:
            return None
        i, j = rng.sample(fl, 2)
        st[i], st[j] = st[j], st[i]
    elif kind == 'undeclared-const':
        p, s = pick(rng, st, lambda s: s[0] == 'c' and len(s[1]) > 1)
        if p is None:
            return None
        cs = list(s[1])
        del cs[rng.randrange(len(cs))]
        get_list(st, p)[p[-1]] = ('c', cs)
    elif kind == 'undeclared-var':
        p, s = pick(rng, st, lambda s: s[0] == 'v' and len(s[1]) > 1)
        if p is None:
            return None
        vs = list(s[1])
        del vs[rng.randrange(len(vs))]
        get_list(st, p)[p[-1]] = ('v', vs)
    elif kind == 'wrong-typecode-f':
        p, s = pick(rng, st, lambda s: s[0] == 'f')
        if p is None:
            return None
        cs = [x for _, q in paths(st) if q[0] == 'c' for x in q[1]]
        get_list(st, p)[p[-1]] = ('f', s[1], rng.choice(['|-', 'setvar', '#ElementVariable', '#Pattern', 'zz'] + cs[:3]), s[3])
    elif kind == 'wrong-typecode-stmt':
        p, s = pick(rng, st, lambda s: s[0] in ('a', 'e', 'p'))
        if p is None:
            return None
        body = [rng.choice(['|-', '#Pattern', '#Notation', 'zz'])] + list(s[2][1:])
        get_list(st, p)[p[-1]] = (s[0], s[1], body) + tuple(s[3:])
    elif kind == 'change-stmt':
        p, s = pick(rng, st, lambda s: s[0] in ('a', 'e', 'p') and len(s[2]) > 2)
        if p is None:
            return None
        body = list(s[2])
        k = rng.randrange(1, len(body))
        pool = [x for x in body if x not in ('(', ')')] + ['ph0', 'ph1', 'x', 'zz']
        if body[k] in ('(', ')'):
            return None
        body[k] = rng.choice(pool)
        get_list(st, p)[p[-1]] = (s[0], s[1], body) + tuple(s[3:])
    elif kind == 'drop-stmt':
        p, s = pick(rng, st, lambda s: s[0] in ('a', 'e', 'f'))
        if p is None:
            return None
        del get_list(st, p)[p[-1]]
    elif kind == 'dup-label':
        p, s = pick(rng, st, lambda s: s[0] in ('a', 'e', 'f', 'p'))
        q, t = pick(rng, st, lambda s: s[0] in ('a', 'e', 'f', 'p'))
        if p is None or p == q:
            return None
        get_list(st, p)[p[-1]] = (s[0], t[1]) + tuple(s[2:])
    elif kind == 'move-stmt':
        if len(st) < 3:
            return None
        i = rng.randrange(len(st))
        s = st.pop(i)
        st.insert(rng.randrange(len(st) + 1), s)
    elif kind == 'unblock':
        p, s = pick(rng, st, lambda s: s[0] == 'block')
        if p is None:
            return None
        lst = get_list(st, p)
        lst[p[-1]:p[-1] + 1] = s[1]
    elif kind == 'float-on-const':
        p, s = pick(rng, st, lambda s: s[0] == 'f')
        cs = [x for _, q in paths(st) if q[0] == 'c' for x in q[1]]
        if p is None or not cs:
            return None
        get_list(st, p)[p[-1]] = ('f', s[1], s[2], rng.choice(cs))
    else:
        raise ValueError(kind)
    return kind, st


MUTATIONS = ['wrong-step', 'wrong-step', 'wrong-label', 'missing-d', 'missing-d', 'extra-d', 'reorder-f', 'reorder-f',
             'undeclared-const', 'undeclared-var', 'wrong-typecode-f', 'wrong-typecode-stmt', 'change-stmt', 'drop-stmt',
             'dup-label', 'move-stmt', 'unblock', 'float-on-const']


def p_labels(stmts):
    return [s[1] for _, s in paths(stmts) if s[0] == 'p']


# hand-written databases: the places where mm.py and the specification differ, normal proofs, odd compressed proofs
HAND = [
    ('label-reuse-after-block', '''$c |- ( ) foo #Pattern $. $v x $. x-f $f #Pattern x $.
        ${ h $e |- x $. a1 $a |- ( foo x x ) $. $}
        ${ h $e |- x $. t $p |- ( foo x x ) $= ( a1 ) ABC $. $}''', ['t']),
    ('dummy-variable-dv', '''$c |- ( ) foo bar #Pattern $. $v x y $. x-f $f #Pattern x $. y-f $f #Pattern y $.
        ${ $d x y $. a1 $a |- ( foo x y ) $. $}
        ${ $d x y $. a3.h $e |- ( foo x y ) $. a3 $a |- ( bar x ) $. $}
        ${ $d x y $. w $p |- ( bar x ) $= ( y-f a1 a3 ) ABABCD $. $}
        ${ w2 $p |- ( bar x ) $= ( y-f a1 a3 ) ABABCD $. $}''', ['w', 'w2']),
    ('float-on-constant', '''$c |- foo #Pattern $. $v x $. x-f $f #Pattern x $. c-f $f #Pattern foo $.
        a1 $a |- x $.  t $p |- x $= ( a1 ) AB $.''', ['t']),
    ('normal-proof', '''$c |- ( ) foo #Pattern $. $v x y $. x-f $f #Pattern x $. y-f $f #Pattern y $.
        a1 $a |- ( foo x y ) $.
        t $p |- ( foo y y ) $= y-f y-f a1 $.
        u $p |- ( foo y y ) $= y-f a1 $.
        w $p |- ( foo y y ) $= y-f x-f a1 $.
        z $p |- ( foo y y ) $= $.''', ['t', 'u', 'w', 'z']),
    ('compressed-odd', '''$c |- ( ) foo #Pattern $. $v x y $. x-f $f #Pattern x $. y-f $f #Pattern y $.
        a1 $a |- ( foo x y ) $.
        t1 $p |- ( foo y y ) $= ( a1 ) AAB $.
        t2 $p |- ( foo y y ) $= ( a1 ) AZCB $.
        t3 $p |- ( foo y y ) $= ( a1 ) AZDB $.
        t4 $p |- ( foo y y ) $= ( a1 ) ZAAB $.
        t5 $p |- ( foo y y ) $= ( a1 ) AABU $.
        t6 $p |- ( foo y y ) $= ( a1 ) AAb $.
        t7 $p |- ( foo y y ) $= ( a1 AAB $.
        t8 $p |- ( foo y y ) $= ( a1 ) A A B $.
        t9 $p |- ( foo y y ) $= ( a1 ) AABB $.
        t10 $p |- ( foo y y ) $= ( a1 x-f ) AAB $.
        t11 $p |- ( foo y y ) $= ( t11 ) AAB $.
        t12 $p |- ( foo y y ) $= ( t13 ) AAB $.
        t13 $p |- ( foo y y ) $= ( a1 ) UA $.''', ['t%d' % i for i in range(1, 14)]),
    ('top-level-d-after-axiom (the slicer finding)', '''$c |- ( ) foo #Pattern $. $v x y z $.
        x-f $f #Pattern x $. y-f $f #Pattern y $. z-f $f #Pattern z $.
        ax1 $a |- ( foo x y ) $.
        $d x y $.
        th $p |- ( foo z z ) $= ( ax1 ) AAB $.''', ['th']),
    ('its slice before the repair of the slicer', '''$c #ElementVariable #Pattern #SetVariable #Symbol #Variable ( ) foo |- $. $v x y z $. $d x y $.
        x-f $f #Pattern x $. y-f $f #Pattern y $. z-f $f #Pattern z $.
        ax1 $a |- ( foo x y ) $.
        ${ th $p |- ( foo z z ) $= ( ax1 ) AAB $. $}''', ['th']),
    ('its slice after the repair', '''$c #ElementVariable #Pattern #SetVariable #Symbol #Variable ( ) foo |- $. $v x y z $.
        x-f $f #Pattern x $. y-f $f #Pattern y $. z-f $f #Pattern z $.
        ax1 $a |- ( foo x y ) $. $d x y $.
        ${ th $p |- ( foo z z ) $= ( ax1 ) AAB $. $}''', ['th']),
    ('top-level $e', '''$c |- ( ) foo #Pattern $. $v x $. x-f $f #Pattern x $. h $e |- ( foo x x ) $.
        th $p |- ( foo x x ) $= ( ) B $.''', ['th']),
    ('top-level $e: slice before the repair', '''$c #ElementVariable #Pattern #SetVariable #Symbol #Variable ( ) foo |- $. $v x $. x-f $f #Pattern x $.
        ${ th $p |- ( foo x x ) $= ( ) B $. $}''', ['th']),
    ('top-level $e: slice after the repair', '''$c #ElementVariable #Pattern #SetVariable #Symbol #Variable ( ) foo |- $. $v x $. x-f $f #Pattern x $.
        h $e |- ( foo x x ) $.  ${ th $p |- ( foo x x ) $= ( ) B $. $}''', ['th']),
]


def theorem_crosscheck(db_cases):
    """every database (valid or mutated) the real parser and the real slicer accept: hypotheses and conclusion of
    C17.slice_verifies evaluated by the driver (`mmwf`, `mmcheck`) on the real slicer's output"""
    out = collections.Counter()
    srcs = [mm.print_db(st) for _, _, st, _ in db_cases]
    res = core.py_h(['mmslices %s (%s)' % (src.encode().hex(), ' '.join(hx(l) for l in labels))
                     for src, (_, _, _, labels) in zip(srcs, db_cases)])
    lines, meta = [], []
    for ci, ((origin, kind, st, labels), a) in enumerate(zip(db_cases, res)):
        if not a.startswith('(ok'):
            out['slicer-or-parser-raises'] += 1
            continue
        x = sx.parse(a)[0]
        d = db_sx(st)
        lines.append('mmwf ' + d); meta.append((ci, 'wf', None))
        for s in x[3][1:]:
            label = bytes.fromhex(s[0][1:]).decode()
            lines.append('mmcheck %s %s' % (d, s[0])); meta.append((ci, 'db', label))
            lines.append('mmcheck %s %s' % (_sx_str(s[1]), s[0])); meta.append((ci, 'sl', label))
    ans = core.lean_drv(lines)
    wf, dbv, slv = {}, {}, {}
    for (ci, what, label), a in zip(meta, ans):
        assert a in ('true', 'false'), a
        if what == 'wf':
            wf[ci] = a == 'true'
        elif what == 'db':
            dbv[(ci, label)] = a == 'true'
        else:
            slv[(ci, label)] = a == 'true'
    bad = []
    for (ci, label), v in dbv.items():
        kind = db_cases[ci][1]
        out['(db, lemma) pairs sliced'] += 1
        if kind == 'valid':
            out['valid databases: WellFormedDb holds' if wf[ci] else 'valid databases: WellFormedDb FAILS'] += 1
        if wf[ci] and v:
            out['hypotheses hold'] += 1
            if slv[(ci, label)]:
                out['hypotheses hold and the slice verifies'] += 1
            else:
                out['THEOREM CONTRADICTED'] += 1
                bad.append((kind, label, mm.print_db(db_cases[ci][2])[-2500:]))
        elif v and not slv[(ci, label)]:
            out['not well-formed, lemma verifies, slice does NOT verify (kind: %s)' % kind] += 1
        elif v:
            out['not well-formed, lemma verifies, slice verifies'] += 1
        else:
            out['lemma does not verify in the database'] += 1
    for b in bad[:5]:
        print('THEOREM CONTRADICTED:', b)
    return dict(out)


def _sx_str(x):
    return '(' + ' '.join(_sx_str(y) for y in x) + ')' if isinstance(x, (list, tuple)) else str(x)


def main(argv=None):
    ap = argparse.ArgumentParser()
    ap.add_argument('--n', type=int, default=400, help='number of generated databases')
    ap.add_argument('--seed', type=int, default=1)
    ap.add_argument('--mut', type=int, default=6, help='mutations per database / slice group')
    args = ap.parse_args(argv)
    rng = random.Random(args.seed)

    cases = []      # (origin, kind, stmts, [labels])
    srcs = []
    for _ in range(args.n):
        db = mmgen2.RichDB(rng, n_lemmas=rng.randint(1, 4))
        st = db.statements()
        src = mmgen2.render(rng, st)
        srcs.append((db, st, src))
        cases.append(('db', 'valid', st, list(db.lemmas)))
        for _ in range(args.mut):
            m = mutate(rng, st)
            if m:
                cases.append(('db', m[0], m[1], p_labels(m[1])))
    # the slices of the REAL slicer
    sl = core.py_h(['mmslices %s (%s)' % (src.encode().hex(), ' '.join(hx(l) for l in db.lemmas)) for db, _, src in srcs])
    n_slices = 0
    for (db, st, src), a in zip(srcs, sl):
        if not a.startswith('(ok'):
            print('slicer failed on a generated database:', a[:200])
            continue
        x = sx.parse(a)[0]
        for s in x[3][1:]:
            label = bytes.fromhex(s[0][1:]).decode()
            text = bytes.fromhex(s[2][1:]).decode()
            sst = mm.parse(text)
            n_slices += 1
            cases.append(('slice', 'valid', sst, [label]))
            if rng.random() < 0.6:
                for _ in range(2):
                    m = mutate(rng, sst)
                    if m:
                        cases.append(('slice', m[0], m[1], p_labels(m[1])))
    for name, src, labels in HAND:
        cases.append(('hand', name, mm.parse(src), labels))
    # the databases shipped with the repository (slices of real proofs; long compressed proofs, dummy variables)
    import glob
    for f in sorted(glob.glob(os.path.join(core.REPO, 'generation', 'mm-benchmarks', '*.mm'))):
        try:
            st = mm.parse(open(f).read())
        except Exception:   # noqa
            continue
        if not st:
            continue
        cases.append(('real', os.path.basename(f), st, p_labels(st)))
        for _ in range(3):
            m = mutate(rng, st)
            if m:
                cases.append(('real-mutated', m[0], m[1], p_labels(m[1])))

    # ---- run both sides
    lines, meta = [], []
    for ci, (origin, kind, st, labels) in enumerate(cases):
        d = db_sx(st)
        lines.append('mmcheckdb ' + d)
        meta.append((ci, None))
        for l in labels:
            lines.append('mmcheck %s %s' % (d, hx(l)))
            meta.append((ci, l))
    answers = core.lean_drv(lines)
    assert len(answers) == len(lines)
    stats = collections.Counter()
    by_kind = collections.defaultdict(collections.Counter)
    disagreements, hand_rows = [], []
    for (ci, l), a in zip(meta, answers):
        origin, kind, st, _ = cases[ci]
        if a not in ('true', 'false'):
            print('driver answered', a[:100]); return 2
        lean = a == 'true'
        if l is None:
            py = py_db(st)
            what = 'db'
        else:
            py = py_lemma(TargetVerifier, st, l)
            what = 'lemma'
        stats[f'{what}:pairs'] += 1
        stats[f'{what}:lean-accepts'] += lean
        stats[f'{what}:lean-rejects'] += (not lean)
        stats[f'{what}:agree-with-mm.py'] += (lean == py)
        by_kind[f'{origin}/{kind}' if origin not in ('hand', 'real') else origin][('acc' if lean else 'rej')] += 1
        if origin in ('hand', 'real'):
            hand_rows.append((kind, l, lean, py))
        if lean != py:
            disagreements.append({'origin': origin, 'kind': kind, 'label': l, 'lean': lean, 'mm.py': py,
                                  'db': mm.print_db(st)[-3000:]})
    # ---- the theorem C17.slice_verifies against the REAL slicer: WellFormedDb(db) & verifyLemma(db, l)  ==>  verifyLemma(slice_l, l)
    thm = theorem_crosscheck([c for c in cases if c[0] == 'db'])
    print(json.dumps({'databases': args.n, 'real_slices': n_slices, 'cases': len(cases), 'stats': dict(stats),
                      'slice_verifies_crosscheck': thm}, indent=1))
    print('per corpus (lean accepts / rejects):')
    for k in sorted(by_kind):
        print('   %-32s acc %5d   rej %5d' % (k, by_kind[k]['acc'], by_kind[k]['rej']))
    print('hand-written cases and the databases of /repo/generation/mm-benchmarks (label None = whole database): lean / mm.py')
    for r in hand_rows:
        print('   %-48s %-24s %-5s %-5s' % r)
    print('mm.py follows the Metamath specification in these places (repaired):')
    for n in SPEC_NOTES:
        print('   *', n)
    print('DISAGREEMENTS between the Lean verifier and mm.py: %d' % len(disagreements))
    for d in disagreements[:10]:
        print(json.dumps(d, indent=1))
    return 1 if disagreements else 0


if __name__ == '__main__':
    sys.exit(main())
