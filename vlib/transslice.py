"""Translator: the Metamath slicer (generation/src/proof_generation/metamath/metamath_extract_slice.py, Python `ast`) -> the Lean
functions of `Pi2/Gen/Slicer.lean` (namespace `Gen.Slicer`), statement by statement, regenerated on every run.
`Pi2/MM/SliceTie.lean` proves them equal to the hand-written model `Pi2/MM/Slice.lean`.

Translated functions (in source order): `get_constants`, `statements_get_constants`, `deconstruct_compressed_proof`,
`supporting_database_for_provable` (with its closure `corresponding_sugar_axiom`), `match_axiom`, `deconstruct_provable`,
`construct_axiom`, `slice_database`.  Target language: the primitives of `Pi2/SliceSupport.lean`.

Conventions (see also the header of `Pi2/SliceSupport.lean`)
  * a function in which something can raise (assert, raise, `d[k]`, `xs[-1]`, `x, *xs = xs`, a call of such a function, a `while`
    loop) returns `Option _` (`none` = raises) and is written in `do` notation; the others are pure.
  * `for x in xs: BODY` -> `xs.foldl` / `xs.foldlM` over the variables BODY assigns to (those that exist before the loop);
    `continue` = the end of BODY.  `while c: BODY; REST` -> a separate function `<f>_while<k>` (the k-th loop of f) recursive on a `fuel` argument
    (every function that reaches a `while` loop takes `fuel`); a variable first bound in BODY and read in REST is an `Option`
    (`none` = unbound: reading it raises `UnboundLocalError`).
  * `if` chains are translated in SOURCE ORDER to `if .. then .. else if ..`; `elif x := f(..):` with `f` returning `T | None` to a
    `match`; an `if` that is followed by further statements is either `if c: <return/raise/continue>` (-> `if c then .. else REST`) or is
    joined over the variables its branches assign.
  * a generator (`yield e`) returns the list of the yielded values (`list(f(..))`), in the variable `yielded`.
  * sets / frozensets / tuples / lists are `List`s.  ORDER is observable only through `sorted(..)` (-> `sortedSet`), through the
    insertion order of `cut_antecedents` (`dictSet`) and through lists; a `for` loop over a set is accepted only if its body does
    nothing but accumulate into sets (so its result, as a set, does not depend on the iteration order), `sorted` only of a set of `str`.
  * type annotations of parameters are trusted (attributes are only translated where the class of the object is known from the
    annotation or an enclosing / preceding `isinstance`); objects mutated in place (`.append/.add/.update`, `+=` on a list, `d[k] = v`)
    must be locals initialised by a fresh container and never aliased.
  * `deconstruct_compressed_proof` searches the proof STRING; the model has the proof TOKENS.  `proof.find(c[, start])`,
    `proof[a:b].split()`, `proof[a:]` become `posFind / posSlice / posSliceFrom`, under the ASSUMPTION that `(` and `)` occur in a proof
    only as tokens of their own (positions: see `Pi2/SliceSupport.lean`).
Everything that is not recognised is reported as a problem and makes the generated file define `translated := false`."""
from __future__ import annotations

import ast
import os

from . import core

FUNCS = ['get_constants', 'statements_get_constants', 'deconstruct_compressed_proof', 'supporting_database_for_provable',
         'match_axiom', 'deconstruct_provable', 'construct_axiom', 'slice_database']
# glue around the slicer that is not translated (a function that appears or disappears is a problem)
OTHER = ['dependency_graph', 'is_structured_statement', 'syntax_dependencies', 'transitive_closure', 'main']

KEYWORDS = {'include', 'from', 'at', 'end', 'in', 'fun', 'match', 'do', 'then', 'else', 'have', 'show', 'open', 'variable',
            'omit', 'by', 'let', 'if', 'with', 'where', 'instance', 'class', 'structure', 'theorem', 'def', 'section',
            'namespace', 'import', 'export', 'prefix', 'infix', 'notation', 'macro', 'syntax', 'universe', 'mutual', 'local',
            'private', 'protected', 'partial', 'unsafe', 'axiom', 'example', 'abbrev', 'inductive', 'deriving', 'set_option',
            'attribute', 'return', 'for', 'unless', 'try', 'catch', 'finally', 'break', 'continue', 'nomatch', 'nofun', 'type',
            'Type', 'Prop', 'Sort', 'suffices', 'calc', 'using', 'extends', 'mut', 'this'}

# ---------------------------------------------------------------------------------------------- classes of metamath/ast.py
LEAF = ['Constant', 'Variable', 'Disjoint', 'Floating', 'Essential', 'Axiomatic', 'Provable', 'Block']
ALL = frozenset(LEAF)
CLASSES = {
    'ConstantStatement': {'Constant'}, 'VariableStatement': {'Variable'}, 'DisjointStatement': {'Disjoint'},
    'FloatingStatement': {'Floating'}, 'EssentialStatement': {'Essential'}, 'AxiomaticStatement': {'Axiomatic'},
    'ProvableStatement': {'Provable'}, 'Block': {'Block'},
    'StructuredStatement': {'Floating', 'Essential', 'Axiomatic', 'Provable'},
    'ConclusionStatement': {'Axiomatic', 'Provable'}, 'Statement': set(LEAF),
}
# the Lean test of a class (order of the leaves inside a disjunction = order written in the source)
ISA = {'ConstantStatement': 'isConstant', 'VariableStatement': 'isVariable', 'DisjointStatement': 'isDisjoint',
       'FloatingStatement': 'isFloating', 'EssentialStatement': 'isEssential', 'AxiomaticStatement': 'isAxiomatic',
       'ProvableStatement': 'isProvable', 'Block': 'isBlock', 'StructuredStatement': 'isStructured',
       'ConclusionStatement': 'isConclusion'}
TERM_CLASSES = {'Application': 'isApplication', 'Metavariable': 'isMetavariable'}
STRUCTURED = CLASSES['StructuredStatement']
# attribute -> (classes that have it, type)
STMT_ATTRS = {
    'label': (STRUCTURED, 'str'), 'terms': (STRUCTURED, ('list', 'term')),
    'typecode': ({'Floating'}, 'str'), 'metavariable': ({'Floating'}, 'str'),
    'metavariables': ({'Disjoint', 'Variable'}, ('list', 'mvobj')),
    'statements': ({'Block'}, ('list', ('stmt', ALL))), 'proof': ({'Provable'}, 'proof'),
}
TERM_ATTRS = {'symbol': ({'Application'}, 'str'), 'subterms': ({'Application'}, ('list', 'term')), 'name': ({'Metavariable'}, 'str')}


def stmt_ty(cls=ALL):
    return ('stmt', frozenset(cls))


def is_stmt(t):
    return isinstance(t, tuple) and t[0] == 'stmt'


def is_term(t):
    return t == 'term' or (isinstance(t, tuple) and t[0] == 'term')


SEQ = ('list', 'set', 'fset')


def is_seq(t):
    return isinstance(t, tuple) and t[0] in SEQ


def same_base(a, b):
    if is_stmt(a) and is_stmt(b):
        return True
    if is_term(a) and is_term(b):
        return True
    if is_seq(a) and is_seq(b):
        return a[1] is None or b[1] is None or same_base(a[1], b[1])
    return a == b


def join_ty(a, b):
    if a is None:
        return b
    if b is None:
        return a
    if is_stmt(a) and is_stmt(b):
        return stmt_ty(a[1] | b[1])
    if is_seq(a) and is_seq(b):
        return (a[0], join_ty(a[1], b[1]))
    return a


def lean_ty(t):
    if t == 'str':
        return 'String'
    if t == 'mvobj':
        return 'String'
    if t == 'nat':
        return 'Nat'
    if t == 'int':
        return 'Int'
    if t == 'bool':
        return 'Bool'
    if t == 'proof':
        return 'List String'
    if t == 'db':
        return 'MDb'
    if t == 'unit':
        return 'Unit'
    if is_stmt(t):
        return 'MStmt'
    if is_term(t):
        return 'MTerm'
    if is_seq(t):
        if t[1] is None:
            raise TrErr('element type of an empty container is unknown')
        return f'List {paren_ty(lean_ty(t[1]))}'
    if isinstance(t, tuple) and t[0] == 'opt':
        return f'Option {paren_ty(lean_ty(t[1]))}'
    if isinstance(t, tuple) and t[0] == 'pair':
        return f'{paren_ty(lean_ty(t[1]))} × {paren_ty(lean_ty(t[2]))}'
    if isinstance(t, tuple) and t[0] == 'dict':
        return f'PyDict {paren_ty(lean_ty(t[1]))}'
    raise TrErr(f'type {t}')


def paren_ty(s):
    return f'({s})' if ' ' in s else s


# annotations (exact text) -> type
_D_OR_E = stmt_ty({'Disjoint', 'Essential'})
ANN = {
    'Terms': ('list', 'term'),
    'set[str]': ('set', 'str'),
    'Iterable[Statement]': ('list', stmt_ty()),
    'ProvableStatement': stmt_ty({'Provable'}),
    'tuple[tuple[str, ...], str]': ('pair', ('list', 'str'), 'proof'),
    'dict[str, FloatingStatement | EssentialStatement | AxiomaticStatement | Block | DisjointStatement]':
        ('dict', stmt_ty({'Floating', 'Essential', 'Axiomatic', 'Block', 'Disjoint'})),
    'dict[str, tuple[str, ...]]': ('dict', ('list', 'str')),
    'tuple[DisjointStatement | EssentialStatement, ...]': ('list', _D_OR_E),
    'Database': 'db',
    'str': 'str',
    'str | None': ('opt', 'str'),
    'list[Statement]': ('list', stmt_ty()),
    'Statement': stmt_ty(),
    'AxiomaticStatement | None': ('opt', stmt_ty({'Axiomatic'})),
    'ProvableStatement | Block': stmt_ty({'Provable', 'Block'}),
    'tuple[tuple[DisjointStatement | EssentialStatement, ...], ProvableStatement]':
        ('pair', ('list', _D_OR_E), stmt_ty({'Provable'})),
    'AxiomaticStatement | Block': stmt_ty({'Axiomatic', 'Block'}),
    'Iterator[tuple[str, Database]]': ('gen', ('pair', 'str', 'db')),
}


class TrErr(Exception):
    pass


def lname(n):
    return f'«{n}»' if n in KEYWORDS else n


def lean_str(s):
    out = []
    for ch in s:
        if ch == '\\':
            out.append('\\\\')
        elif ch == '"':
            out.append('\\"')
        elif ch == '\n':
            out.append('\\n')
        elif ch == '\t':
            out.append('\\t')
        elif ord(ch) < 32:
            raise TrErr(f'control character in a string literal {s!r}')
        else:
            out.append(ch)
    return '"' + ''.join(out) + '"'


def first_line(node):
    return ast.unparse(node).splitlines()[0][:150]


def ann_of(node, what):
    if node is None:
        raise TrErr(f'missing type annotation of {what}')
    u = ast.unparse(node)
    if isinstance(node, ast.Constant) and isinstance(node.value, str):
        u = node.value
    if u not in ANN:
        raise TrErr(f'type annotation `{u}` of {what}')
    return ANN[u]


# ---------------------------------------------------------------------------------------------- static facts about a function
MUTATORS = {'append', 'add', 'update', 'extend'}


def assigned_names(stmts):
    """names (re)bound or mutated in place by the statements (not descending into nested function definitions);
    a `yield` assigns the implicit variable `yielded`"""
    out = []

    def add(n):
        if n not in out:
            out.append(n)

    def target(t):
        if isinstance(t, ast.Name):
            add(t.id)
        elif isinstance(t, (ast.Tuple, ast.List)):
            for x in t.elts:
                target(x)
        elif isinstance(t, ast.Starred):
            target(t.value)
        elif isinstance(t, ast.Subscript) and isinstance(t.value, ast.Name):
            add(t.value.id)

    def visit(n):
        if isinstance(n, (ast.FunctionDef, ast.Lambda)):
            return
        if isinstance(n, ast.Assign):
            for t in n.targets:
                target(t)
        elif isinstance(n, (ast.AugAssign, ast.AnnAssign)):
            target(n.target)
        elif isinstance(n, ast.For):
            target(n.target)
        elif isinstance(n, ast.NamedExpr):
            target(n.target)
        elif isinstance(n, (ast.Yield, ast.YieldFrom)):
            add('yielded')
        elif isinstance(n, ast.Call) and isinstance(n.func, ast.Attribute) and n.func.attr in MUTATORS \
                and isinstance(n.func.value, ast.Name):
            add(n.func.value.id)
        for c in ast.iter_child_nodes(n):
            visit(c)

    for s in stmts:
        visit(s)
    return out


def loads(nodes):
    out = set()
    for n in nodes:
        for x in ast.walk(n):
            if isinstance(x, ast.Name) and isinstance(x.ctx, ast.Load):
                out.add(x.id)
    return out


def terminal(stmts):
    """the statement list never falls through its end"""
    if not stmts:
        return False
    s = stmts[-1]
    if isinstance(s, (ast.Return, ast.Raise, ast.Continue)):
        return True
    if isinstance(s, ast.If):
        return bool(s.orelse) and terminal(s.body) and terminal(s.orelse)
    return False


def contains(stmts, kinds):
    for s in stmts:
        for x in ast.walk(s):
            if isinstance(x, kinds):
                return True
    return False


def walk_code(node):
    """ast.walk without type annotations"""
    todo = [node]
    while todo:
        n = todo.pop()
        yield n
        for name, val in ast.iter_fields(n):
            if name in ('annotation', 'returns'):
                continue
            if isinstance(val, ast.AST):
                todo.append(val)
            elif isinstance(val, list):
                todo.extend(v for v in val if isinstance(v, ast.AST))


def calls_of(node):
    out = set()
    for x in ast.walk(node):
        if isinstance(x, ast.Call) and isinstance(x.func, ast.Name):
            out.add(x.func.id)
    return out


class FInfo:
    """signature of a translated function"""

    def __init__(self, fn, outer=None):
        self.fn = fn
        self.name = fn.name
        self.params = []
        self.ret = None
        self.eff = False      # returns Option
        self.fuel = False     # takes fuel
        self.gen = False
        self.outer = outer
        self.problems = []


# ---------------------------------------------------------------------------------------------- the translator of one function
class Fn:
    def __init__(self, mod, info):
        self.mod = mod
        self.info = info
        self.fn = info.fn
        self.env = {}           # python name -> ('def', type) | ('maybe', type)
        self.problems = []
        self.aux = []           # definitions to emit before this one (while loops)
        self.rec = info.name in calls_of(info.fn)
        self.pynames = {x.id for x in ast.walk(info.fn) if isinstance(x, ast.Name)} | {a.arg for a in info.fn.args.args}
        self.no_lift = 0
        self.used_lift = False
        self.loop_tails = []
        self.locals_fn = {}     # nested closures: name -> FInfo
        self.mode = 'pure'
        self.in_for = False
        self.mutated = set()
        self.fresh = True
        self.pending, self.resolved, self.counter = {}, {}, 0

    # ------------------------------------------------------------------ environment
    def ty(self, name):
        if name not in self.env:
            raise TrErr(f'unknown name {name}')
        k, t = self.env[name]
        if k == 'maybe':
            raise TrErr(f'{name} may be unbound here')
        return t

    def bind(self, name, t):
        if name in ('fuel', 'yielded') and not (name == 'yielded' and self.info.gen and 'yielded' not in self.pynames):
            raise TrErr(f'the Python name {name} clashes with a name the translation introduces')
        self.env[name] = ('def', t)

    def narrowed(self, facts):
        """a copy of env with the isinstance facts [(name, classes)] applied"""
        env = dict(self.env)
        for name, cls in facts:
            if name in env and env[name][0] == 'def':
                t = env[name][1]
                if is_stmt(t):
                    env[name] = ('def', stmt_ty(t[1] & cls))
                elif is_term(t):
                    env[name] = ('def', ('term', frozenset(cls)))
        return env

    # ------------------------------------------------------------------ expressions
    def lift(self, text):
        """`text : Option T` used as a `T`"""
        if self.no_lift:
            raise TrErr('an operation that can raise inside a lambda / conditional expression: ' + text[:60])
        if not self.info.eff:
            raise TrErr('an operation that can raise in a function classified as pure: ' + text[:60])
        self.used_lift = True
        return f'(← {text})'

    def isinstance_test(self, e):
        """isinstance(x, C) / isinstance(x, (C1, C2)) -> (lean, facts)"""
        if not (isinstance(e, ast.Call) and isinstance(e.func, ast.Name) and e.func.id == 'isinstance' and len(e.args) == 2
                and not e.keywords):
            return None
        obj, cl = e.args
        names = [c for c in cl.elts] if isinstance(cl, ast.Tuple) else [cl]
        if not names or not all(isinstance(c, ast.Name) for c in names):
            raise TrErr('isinstance classes ' + ast.unparse(cl))
        o, t = self.expr(obj)
        tests, cls = [], set()
        for c in names:
            if is_stmt(t) and c.id in ISA:
                tests.append(f'{ISA[c.id]} {atom(o)}')
                cls |= CLASSES[c.id]
            elif is_term(t) and c.id in TERM_CLASSES:
                tests.append(f'{TERM_CLASSES[c.id]} {atom(o)}')
                cls.add(c.id)
            else:
                raise TrErr(f'isinstance({ast.unparse(obj)}, {c.id}) on a value of type {t}')
        facts = [(obj.id, frozenset(cls))] if isinstance(obj, ast.Name) else []
        text = tests[0] if len(tests) == 1 else '(' + ' || '.join(tests) + ')'
        return text, facts

    def cond(self, e):
        """truth value of e -> (lean Bool expression, facts that hold when it is true)"""
        it = self.isinstance_test(e)
        if it:
            return it
        if isinstance(e, ast.UnaryOp) and isinstance(e.op, ast.Not):
            c, _ = self.cond(e.operand)
            return f'!{atom(c)}', []
        if isinstance(e, ast.BoolOp):
            isand = isinstance(e.op, ast.And)
            parts, facts = [], []
            saved = self.env
            try:
                for i, x in enumerate(e.values):
                    if i:
                        self.no_lift += 1
                    try:
                        c, f = self.cond(x)
                    finally:
                        if i:
                            self.no_lift -= 1
                    parts.append(atom(c))
                    if isand:
                        facts += f
                        self.env = self.narrowed(facts)
            finally:
                self.env = saved
            return '(' + (' && ' if isand else ' || ').join(parts) + ')', (facts if isand else [])
        if isinstance(e, ast.Compare):
            return self.compare(e), []
        if isinstance(e, ast.Constant) and isinstance(e.value, str):
            return f'strTruthy {lean_str(e.value)}', []
        x, t = self.expr(e)
        if t == 'bool':
            return x, []
        if is_seq(t) or t == 'proof':
            return f'!{atom(x)}.isEmpty', []
        if isinstance(t, tuple) and t[0] == 'opt' and (is_stmt(t[1])):
            # an AST object is always true (a dataclass without __bool__ / __len__): only None is false
            return f'{atom(x)}.isSome', []
        if t == 'str':
            return f'strTruthy {atom(x)}', []
        raise TrErr(f'truth value of {ast.unparse(e)} : {t}')

    def compare(self, e):
        ops = e.ops
        operands = [e.left] + list(e.comparators)
        if len(ops) == 1 and isinstance(ops[0], (ast.In, ast.NotIn)):
            x, tx = self.expr(operands[0])
            c, tc = self.container(operands[1])
            if tx not in ('str', 'mvobj'):
                raise TrErr(f'membership test of a {tx}')
            r = f'{atom(c)}.contains {atom(x)}'
            return r if isinstance(ops[0], ast.In) else f'!({r})'
        sym = {ast.Lt: '<', ast.LtE: '≤', ast.Gt: '>', ast.GtE: '≥', ast.Eq: '=', ast.NotEq: '≠'}
        vals = [self.expr(x) for x in operands]
        nums = {t for _, t in vals}
        if not nums <= {'nat', 'int'}:
            raise TrErr('comparison ' + ast.unparse(e))
        toint = 'int' in nums
        parts = []
        for i, op in enumerate(ops):
            if type(op) not in sym:
                raise TrErr('comparison operator in ' + ast.unparse(e))
            a, b = vals[i], vals[i + 1]
            fa = f'({a[0]} : Int)' if toint and a[1] == 'nat' else atom(a[0])
            fb = f'({b[0]} : Int)' if toint and b[1] == 'nat' else atom(b[0])
            parts.append(f'decide ({fa} {sym[type(op)]} {fb})')
        return parts[0] if len(parts) == 1 else '(' + ' && '.join(parts) + ')'

    def container(self, e):
        """the right operand of `in`: a sequence, or `d.keys()` / `d` of a dict"""
        if isinstance(e, ast.Call) and isinstance(e.func, ast.Attribute) and e.func.attr == 'keys' and not e.args:
            d, td = self.expr(e.func.value)
            if isinstance(td, tuple) and td[0] == 'dict':
                return f'(dictKeys {atom(d)})', ('list', 'str')
        x, t = self.expr(e)
        if isinstance(t, tuple) and t[0] == 'dict':
            return f'(dictKeys {atom(x)})', ('list', 'str')
        if is_seq(t):
            return x, t
        raise TrErr(f'membership in {ast.unparse(e)} : {t}')

    def seq(self, e):
        x, t = self.expr(e)
        if not is_seq(t):
            raise TrErr(f'{ast.unparse(e)} : {t} is not a sequence')
        return x, t

    def pattern(self, tgt, t):
        """binder pattern for a comprehension / loop target over elements of type t -> (lean pattern, [(name, type)])"""
        if isinstance(tgt, ast.Name):
            return lname(tgt.id), [(tgt.id, t)]
        if isinstance(tgt, ast.Tuple) and len(tgt.elts) == 2 and isinstance(t, tuple) and t[0] == 'pair' \
                and all(isinstance(x, ast.Name) for x in tgt.elts):
            a, b = tgt.elts
            return f'({lname(a.id)}, {lname(b.id)})', [(a.id, t[1]), (b.id, t[2])]
        raise TrErr(f'loop target {ast.unparse(tgt)} over elements of type {t}')

    def comprehension(self, e):
        """(elt for target in iter [if cond]) -> list"""
        if len(e.generators) != 1 or e.generators[0].is_async:
            raise TrErr('comprehension ' + ast.unparse(e))
        g = e.generators[0]
        it, tit = self.seq(g.iter)
        pat, binds = self.pattern(g.target, tit[1])
        saved = dict(self.env)
        self.no_lift += 1
        try:
            for n, t in binds:
                self.bind(n, t)
            res = it
            facts = []
            if g.ifs:
                cs = []
                for c in g.ifs:
                    ct, f = self.cond(c)
                    cs.append(atom(ct))
                    facts += f
                res = f'({atom(res)}.filter fun {pat} => {" && ".join(cs)})'
            self.env = self.narrowed(facts)
            same = isinstance(e.elt, ast.Name) and isinstance(g.target, ast.Name) and e.elt.id == g.target.id
            try:
                el, tel = self.expr(e.elt)
                eff = False
            except TrErr:
                el, tel = self.opt_expr(e.elt)
                eff = True
        finally:
            self.no_lift -= 1
            self.env = saved
        kind = tit[0]          # a comprehension over a set is as unordered as the set
        if eff:
            return self.lift(f'{atom(res)}.mapM fun {pat} => {el}'), (kind, tel)
        if same:
            return res, (kind, tel)
        return f'({atom(res)}.map fun {pat} => {el})', (kind, tel)

    def opt_expr(self, e):
        """an expression whose evaluation can raise, as a Lean term of type `Option T`"""
        if isinstance(e, ast.Subscript) and not isinstance(e.slice, ast.Slice):
            d, td = self.expr(e.value)
            if isinstance(td, tuple) and td[0] == 'dict':
                k, tk = self.expr(e.slice)
                if tk != 'str':
                    raise TrErr('dictionary key ' + ast.unparse(e.slice))
                return f'dictGet? {atom(d)} {atom(k)}', td[1]
            if is_seq(td) and td[0] == 'list' and ast.unparse(e.slice) == '-1':
                return f'pyLast {atom(d)}', td[1]
        if isinstance(e, ast.Call) and isinstance(e.func, ast.Name) and e.func.id in self.mod.infos and not e.keywords:
            info = self.mod.infos[e.func.id]
            if info.eff:
                return self.call_text(info, e.args), info.ret
        raise TrErr('expression ' + ast.unparse(e)[:80])

    def call_text(self, info, args):
        if len(args) != len(info.params):
            raise TrErr(f'call of {info.name} with {len(args)} arguments')
        out = [info.name]
        if info.fuel:
            if not self.info.fuel:
                raise TrErr(f'call of {info.name} (needs fuel) from a function without fuel')
            out.append('fuel')
        for a, (pn, pt) in zip(args, info.params):
            x, t = self.expr(a)
            if not same_base(t, pt) and not (is_seq(t) and is_seq(pt)):
                raise TrErr(f'argument {ast.unparse(a)} : {t} of {info.name} (expected {pt})')
            out.append(atom(x))
        return ' '.join(out)

    def expr(self, e):
        """-> (lean term, type); operations that can raise are lifted with `(← ..)`"""
        if isinstance(e, ast.Name):
            return lname(e.id), self.ty(e.id)
        if isinstance(e, ast.Constant):
            if isinstance(e.value, str):
                return lean_str(e.value), 'str'
            if isinstance(e.value, bool):
                return ('true' if e.value else 'false'), 'bool'
            if isinstance(e.value, int) and e.value >= 0:
                return str(e.value), 'nat'
            raise TrErr('constant ' + ast.unparse(e))
        if isinstance(e, ast.JoinedStr):
            parts = []
            for v in e.values:
                if isinstance(v, ast.Constant) and isinstance(v.value, str):
                    parts.append(lean_str(v.value))
                elif isinstance(v, ast.FormattedValue) and v.conversion == -1 and v.format_spec is None:
                    x, t = self.expr(v.value)
                    if t == 'nat':
                        parts.append(f'toString {atom(x)}')      # str(int): decimal digits
                    elif t == 'str':
                        parts.append(atom(x))
                    else:
                        raise TrErr(f'formatted value {ast.unparse(v.value)} : {t}')
                else:
                    raise TrErr('f-string ' + ast.unparse(e))
            return '(' + ' ++ '.join(parts) + ')', 'str'
        if isinstance(e, ast.Set):
            xs = [self.expr(x) for x in e.elts]
            if not all(t == 'str' for _, t in xs):
                raise TrErr('set display ' + ast.unparse(e))
            return '[' + ', '.join(x for x, _ in xs) + ']', ('set', 'str')
        if isinstance(e, ast.List) and not e.elts:
            return '[]', ('list', None)
        if isinstance(e, ast.Dict) and not e.keys:
            return '[]', ('dict', None)
        if isinstance(e, ast.Tuple):
            return self.tuple(e)
        if isinstance(e, ast.Attribute):
            return self.attribute(e)
        if isinstance(e, ast.Subscript):
            return self.subscript(e)
        if isinstance(e, ast.BinOp):
            return self.binop(e)
        if isinstance(e, (ast.GeneratorExp, ast.ListComp)):
            return self.comprehension(e)
        if isinstance(e, ast.Call):
            return self.call(e)
        if isinstance(e, (ast.Compare, ast.BoolOp)) or (isinstance(e, ast.UnaryOp) and isinstance(e.op, ast.Not)):
            c, _ = self.cond(e)
            return c, 'bool'
        raise TrErr('expression ' + ast.unparse(e)[:80])

    def tuple(self, e):
        if not e.elts:
            return '[]', ('list', None)
        parts = []
        for x in e.elts:
            if isinstance(x, ast.Starred):
                s, t = self.seq(x.value)
                parts.append(('star', s, t))
            else:
                s, t = self.expr(x)
                parts.append(('one', s, t))
        star = any(k == 'star' for k, _, _ in parts)
        elts = [t[1] if k == 'star' else t for k, _, t in parts]
        homog = all(same_base(elts[0], t) for t in elts[1:]) and (is_stmt(elts[0]) or is_term(elts[0]))
        if star or (homog and len(parts) != 2) or (homog and len(parts) == 2 and is_stmt(elts[0])):
            if not homog:
                raise TrErr('tuple display with elements of different types ' + ast.unparse(e))
            el = None
            for t in elts:
                el = join_ty(el, t)
            segs, run = [], []
            for k, s, _ in parts:
                if k == 'one':
                    run.append(s)
                else:
                    if run:
                        segs.append('[' + ', '.join(run) + ']')
                        run = []
                    segs.append(atom(s))
            if run:
                segs.append('[' + ', '.join(run) + ']')
            kind = 'fset' if any(k == 'star' and t[0] in ('set', 'fset') for k, _, t in parts) else 'list'
            return (segs[0] if len(segs) == 1 else '(' + ' ++ '.join(segs) + ')'), (kind, el)
        if len(parts) == 2:
            return f'({parts[0][1]}, {parts[1][1]})', ('pair', parts[0][2], parts[1][2])
        raise TrErr('tuple display ' + ast.unparse(e))

    def attribute(self, e):
        o, t = self.expr(e.value)
        if is_stmt(t):
            if e.attr not in STMT_ATTRS:
                raise TrErr(f'attribute .{e.attr} of a statement')
            cls, at = STMT_ATTRS[e.attr]
            if not t[1] or not t[1] <= cls:
                raise TrErr(f'`{ast.unparse(e)}`: the object is only known to be one of {sorted(t[1])}, '
                            f'.{e.attr} exists on {sorted(cls)}')
            return f'{atom(o)}.{e.attr}', at
        if is_term(t):
            if e.attr not in TERM_ATTRS:
                raise TrErr(f'attribute .{e.attr} of a term')
            cls, at = TERM_ATTRS[e.attr]
            known = t[1] if isinstance(t, tuple) else frozenset()
            if not known or not known <= cls:
                raise TrErr(f'`{ast.unparse(e)}`: the class of the term is not known to be {sorted(cls)}')
            return f'{atom(o)}.{e.attr}', at
        if t == 'mvobj' and e.attr == 'name':
            return o, 'str'                 # a Metavariable object is its name
        if t == 'db' and e.attr == 'statements':
            return o, ('list', stmt_ty())   # MDb = List MStmt
        raise TrErr(f'attribute `{ast.unparse(e)}` of a value of type {t}')

    def pos(self, e):
        """an integer expression used as a string position"""
        x, t = self.expr(e)
        if t == 'int':
            return x
        if t == 'nat':
            return f'({x} : Int)'
        raise TrErr(f'string position {ast.unparse(e)} : {t}')

    def subscript(self, e):
        v, tv = self.expr(e.value)
        sl = e.slice
        if isinstance(sl, ast.Slice):
            if sl.step is not None:
                raise TrErr('slice step ' + ast.unparse(e))
            lo, hi = sl.lower, sl.upper
            if tv == 'proof':
                # proof[a:b] is only meaningful (at token level) followed by .split(): see call(); proof[a:] -> the rest
                if lo is not None and hi is None:
                    return f'posSliceFrom {atom(v)} {atom(self.pos(lo))}', 'proof'
                raise TrErr('slice of the proof string ' + ast.unparse(e))
            if is_seq(tv) and tv[0] == 'list' and lo is None and hi is not None and ast.unparse(hi) == '-1':
                return f'{atom(v)}.dropLast', tv
            if tv == 'str' and lo is not None and ast.unparse(lo) == '0' and isinstance(hi, ast.UnaryOp) \
                    and isinstance(hi.op, ast.USub):
                n = hi.operand
                # s[0:-len('literal')] with a non-empty literal
                if isinstance(n, ast.Call) and isinstance(n.func, ast.Name) and n.func.id == 'len' and len(n.args) == 1 \
                        and isinstance(n.args[0], ast.Constant) and isinstance(n.args[0].value, str) and n.args[0].value:
                    return f'strDropEnd {atom(v)} {lean_str(n.args[0].value)}.length', 'str'
            raise TrErr('slice ' + ast.unparse(e))
        # indexing that can raise
        x, t = self.opt_expr(e)
        return self.lift(x), t

    def binop(self, e):
        if isinstance(e.op, ast.Add):
            a, ta = self.expr(e.left)
            b, tb = self.expr(e.right)
            if ta == 'str' and tb == 'str':
                return f'({atom(a)} ++ {atom(b)})', 'str'
            if ta == 'nat' and tb == 'nat':
                return f'({atom(a)} + {atom(b)})', 'nat'
            if {ta, tb} <= {'nat', 'int'}:
                return f'({atom(a)} + {atom(b)})', 'int'
            if is_seq(ta) and is_seq(tb) and ta[0] == 'list' and tb[0] == 'list':
                return f'({atom(a)} ++ {atom(b)})', join_ty(ta, tb)
        if isinstance(e.op, ast.BitOr):
            a, ta = self.expr(e.left)
            b, tb = self.expr(e.right)
            if is_seq(ta) and is_seq(tb) and ta[0] in ('set', 'fset') and tb[0] in ('set', 'fset'):
                return f'({atom(a)} ++ {atom(b)})', join_ty(ta, tb)
        raise TrErr('operation ' + ast.unparse(e)[:80])

    def callable(self, f):
        """a function used as a value (argument of map)"""
        if isinstance(f, ast.Name) and f.id in self.locals_fn:
            info = self.locals_fn[f.id]
            if info.eff or len(info.params) != 1:
                raise TrErr(f'{f.id} as a function value')
            return lname(f.id), info.params[0][1], info.ret
        raise TrErr('function value ' + ast.unparse(f))

    def call(self, e):
        f = e.func
        if e.keywords:
            raise TrErr('keyword arguments ' + ast.unparse(e)[:80])
        if isinstance(f, ast.Name):
            n, a = f.id, e.args
            if n in self.locals_fn:
                info = self.locals_fn[n]
                if len(a) != len(info.params):
                    raise TrErr(f'call of {n}')
                args = ' '.join(atom(self.expr(x)[0]) for x in a)
                return (self.lift(f'{lname(n)} {args}') if info.eff else f'({lname(n)} {args})'), info.ret
            if n in self.mod.infos:
                info = self.mod.infos[n]
                if info.gen:
                    raise TrErr(f'call of the generator {n}')
                t = self.call_text(info, a)
                return (self.lift(t) if info.eff else f'({t})'), info.ret
            if n in ('frozenset', 'set', 'tuple', 'list') and len(a) <= 1:
                kind = {'frozenset': 'fset', 'set': 'set', 'tuple': 'list', 'list': 'list'}[n]
                if not a:
                    return '[]', (kind, None)
                x, t = self.seq(a[0])
                if kind == 'list' and t[0] in ('set', 'fset'):
                    raise TrErr(f'{n}(<set>) makes the iteration order of a set observable: ' + ast.unparse(e)[:60])
                return x, (kind, t[1])
            if n == 'sorted' and len(a) == 1:
                x, t = self.seq(a[0])
                if t[0] not in ('set', 'fset') or t[1] != 'str':
                    raise TrErr('sorted(..) of something that is not a set of str: ' + ast.unparse(e)[:60])
                return f'(sortedSet {atom(x)})', ('list', 'str')
            if n == 'len' and len(a) == 1:
                if isinstance(a[0], ast.Constant) and isinstance(a[0].value, str):
                    return f'{lean_str(a[0].value)}.length', 'nat'
                x, t = self.expr(a[0])
                if isinstance(t, tuple) and t[0] == 'dict':
                    return f'(dictLen {atom(x)})', 'nat'
                if is_seq(t) and t[0] == 'list':
                    return f'{atom(x)}.length', 'nat'
                raise TrErr(f'len of {t}')
            if n == 'cast' and len(a) == 2 and isinstance(a[0], ast.Constant):
                return self.expr(a[1])
            if n == 'map' and len(a) == 2:
                fn, tin, tout = self.callable(a[0])
                x, t = self.seq(a[1])
                if t[1] != tin:
                    raise TrErr('map over ' + ast.unparse(a[1]))
                # the result is only consumed by order-insensitive operations if the argument is a set
                return f'({atom(x)}.map {fn})', (t[0], tout)
            if n == 'filter' and len(a) == 2 and isinstance(a[0], ast.Constant) and a[0].value is None:
                x, t = self.seq(a[1])
                if t[1] != ('opt', 'str'):
                    raise TrErr('filter(None, ..) over ' + ast.unparse(a[1]))
                return f'(pyFilterNone {atom(x)})', (t[0], 'str')
            if n == 'Metavariable' and len(a) == 1:
                x, t = self.expr(a[0])
                if t != 'str':
                    raise TrErr('Metavariable(..) of ' + str(t))
                return x, 'mvobj'
            if n == 'Database' and len(a) == 1:
                x, t = self.seq(a[0])
                if t[0] != 'list' or not is_stmt(t[1]):
                    raise TrErr('Database(..) of ' + str(t))
                return x, 'db'
            ctor = {'ConstantStatement': ('MStmt.const', [('list', 'str')], 'Constant'),
                    'VariableStatement': ('MStmt.var', [('list', 'mvobj')], 'Variable'),
                    'DisjointStatement': ('MStmt.disj', [('list', 'mvobj')], 'Disjoint'),
                    'Block': ('MStmt.block', [('list', 'stmt')], 'Block'),
                    'AxiomaticStatement': ('MStmt.ax', ['str', ('list', 'term')], 'Axiomatic')}
            if n in ctor:
                c, want, cls = ctor[n]
                if len(a) != len(want):
                    raise TrErr(f'{n} with {len(a)} arguments')
                args = []
                for x, w in zip(a, want):
                    s, t = self.expr(x)
                    ok = (t == w) or (is_seq(t) and isinstance(w, tuple) and t[0] == 'list' and (
                        t[1] == w[1] or (w[1] == 'stmt' and is_stmt(t[1])) or (w[1] == 'term' and is_term(t[1])) or t[1] is None))
                    if not ok:
                        raise TrErr(f'argument {ast.unparse(x)} : {t} of {n}')
                    args.append(atom(s))
                return f'({c} {" ".join(args)})', stmt_ty({cls})
            raise TrErr('call ' + ast.unparse(e)[:80])
        if isinstance(f, ast.Attribute):
            m, a = f.attr, e.args
            # proof[a:b].split()
            if m == 'split' and not a and isinstance(f.value, ast.Subscript) and isinstance(f.value.slice, ast.Slice):
                v, tv = self.expr(f.value.value)
                sl = f.value.slice
                if tv == 'proof' and sl.lower is not None and sl.upper is not None and sl.step is None:
                    return f'(posSlice {atom(v)} {atom(self.pos(sl.lower))} {atom(self.pos(sl.upper))})', ('list', 'str')
            o, t = self.expr(f.value)
            if t == 'proof' and m == 'find' and len(a) in (1, 2) and isinstance(a[0], ast.Constant) \
                    and a[0].value in ('(', ')'):
                start = self.pos(a[1]) if len(a) == 2 else '0'
                return f'(posFind {atom(o)} {lean_str(a[0].value)} {atom(start)})', 'int'
            if t == 'str' and m == 'endswith' and len(a) == 1:
                x, tx = self.expr(a[0])
                if tx == 'str':
                    return f'({atom(o)}.endsWith {atom(x)})', 'bool'
            if is_seq(t) and t[0] in ('set', 'fset') and m == 'union':
                out, ty = o, t
                for x in a:
                    s, ts = self.seq(x)
                    if ts[0] not in ('set', 'fset'):
                        raise TrErr('union with ' + ast.unparse(x))
                    out = f'{out} ++ {atom(s)}'
                    ty = join_ty(ty, (ty[0], ts[1]))
                return f'({out})', ty
            if isinstance(t, tuple) and t[0] == 'dict':
                if m == 'items' and not a:
                    return f'(dictItems {atom(o)})', ('list', ('pair', 'str', t[1]))
                if m == 'values' and not a:
                    return f'(dictValues {atom(o)})', ('list', t[1])
                if m == 'keys' and not a:
                    return f'(dictKeys {atom(o)})', ('list', 'str')
                if m == 'get' and len(a) == 2:
                    k, tk = self.expr(a[0])
                    d, tdf = self.expr(a[1])
                    if tk == 'str' and (same_base(tdf, t[1]) or (is_seq(tdf) and is_seq(t[1]))):
                        return f'(dictGetD {atom(o)} {atom(k)} {atom(d)})', t[1]
            if is_stmt(t) and m == 'get_metavariables' and not a:
                return f'{atom(o)}.get_metavariables', ('set', 'str')
            raise TrErr('method call ' + ast.unparse(e)[:80])
        raise TrErr('call ' + ast.unparse(e)[:80])

    # ------------------------------------------------------------------ statements
    def effectful(self, nodes):
        return self.mod.effectful(nodes, self.locals_fn)

    def comment(self, st, pad):
        return [pad + '-- ' + l for l in first_line(st).splitlines()]

    def elif_comment(self, st, pad):
        c = self.comment(st, pad)
        return [pad + '-- el' + c[0][len(pad) + 3:]] + c[1:]

    def tuple_pat(self, names):
        ns = [lname(n) for n in names]
        if not ns:
            return '()'
        return ns[0] if len(ns) == 1 else '(' + ', '.join(ns) + ')'

    def refine(self, name, t):
        """the element type of a container that was created empty becomes known"""
        k, old = self.env[name]
        new = join_ty(old, t) if old[1] is None else old
        if old[1] is None and new[1] is not None and name in self.pending:
            self.resolved[self.pending.pop(name)] = lean_ty(new)
        self.env[name] = (k, new)
        return new

    def block(self, stmts, ind, tail):
        """lines of the Lean term for a statement list; `tail(ind)` = what happens when the list falls through its end"""
        if not stmts:
            return tail(ind)
        st, rest = stmts[0], stmts[1:]
        try:
            return self.stmt(st, rest, ind, tail)
        except TrErr as ex:
            self.problems.append(f'{self.info.name}: line {getattr(st, "lineno", "?")}: {ex}')
            pad = '  ' * ind
            return [pad + f'default /- UNTRANSLATED: {first_line(st)[:80]} -/']

    def ret_value(self, e):
        """the value of `return e` as a Lean term of the function's result type"""
        rt = self.info.ret
        if isinstance(rt, tuple) and rt[0] == 'opt':
            if e is None or (isinstance(e, ast.Constant) and e.value is None):
                return 'none'
            x, t = self.expr(e)
            if isinstance(t, tuple) and t[0] == 'opt':
                return x
            if not same_base(t, rt[1]):
                raise TrErr(f'return value {ast.unparse(e)} : {t}')
            return f'(some {atom(x)})'
        if e is None or (isinstance(e, ast.Constant) and e.value is None):
            raise TrErr('return None from a function whose annotation does not allow None')
        x, t = self.expr(e)
        ok = same_base(t, rt) or (is_seq(t) and is_seq(rt)) or (
            isinstance(t, tuple) and isinstance(rt, tuple) and t[0] == 'pair' and rt[0] == 'pair')
        if not ok:
            raise TrErr(f'return value {ast.unparse(e)} : {t}, expected {rt}')
        if is_seq(t) and is_seq(rt) and rt[0] == 'list' and t[0] != 'list':
            raise TrErr('a set is returned where a sequence is expected: ' + ast.unparse(e))
        return x

    def finish(self, text, pad):
        """a result value as the last line of a block"""
        return [pad + (f'pure {atom(text)}' if self.mode == 'do' else text)]

    def hoist_maybe(self, nodes, pad):
        out = []
        for n in sorted(loads(nodes)):
            if n in self.env and self.env[n][0] == 'maybe':
                if self.mode != 'do':
                    raise TrErr(f'{n} may be unbound')
                out.append(pad + f'let {lname(n)} ← {lname(n)}?   -- UnboundLocalError if the loop body never ran')
                self.env[n] = ('def', self.env[n][1])
        return out

    def stmt(self, st, rest, ind, tail):
        pad = '  ' * ind
        # docstrings / string expression statements
        if isinstance(st, ast.Expr) and isinstance(st.value, ast.Constant) and isinstance(st.value.value, str):
            return self.block(rest, ind, tail)
        if isinstance(st, ast.Pass):
            return self.block(rest, ind, tail)
        out = self.comment(st, pad)
        if isinstance(st, ast.FunctionDef):
            return out + self.closure(st, ind) + self.block(rest, ind, tail)
        if isinstance(st, ast.If):
            return self.if_stmt(st, rest, ind, tail, out)
        if isinstance(st, ast.For):
            return out + self.for_stmt(st, ind) + self.block(rest, ind, tail)
        if isinstance(st, ast.While):
            return out + self.while_stmt(st, rest, ind, tail)
        out += self.hoist_maybe([st], pad)
        if isinstance(st, ast.Return):
            if rest:
                raise TrErr('statements after return')
            if self.in_for:
                raise TrErr('return inside a for loop')
            return out + self.finish(self.ret_value(st.value), pad)
        if isinstance(st, ast.Raise):
            if rest:
                raise TrErr('statements after raise')
            if self.mode != 'do':
                raise TrErr('raise in a pure context')
            return out + [pad + 'none']
        if isinstance(st, ast.Continue):
            if rest:
                raise TrErr('statements after continue')
            if not self.loop_tails:
                raise TrErr('continue outside a loop')
            return out + self.loop_tails[-1](ind)
        if isinstance(st, ast.Assert):
            if self.mode != 'do':
                raise TrErr('assert in a pure context')
            c, facts = self.cond(st.test)       # the message is only evaluated when the assertion fails, and has no effect
            out.append(pad + f'pyAssert {atom(c)}')
            self.env = self.narrowed(facts)
            return out + self.block(rest, ind, tail)
        if isinstance(st, (ast.Assign, ast.AnnAssign)):
            if isinstance(st, ast.Assign):
                if len(st.targets) != 1:
                    raise TrErr('multiple assignment targets')
                tgt, val, ann = st.targets[0], st.value, None
            else:
                tgt, val, ann = st.target, st.value, st.annotation
                if val is None:
                    raise TrErr('annotation without value')
            return out + self.assign(tgt, val, ann, pad) + self.block(rest, ind, tail)
        if isinstance(st, ast.AugAssign):
            return out + self.augassign(st, pad) + self.block(rest, ind, tail)
        if isinstance(st, ast.Expr):
            return out + self.expr_stmt(st.value, pad) + self.block(rest, ind, tail)
        raise TrErr('statement ' + first_line(st)[:80])

    # ---- assignments
    def fresh_container(self, val):
        """the value is a newly created container (so that mutating the variable cannot be seen through another name)"""
        if isinstance(val, (ast.List, ast.Dict, ast.Set)):
            return True
        return isinstance(val, ast.Call) and isinstance(val.func, ast.Name) and val.func.id in ('set', 'list', 'dict') \
            and not val.keywords

    def let(self, name, text, t, pad, ann_t=None):
        """`let name := text`"""
        if name in self.mutated and not self.fresh:
            raise TrErr(f'{name} is mutated in place but is not initialised by a fresh container')
        t = ann_t if ann_t is not None else t
        asc = ''
        if (is_seq(t) or (isinstance(t, tuple) and t[0] == 'dict')) and t[1] is None:
            self.counter += 1
            key = f'⟪{self.counter}⟫'
            self.pending[name] = key
            asc = f' : {key}'
        elif text == '[]' or ann_t is not None or t == 'int':
            asc = f' : {lean_ty(t)}'
        self.bind(name, t)
        return [pad + f'let {lname(name)}{asc} := {text}']

    def assign(self, tgt, val, ann, pad):
        self.fresh = self.fresh_container(val)
        if isinstance(tgt, ast.Name):
            if isinstance(val, ast.Name) and (val.id in self.mutated or tgt.id in self.mutated):
                raise TrErr(f'{tgt.id} = {val.id} aliases an object that is mutated in place')
            x, t = self.expr(val)
            ann_t = None
            if ann is not None:
                ann_t = ann_of(ann, tgt.id)
                if not (same_base(t, ann_t) or (is_seq(t) and is_seq(ann_t)) or (
                        isinstance(t, tuple) and isinstance(ann_t, tuple) and t[0] == 'dict' and ann_t[0] == 'dict')):
                    raise TrErr(f'{tgt.id}: value of type {t}, annotation {ann_t}')
                if is_seq(t) and is_seq(ann_t) and ann_t[0] == 'list' and t[0] != 'list':
                    raise TrErr(f'{tgt.id}: a set assigned to a sequence')
            return self.let(tgt.id, x, t, pad, ann_t)
        if isinstance(tgt, ast.Tuple) and len(tgt.elts) == 2 and all(isinstance(x, ast.Name) for x in tgt.elts):
            # a, b = <pair>
            try:
                self.no_lift += 1
                try:
                    x, t = self.expr(val)
                finally:
                    self.no_lift -= 1
                arrow = ':='
            except TrErr:
                x, t = self.opt_expr(val)
                if self.mode != 'do':
                    raise TrErr('an operation that can raise in a pure context: ' + ast.unparse(val)[:60])
                arrow = '←'
            if not (isinstance(t, tuple) and t[0] == 'pair'):
                raise TrErr(f'unpacking of {ast.unparse(val)} : {t}')
            a, b = tgt.elts
            for n in (a.id, b.id):
                if n in self.mutated:
                    raise TrErr(f'{n} is mutated in place')
            self.bind(a.id, t[1])
            self.bind(b.id, t[2])
            return [pad + f'let ({lname(a.id)}, {lname(b.id)}) {arrow} {x}']
        if isinstance(tgt, ast.Tuple) and len(tgt.elts) == 2 and isinstance(tgt.elts[0], ast.Name) \
                and isinstance(tgt.elts[1], ast.Starred) and isinstance(tgt.elts[1].value, ast.Name):
            # x, *xs = <list>      (the starred target is a new list)
            if self.mode != 'do':
                raise TrErr('unpacking in a pure context')
            x, t = self.seq(val)
            if t[0] != 'list':
                raise TrErr('unpacking of a set')
            a, b = tgt.elts[0].id, tgt.elts[1].value.id
            self.bind(a, t[1])
            self.bind(b, t)
            return [pad + f'let ({lname(a)}, {lname(b)}) ← pyHeadRest {atom(x)}']
        if isinstance(tgt, ast.Subscript) and isinstance(tgt.value, ast.Name) and not isinstance(tgt.slice, ast.Slice):
            # d[k] = v
            d = tgt.value.id
            td = self.ty(d)
            if not (isinstance(td, tuple) and td[0] == 'dict'):
                raise TrErr(f'item assignment to {d} : {td}')
            v, tv = self.expr(val)        # Python evaluates the value first, then the key (both without effects here)
            k, tk = self.expr(tgt.slice)
            if tk != 'str' or not same_base(tv, td[1]):
                raise TrErr(f'{d}[{ast.unparse(tgt.slice)}] = {ast.unparse(val)} : key {tk}, value {tv}')
            return [pad + f'let {lname(d)} := dictSet {lname(d)} {atom(k)} {atom(v)}']
        raise TrErr('assignment target ' + ast.unparse(tgt))

    def augassign(self, st, pad):
        if not isinstance(st.target, ast.Name):
            raise TrErr('augmented assignment target')
        n = st.target.id
        t = self.ty(n)
        if isinstance(st.op, ast.BitOr) and is_seq(t) and t[0] in ('set', 'fset'):
            x, tx = self.seq(st.value)
            if tx[0] not in ('set', 'fset'):
                raise TrErr('|= with a sequence')
            self.refine(n, (t[0], tx[1]))
            return [pad + f'let {lname(n)} := {lname(n)} ++ {atom(x)}']
        if isinstance(st.op, ast.Add) and is_seq(t) and t[0] == 'list':
            x, tx = self.seq(st.value)         # list += iterable: extends in place
            if tx[0] != 'list':
                raise TrErr('+= with a set')
            self.refine(n, ('list', tx[1]))
            return [pad + f'let {lname(n)} := {lname(n)} ++ {atom(x)}']
        raise TrErr('augmented assignment ' + first_line(st))

    def expr_stmt(self, e, pad):
        if isinstance(e, ast.Yield):
            if e.value is None or not self.info.gen:
                raise TrErr('yield')
            x, t = self.expr(e.value)
            if not (isinstance(t, tuple) and t[0] == 'pair'):
                raise TrErr(f'yielded value {t}')
            return [pad + f'let yielded := yielded ++ [{x}]']
        if isinstance(e, ast.Call) and isinstance(e.func, ast.Attribute) and isinstance(e.func.value, ast.Name) \
                and e.func.attr in MUTATORS and len(e.args) == 1 and not e.keywords:
            n, m = e.func.value.id, e.func.attr
            t = self.ty(n)
            if not is_seq(t):
                raise TrErr(f'{n}.{m} on {t}')
            if m in ('add', 'append'):
                if (m == 'add') != (t[0] == 'set') or t[0] == 'fset':
                    raise TrErr(f'{n}.{m} on {t}')
                x, tx = self.expr(e.args[0])
                self.refine(n, (t[0], tx))
                return [pad + f'let {lname(n)} := {lname(n)} ++ [{x}]']
            if (m == 'update' and t[0] == 'set') or (m == 'extend' and t[0] == 'list'):
                x, tx = self.seq(e.args[0])
                if m == 'extend' and tx[0] != 'list':
                    raise TrErr('extend with a set')
                self.refine(n, (t[0], tx[1]))
                return [pad + f'let {lname(n)} := {lname(n)} ++ {atom(x)}']
        raise TrErr('expression statement ' + ast.unparse(e)[:80])

    # ---- nested function
    def closure(self, st, ind):
        pad = '  ' * ind
        info = self.mod.make_info(st, outer=self.info)
        info.eff = self.effectful(st.body)
        if info.eff:
            raise TrErr(f'local function {st.name} can raise')
        if assigned_names(st.body) and set(assigned_names(st.body)) & set(self.env):
            raise TrErr(f'local function {st.name} assigns to a variable of the enclosing function')
        sub = Fn(self.mod, info)
        sub.env = dict(self.env)
        sub.locals_fn = dict(self.locals_fn)
        sub.pending, sub.resolved, sub.counter = self.pending, self.resolved, self.counter
        for n, t in info.params:
            sub.bind(n, t)
        sub.mode = 'pure'
        body = sub.block(list(st.body), ind + 1, sub.fall_off)
        self.problems += sub.problems
        self.counter = sub.counter
        ptys = ' → '.join(paren_ty(lean_ty(t)) for _, t in info.params)
        self.locals_fn[st.name] = info
        head = pad + f'let {lname(st.name)} : {ptys} → {lean_ty(info.ret)} := fun ' + ' '.join(lname(n) for n, _ in info.params) + ' =>'
        return [head] + body

    def fall_off(self, ind):
        """the end of the function body is reached: `return None`"""
        pad = '  ' * ind
        rt = self.info.ret
        if self.info.gen:
            return [pad + '-- (end of the generator)'] + self.finish('yielded', pad)
        if isinstance(rt, tuple) and rt[0] == 'opt':
            return [pad + '-- (end of the function: return None)'] + self.finish('none', pad)
        if isinstance(rt, tuple) and rt[0] == 'pair' and self.info.name in self.mod.always_unpacked and self.mode == 'do':
            return [pad + '-- (end of the function: it returns None, which every caller unpacks into two variables: TypeError)',
                    pad + 'none']
        raise TrErr('the end of the function can be reached (implicit `return None`)')

    # ---- if
    def test(self, st):
        """the test of an if statement -> ('bool', lean, facts) | ('walrus', lean Option term, name, type)"""
        t = st.test
        if isinstance(t, ast.NamedExpr) and isinstance(t.target, ast.Name):
            try:
                self.no_lift += 1
                try:
                    x, ty = self.expr(t.value)
                finally:
                    self.no_lift -= 1
                eff = False
            except TrErr:
                x, ty = self.opt_expr(t.value)
                eff = True
            if not (isinstance(ty, tuple) and ty[0] == 'opt' and is_stmt(ty[1])):
                raise TrErr(f'assignment expression of type {ty} as a condition')
            if eff and self.mode != 'do':
                raise TrErr('an operation that can raise in a pure context')
            return ('walrus', (f'(← {x})' if eff else x), t.target.id, ty[1])
        c, facts = self.cond(t)
        return ('bool', c, facts)

    def hyp(self, st):
        """in a recursive function an isinstance test is named, for the termination proof"""
        t = st.test
        if self.rec and isinstance(t, ast.Call) and isinstance(t.func, ast.Name) and t.func.id == 'isinstance' \
                and isinstance(t.args[0], ast.Name):
            return f'h_{t.args[0].id} : '
        return ''

    def if_stmt(self, st, rest, ind, tail, out):
        pad = '  ' * ind
        out += self.hoist_maybe([st.test], pad)
        if rest and not (not st.orelse and terminal(st.body)):
            return out + self.joined_if(st, ind) + self.block(rest, ind, tail)
        # the if is the last statement of its block, or `if c: <terminal>` followed by the rest
        if rest:
            else_lines = lambda: self.block(rest, ind + 1, tail)          # noqa: E731
            elif_node = None
        elif len(st.orelse) == 1 and isinstance(st.orelse[0], ast.If):
            elif_node = st.orelse[0]
            else_lines = None
        else:
            elif_node = None
            else_lines = lambda: self.block(list(st.orelse), ind + 1, tail)   # noqa: E731
        saved = dict(self.env)
        kind = self.test(st)
        if kind[0] == 'bool':
            _, c, facts = kind
            lines = out + [pad + f'if {self.hyp(st)}{c} then']
            self.env = self.narrowed(facts)
            lines += self.block(list(st.body), ind + 1, tail)
            self.env = dict(saved)
            if elif_node is not None:
                sub = self.if_stmt(elif_node, [], ind, tail, self.elif_comment(elif_node, pad))
                # `else if` on one line keeps the chain flat
                k = next(i for i, l in enumerate(sub) if not l.strip().startswith('--'))
                head = sub[k].strip()
                if head.startswith('if '):
                    lines += sub[:k] + [pad + 'else ' + head] + sub[k + 1:]
                else:
                    lines += [pad + 'else'] + ['  ' + l for l in sub]
            else:
                lines += [pad + 'else'] + else_lines()
            self.env = saved
            return lines
        _, x, name, ty = kind
        lines = out + [pad + f'match {x} with', pad + f'| some {lname(name)} =>']
        self.bind(name, ty)
        lines += self.block(list(st.body), ind + 1, tail)
        self.env = dict(saved)
        lines.append(pad + '| none =>')
        if elif_node is not None:
            lines += self.if_stmt(elif_node, [], ind + 1, tail, self.elif_comment(elif_node, pad + '  '))
        else:
            lines += else_lines()
        self.env = saved
        return lines

    def joined_if(self, st, ind):
        """an if statement whose branches fall through to the statements after it: `let M := if c then .. M else .. M`"""
        pad = '  ' * ind
        chain = [st]
        while len(chain[-1].orelse) == 1 and isinstance(chain[-1].orelse[0], ast.If):
            chain.append(chain[-1].orelse[0])
        bodies = [list(c.body) for c in chain] + [list(chain[-1].orelse)]
        if any(terminal(b) for b in bodies) or contains([st], (ast.Return, ast.Continue, ast.Raise)):
            raise TrErr('an if statement with a branch that leaves the block, followed by further statements')
        mod = [n for n in assigned_names([st]) if n in self.env]
        new = [n for n in assigned_names([st]) if n not in self.env]
        eff = self.effectful([st])
        if eff and self.mode != 'do':
            raise TrErr('an operation that can raise in a pure context')
        saved_mode = self.mode
        self.mode = 'do' if eff else 'pure'
        M = self.tuple_pat(mod)
        fin = lambda i: self.finish(M, '  ' * i)        # noqa: E731
        lines = []
        saved = dict(self.env)
        ends = []
        try:
            for i, c in enumerate(chain):
                kind = self.test(c)
                if kind[0] != 'bool':
                    raise TrErr('assignment expression in a joined if')
                kw = 'if' if i == 0 else 'else if'
                head = f'let {M} {"←" if eff else ":="} ' if i == 0 else ''
                if i:
                    lines += self.elif_comment(c, pad + '  ')
                lines.append(pad + ('' if i == 0 else '  ') + f'{head}{kw} {kind[1]} then' + (' do' if eff else ''))
                self.env = self.narrowed(kind[2])
                lines += self.block(bodies[i], ind + 2, fin)
                ends.append(dict(self.env))
                self.env = dict(saved)
            lines.append(pad + '  else' + (' do' if eff else ''))
            lines += self.block(bodies[-1], ind + 2, fin)
            ends.append(dict(self.env))
        finally:
            self.mode = saved_mode
        self.env = saved
        for n in mod:
            t = None
            for e in ends:
                t = join_ty(t, e[n][1])
            self.env[n] = ('def', t)
        for n in new:
            self.env.pop(n, None)
        return lines

    # ---- loops
    def set_accumulation_only(self, stmts):
        for s in stmts:
            if isinstance(s, ast.If):
                if not self.set_accumulation_only(s.body) or not self.set_accumulation_only(s.orelse):
                    return False
            elif isinstance(s, ast.AugAssign) and isinstance(s.op, ast.BitOr) and isinstance(s.target, ast.Name) \
                    and s.target.id in self.env and is_seq(self.env[s.target.id][1]) and self.env[s.target.id][1][0] in ('set', 'fset'):
                continue
            elif isinstance(s, ast.Expr) and isinstance(s.value, ast.Call) and isinstance(s.value.func, ast.Attribute) \
                    and s.value.func.attr in ('add', 'update') and isinstance(s.value.func.value, ast.Name) \
                    and s.value.func.value.id in self.env and is_seq(self.env[s.value.func.value.id][1]) \
                    and self.env[s.value.func.value.id][1][0] == 'set':
                continue
            else:
                return False
        return True

    def for_stmt(self, st, ind):
        pad = '  ' * ind
        if st.orelse:
            raise TrErr('for-else')
        if contains(st.body, (ast.Return, ast.Break)):
            raise TrErr('return / break inside a for loop')
        pre = self.hoist_maybe([st.iter], pad)
        it, tit = self.seq(st.iter)
        if isinstance(st.iter, ast.Name) and st.iter.id in self.mutated and st.iter.id in assigned_names(st.body):
            raise TrErr(f'{st.iter.id} is mutated in place while it is iterated over')
        if tit[0] in ('set', 'fset') and not self.set_accumulation_only(st.body):
            raise TrErr('a for loop over a set whose body does more than accumulate into sets: the iteration order of the set '
                        'would be observable')
        pat, binds = self.pattern(st.target, tit[1])
        assigned = assigned_names(st.body)
        carried = [n for n in assigned if n in self.env]
        local = [n for n in assigned if n not in self.env] + [n for n, _ in binds]
        for n in local:
            if self.read_after(n, st):
                raise TrErr(f'{n} is bound in the loop at line {st.lineno} and read after it')
        eff = self.effectful(st.body)
        if eff and self.mode != 'do':
            raise TrErr('an operation that can raise in a pure context')
        M = self.tuple_pat(carried)
        saved = dict(self.env)
        saved_mode, saved_for = self.mode, self.in_for
        self.mode = 'do' if eff else 'pure'
        self.in_for = True
        fin = lambda i: self.finish(M, '  ' * i)        # noqa: E731
        self.loop_tails.append(fin)
        try:
            for n, t in binds:
                self.bind(n, t)
            body = self.block(list(st.body), ind + 2, fin)
        finally:
            self.loop_tails.pop()
            self.mode, self.in_for = saved_mode, saved_for
        end = self.env
        self.env = saved
        for n in carried:
            self.env[n] = ('def', join_ty(saved[n][1], end[n][1]) if saved[n][1] != end[n][1] else saved[n][1])
        fold = 'foldlM' if eff else 'foldl'
        head = pad + f'let {M} {"←" if eff else ":="} {atom(it)}.{fold} (fun {M} {pat} =>' + (' do' if eff else '')
        body[-1] += f') {M}'
        return pre + [head] + body

    def after(self, st):
        """the statements of the function that come after `st` (by position in the source)"""
        end = st.end_lineno
        return [s for s in ast.walk(self.fn) if isinstance(s, ast.stmt) and s.lineno > end]

    def read_after(self, n, st):
        """is the loop-local name n read after the loop `st` without being bound again (by a later for loop) first?"""
        later = [s for s in self.after(st) if isinstance(s, ast.For) and n in assigned_names([ast.For(
            target=s.target, iter=ast.Constant(0), body=[], orelse=[])])]
        for s in self.after(st):
            for x in ast.walk(s):
                if isinstance(x, ast.Name) and isinstance(x.ctx, ast.Load) and x.id == n:
                    if not any(f.body[0].lineno <= x.lineno <= f.end_lineno for f in later):
                        return True
        return False

    def while_stmt(self, st, rest, ind, tail):
        pad = '  ' * ind
        if st.orelse:
            raise TrErr('while-else')
        if contains(st.body, (ast.Break,)):
            raise TrErr('break')
        if self.in_for or self.loop_tails:
            raise TrErr('a while loop inside another loop')
        if rest and not terminal(rest):
            raise TrErr('the statements after the while loop can fall through')
        if not self.info.fuel or self.mode != 'do':
            raise TrErr('while loop in a function without fuel')
        assigned = assigned_names(st.body)
        used = loads([st] + rest)
        carried = [n for n in assigned if n in self.env or n in loads(rest)]
        params = [n for n in self.env if n in used and n not in carried and self.env[n][0] == 'def'
                  and n not in self.locals_fn] + carried
        self.mod.n_while[self.info.name] = self.mod.n_while.get(self.info.name, 0) + 1
        name = f'{self.info.name}_while{self.mod.n_while[self.info.name]}'      # numbered within the function (line numbers shift)
        # ---- the loop function
        sub = Fn(self.mod, self.info)
        sub.rec = False
        sub.mode = 'do'
        sub.pending, sub.resolved, sub.counter = self.pending, self.resolved, self.counter
        sub.mutated = self.mutated
        sig = []
        for n in params:
            if n in self.env:
                k, t = self.env[n]
                sub.env[n] = (k, t)
                sig.append(f'({lname(n)} : {lean_ty(t)})')
            else:
                sub.env[n] = ('maybe', None)      # first bound inside the loop
        # types of the variables first bound in the loop: translate the body once to find them
        probe = Fn(self.mod, self.info)
        probe.mode, probe.rec = 'do', False
        probe.pending, probe.resolved, probe.counter, probe.mutated = {}, {}, 0, self.mutated
        probe.env = {n: v for n, v in sub.env.items() if v[1] is not None}
        probe.block(list(st.body), 0, lambda i: ['x'])
        sig = []
        for n in params:
            if sub.env[n][1] is None:
                if n not in probe.env:
                    raise TrErr(f'type of {n}')
                sub.env[n] = ('maybe', probe.env[n][1])
                sig.append(f'({lname(n)}? : Option {paren_ty(lean_ty(probe.env[n][1]))})')
            else:
                sig.append(f'({lname(n)} : {lean_ty(sub.env[n][1])})')
        entry = dict(sub.env)

        def again(i):
            args = []
            for n in params:
                k, _ = sub.env[n]
                if entry[n][0] == 'maybe':
                    args.append(f'(some {lname(n)})' if k == 'def' else f'{lname(n)}?')
                else:
                    args.append(lname(n))
            return ['  ' * i + f'{name} fuel ' + ' '.join(args)]

        c, facts = sub.cond(st.test)
        lines = [f'/-- the `while` loop at line {st.lineno} of `{self.info.name}` together with the statements after it; `fuel` bounds the',
                 'number of iterations (`none` when it runs out: the tie theorems say how much is enough) -/',
                 f'def {name} (fuel : Nat) ' + ' '.join(sig) + f' : {self.result_ty()} :=',
                 '  match fuel with',
                 '  | 0 => none',
                 '  | fuel + 1 =>']
        lines += self.comment(st, '    ')
        lines.append(f'    if {c} then do')
        sub.env = sub.narrowed(facts)
        sub.loop_tails.append(again)
        lines += sub.block(list(st.body), 3, again)
        sub.loop_tails.pop()
        sub.env = dict(entry)
        lines.append('    else do')
        lines.append('      -- (after the loop)')
        lines += sub.block(list(rest), 3, tail)
        self.problems += sub.problems
        self.counter = sub.counter
        self.aux.append(lines)
        self.aux += sub.aux
        # ---- the call
        args = []
        for n in params:
            args.append(lname(n) if n in self.env else 'none')
        return [pad + f'{name} fuel ' + ' '.join(args)]

    def result_ty(self):
        rt = self.info.ret
        t = lean_ty(('list', rt[1])) if self.info.gen else lean_ty(rt)
        return f'Option {paren_ty(t)}' if self.info.eff else t

    # ------------------------------------------------------------------ the whole function
    def translate(self):
        info = self.info
        self.mode = 'do' if info.eff else 'pure'
        self.in_for = False
        self.pending, self.resolved, self.counter = {}, {}, 0
        self.fresh = True
        fn = self.fn
        # objects mutated in place: locals only
        self.mutated = set()
        for x in ast.walk(fn):
            if isinstance(x, ast.Call) and isinstance(x.func, ast.Attribute) and x.func.attr in MUTATORS \
                    and isinstance(x.func.value, ast.Name):
                self.mutated.add(x.func.value.id)
            if isinstance(x, ast.Subscript) and isinstance(x.ctx, ast.Store) and isinstance(x.value, ast.Name):
                self.mutated.add(x.value.id)
            if isinstance(x, ast.AugAssign) and isinstance(x.op, ast.Add) and isinstance(x.target, ast.Name):
                self.mutated.add(x.target.id)
        for n, _ in info.params:
            if n in self.mutated:
                self.problems.append(f'{info.name}: the parameter {n} is mutated in place')
        for x in ast.walk(fn):
            # a mutated object must not get a second name
            tg = x.targets[0] if isinstance(x, ast.Assign) else getattr(x, 'target', None)
            if isinstance(x, (ast.Assign, ast.AnnAssign)) and isinstance(x.value, ast.Name) and x.value.id in self.mutated \
                    and isinstance(tg, ast.Name):
                self.problems.append(f'{info.name}: line {x.lineno}: {x.value.id} (mutated in place) gets a second name')
        for n, t in info.params:
            self.bind(n, t)
        lines = []
        pre = []
        if info.gen:
            self.bind('yielded', ('list', info.ret[1]))
            pre.append(f'  let yielded : {lean_ty(("list", info.ret[1]))} := []')
        body = self.block(list(fn.body), 1, self.fall_off)
        sig = ''.join(f' ({lname(n)} : {lean_ty(t)})' for n, t in info.params)
        fuel = ' (fuel : Nat)' if info.fuel else ''
        head = f'def {info.name}{fuel}{sig} : {self.result_ty()} :=' + (' do' if info.eff else '')
        doc = f'/-- `{info.name}` (metamath_extract_slice.py line {fn.lineno}) -/'
        lines = [doc, head] + pre + body
        if self.rec:
            lines += ['termination_by ' + ' '.join(f'sizeOf {lname(n)}' for n, t in info.params[:1]),
                      'decreasing_by all_goals first | exact sizeOf_subterms_lt ‹_› ‹_› | exact sizeOf_statements_lt ‹_› ‹_›']
        text = []
        for a in self.aux:
            text += a
        text += lines
        for i, l in enumerate(text):
            while '⟪' in l:
                a = l.index('⟪')
                b = l.index('⟫', a)
                key = l[a:b + 1]
                if key in self.resolved:
                    l = l.replace(key, self.resolved[key])
                else:
                    self.problems.append(f'{info.name}: the element type of an empty container is never determined')
                    l = l.replace(key, 'List String')
            text[i] = l
        return text


def atom(s):
    """parenthesise a Lean term unless it is atomic"""
    s = s.strip()
    if not s:
        return s
    if s[0] == '(' and _closes(s, '(', ')') or s[0] == '[' and _closes(s, '[', ']') or s[0] == '"' and s.count('"') == 2 and s[-1] == '"':
        return s
    if all(c.isalnum() or c in "_.«»?'" for c in s):
        return s
    return f'({s})'


def _closes(s, o, c):
    d = 0
    instr = False
    for i, ch in enumerate(s):
        if ch == '"' and (i == 0 or s[i - 1] != '\\'):
            instr = not instr
        if instr:
            continue
        if ch == o:
            d += 1
        elif ch == c:
            d -= 1
            if d == 0:
                return i == len(s) - 1
    return False


# ---------------------------------------------------------------------------------------------- the module
class Mod:
    def __init__(self, tree):
        self.tree = tree
        self.problems = []
        self.infos = {}
        self.always_unpacked = set()
        self.n_while = {}
        fns = {n.name: n for n in tree.body if isinstance(n, ast.FunctionDef)}
        for name in FUNCS:
            if name not in fns:
                self.problems.append(f'function {name} not found')
        for name in fns:
            if name not in FUNCS and name not in OTHER:
                self.problems.append(f'unexpected function {name} (neither translated nor known glue)')
        self.order = [n.name for n in tree.body if isinstance(n, ast.FunctionDef) and n.name in FUNCS]
        for name in self.order:
            try:
                self.infos[name] = self.make_info(fns[name])
            except TrErr as ex:
                self.problems.append(f'{name}: {ex}')
        # which functions can raise / need fuel: least fixed point over the call graph
        changed = True
        while changed:
            changed = False
            for info in self.infos.values():
                eff = self.effectful(info.fn.body, {}) or self.may_fall_off(info)
                fuel = contains(info.fn.body, (ast.While,)) or any(
                    c in self.infos and self.infos[c].fuel for c in calls_of(info.fn))
                if eff != info.eff or fuel != info.fuel:
                    info.eff, info.fuel = eff or info.eff, fuel or info.fuel
                    changed = True
        # functions whose result is unpacked into two variables by every caller
        for name, info in self.infos.items():
            uses, unpack = 0, 0
            for x in ast.walk(tree):
                if isinstance(x, ast.Call) and isinstance(x.func, ast.Name) and x.func.id == name:
                    uses += 1
            for x in ast.walk(tree):
                if isinstance(x, ast.Assign) and isinstance(x.value, ast.Call) and isinstance(x.value.func, ast.Name) \
                        and x.value.func.id == name and len(x.targets) == 1 and isinstance(x.targets[0], ast.Tuple) \
                        and len(x.targets[0].elts) == 2:
                    unpack += 1
            if uses and uses == unpack:
                self.always_unpacked.add(name)

    def may_fall_off(self, info):
        rt = info.ret
        return not terminal(list(info.fn.body)) and not info.gen and not (isinstance(rt, tuple) and rt[0] == 'opt')

    def make_info(self, fn, outer=None):
        info = FInfo(fn, outer)
        a = fn.args
        if a.vararg or a.kwarg or a.kwonlyargs or a.posonlyargs or a.defaults:
            raise TrErr('parameter list of ' + fn.name)
        if fn.decorator_list:
            raise TrErr('decorators of ' + fn.name)
        for p in a.args:
            info.params.append((p.arg, ann_of(p.annotation, f'parameter {p.arg} of {fn.name}')))
        info.ret = ann_of(fn.returns, f'the result of {fn.name}')
        info.gen = isinstance(info.ret, tuple) and info.ret[0] == 'gen'
        if info.gen != contains(fn.body, (ast.Yield, ast.YieldFrom)):
            raise TrErr(f'{fn.name}: `yield` and the return annotation do not agree')
        return info

    def effectful(self, nodes, local_fns):
        """can the evaluation of these statements raise?"""
        for n in nodes:
            for x in walk_code(n):
                if isinstance(x, (ast.Assert, ast.Raise, ast.While)):
                    return True
                if isinstance(x, ast.Subscript) and isinstance(x.ctx, ast.Load) and not isinstance(x.slice, ast.Slice):
                    return True
                if isinstance(x, ast.Assign) and any(isinstance(t, ast.Tuple) and any(isinstance(e, ast.Starred) for e in t.elts)
                                                     for t in x.targets):
                    return True
                if isinstance(x, ast.Call) and isinstance(x.func, ast.Name):
                    if x.func.id in self.infos and self.infos[x.func.id].eff:
                        return True
                    if x.func.id in local_fns and local_fns[x.func.id].eff:
                        return True
        return False


def translate_source(src):
    """-> (lines of the Lean definitions, problems)"""
    tree = ast.parse(src)
    mod = Mod(tree)
    problems = list(mod.problems)
    lines = []
    for name in mod.order:
        if name not in mod.infos:
            continue
        f = Fn(mod, mod.infos[name])
        try:
            text = f.translate()
        except TrErr as ex:
            problems.append(f'{name}: {ex}')
            text = [f'-- UNTRANSLATED: {name}']
        except Exception as ex:   # noqa  (a bug of the translator must not leave a stale generated file behind)
            problems.append(f'{name}: translator failure {type(ex).__name__}: {ex}')
            text = [f'-- UNTRANSLATED: {name}']
        problems += f.problems
        lines += text
    # the dispatch order of the translated functions must be the source order the tie file expects
    if mod.order != FUNCS:
        problems.append(f'the translated functions are not in the expected order: {mod.order}')
    return lines, problems


HEADER = '''import Pi2.SliceSupport
/-! GENERATED by /verif/vlib/transslice.py from `get_constants`, `statements_get_constants`, `deconstruct_compressed_proof`,
`supporting_database_for_provable`, `match_axiom`, `deconstruct_provable`, `construct_axiom`, `slice_database`
(generation/src/proof_generation/metamath/metamath_extract_slice.py), statement by statement — do not edit.
`Pi2/MM/SliceTie.lean` proves these equal to the hand-written model `Pi2/MM/Slice.lean`.
`none` = the Python code raises (or the fuel of the `while` loop ran out); sets are lists; a generator returns the list of the
values it yields; the proof string is its token list (positions: `Pi2/SliceSupport.lean`). -/
set_option linter.unusedVariables false
namespace Gen.Slicer
open MM SliceSup'''


def gen_slicer(src_path=None, out_dir=None):
    """regenerate Pi2/Gen/Slicer.lean; `src_path` / `out_dir` override the source file and the output directory"""
    src_path = src_path or os.path.join(core.PYSRC, 'proof_generation/metamath/metamath_extract_slice.py')
    src = open(src_path).read()
    try:
        body, problems = translate_source(src)
    except SyntaxError as ex:
        body, problems = [], [f'cannot parse: {ex}']
    except Exception as ex:   # noqa
        body, problems = [], [f'translator failure {type(ex).__name__}: {ex}']
    problems = ['Slicer: ' + p for p in problems]
    lines = [HEADER] + body
    lines.append(f'def translated : Bool := {"true" if not problems else "false"}')
    for p in problems:
        lines.append('-- PROBLEM: ' + p.replace('\n', ' '))
    lines.append('end Gen.Slicer')
    from .translate import _write_if_changed, GEN
    _write_if_changed(os.path.join(out_dir or GEN, 'Slicer.lean'), '\n'.join(lines) + '\n')
    return problems


if __name__ == '__main__':
    import sys
    print(gen_slicer(*sys.argv[1:3]))
