"""Translator: the syntactic judgements of the Rust checker (`Pattern::e_fresh`, `s_fresh`, `positive`, `negative` in
rust/src/lib.rs) -> Lean definitions (`Pi2/Gen/RustJudge.lean`), regenerated on every run.  `Pi2/RustTie.lean` proves the
generated functions equal to the hand-written model (`Pat.eFresh` ...), about which the soundness theorems are stated: a
change of the Rust source that changes a judgement breaks that proof.

The accepted subset of Rust: `fn NAME(&self, ARG: Id) -> bool { match self { ARMS } }`, arms `Pattern::C(binders)` /
`Pattern::C { fields, .. }` with an expression or a block of `let x = e;`, `if c { return e; }`, a final expression or
`return e;`; expressions over `&& || ! == != * &`, method calls `x.f(a)`, `list.contains(&v)` and parentheses.  Anything
else is reported as a translator problem (and the tie is then reported as broken, not silently skipped)."""
from __future__ import annotations

import os
import re

from . import core

FUNCS = ['e_fresh', 's_fresh', 'positive', 'negative']
# Rust constructor -> (Lean constructor, field names in Lean argument order)
CTORS = {
    'EVar': ('evar', ['0']), 'SVar': ('svar', ['0']), 'Symbol': ('sym', ['0']),
    'Implies': ('imp', ['left', 'right']), 'App': ('app', ['left', 'right']),
    'Exists': ('ex', ['var', 'subpattern']), 'Mu': ('mu', ['var', 'subpattern']),
    'MetaVar': ('mv', ['id', 'e_fresh', 's_fresh', 'positive', 'negative', 'app_ctx_holes']),
    'ESubst': ('esub', ['pattern', 'evar_id', 'plug']), 'SSubst': ('ssub', ['pattern', 'svar_id', 'plug']),
}


class TrErr(Exception):
    pass


def strip_comments(src):
    return re.sub(r'//[^\n]*', '', src)


def find_fn(src, name):
    m = re.search(r'fn\s+' + name + r'\s*\(\s*&self\s*,\s*(\w+)\s*:\s*Id\s*\)\s*->\s*bool\s*\{', src)
    if not m:
        raise TrErr(f'fn {name}(&self, _: Id) -> bool not found')
    i = m.end()
    depth, j = 1, i
    while depth:
        if src[j] == '{':
            depth += 1
        elif src[j] == '}':
            depth -= 1
        j += 1
    return m.group(1), src[i:j - 1]


TOK = re.compile(r'\s*(=>|&&|\|\||==|!=|\.\.|::|[{}()\[\],;.!*&=]|[A-Za-z_][A-Za-z0-9_]*|\d+)')


def lex(s):
    out, pos = [], 0
    s = s.strip()
    while pos < len(s):
        m = TOK.match(s, pos)
        if not m:
            raise TrErr(f'cannot tokenize near {s[pos:pos + 30]!r}')
        out.append(m.group(1)); pos = m.end()
    return out


class P:
    def __init__(self, toks, bound, param):
        self.t, self.i, self.bound, self.param = toks, 0, bound, param

    def peek(self, k=0):
        return self.t[self.i + k] if self.i + k < len(self.t) else None

    def eat(self, x=None):
        v = self.peek()
        if v is None or (x is not None and v != x):
            raise TrErr(f'expected {x!r}, got {v!r}')
        self.i += 1
        return v

    # expressions
    def expr(self):
        a = self.conj()
        while self.peek() == '||':
            self.eat(); a = f'({a} || {self.conj()})'
        return a

    def conj(self):
        a = self.cmp()
        while self.peek() == '&&':
            self.eat(); a = f'({a} && {self.cmp()})'
        return a

    def cmp(self):
        a = self.unary()
        if self.peek() in ('==', '!='):
            op = self.eat(); b = self.unary()
            return f'({a} {op} {b})'
        return a

    def unary(self):
        if self.peek() == '!':
            self.eat(); return f'(!{self.unary()})'
        if self.peek() in ('*', '&'):
            self.eat(); return self.unary()
        return self.postfix()

    def postfix(self):
        if self.peek() == '(':
            self.eat(); a = self.expr(); self.eat(')')
        else:
            v = self.eat()
            if not re.fullmatch(r'[A-Za-z_]\w*', v):
                raise TrErr(f'unexpected token {v!r}')
            if v in ('true', 'false'):
                a = v
            elif v == self.param:
                a = 'q'
            elif v in self.bound:
                a = self.bound[v]
            else:
                raise TrErr(f'unknown name {v!r}')
        while self.peek() == '.':
            self.eat(); f = self.eat(); self.eat('(')
            args = []
            while self.peek() != ')':
                args.append(self.expr())
                if self.peek() == ',':
                    self.eat()
            self.eat(')')
            if f in FUNCS and len(args) == 1:
                a = f'({f} {a} {args[0]})'
            elif f == 'contains' and len(args) == 1:
                a = f'(List.contains {a} {args[0]})'
            else:
                raise TrErr(f'unsupported method .{f}/{len(args)}')
        return a

    # a block body: statements then a final expression
    def block(self):
        if self.peek() == 'let':
            self.eat(); v = self.eat(); self.eat('='); e = self.expr(); self.eat(';')
            self.bound = dict(self.bound); self.bound[v] = 'l_' + v
            return f'let l_{v} := {e}; {self.block()}'
        if self.peek() == 'if':
            self.eat(); c = self.expr(); self.eat('{'); self.eat('return'); e = self.expr(); self.eat(';'); self.eat('}')
            return f'if {c} then {e} else {self.block()}'
        if self.peek() == 'return':
            self.eat(); e = self.expr(); self.eat(';')
            return e
        return self.expr()


def parse_arms(body, param):
    toks = lex(body)
    p = P(toks, {}, param)
    p.eat('match'); p.eat('self'); p.eat('{')
    arms = {}
    while p.peek() != '}':
        p.eat('Pattern'); p.eat('::'); c = p.eat()
        if c not in CTORS:
            raise TrErr(f'unknown constructor {c}')
        lean, fields = CTORS[c]
        names = {}
        if p.peek() == '(':
            p.eat()
            v = p.eat(); p.eat(')')
            names['0'] = v
        elif p.peek() == '{':
            p.eat()
            while p.peek() != '}':
                if p.peek() == '..':
                    p.eat()
                else:
                    f = p.eat()
                    if f not in fields:
                        raise TrErr(f'unknown field {f} of {c}')
                    names[f] = f
                if p.peek() == ',':
                    p.eat()
            p.eat('}')
        p.eat('=>')
        bound = {v: 'b_' + v for v in names.values() if v != '_'}
        pats = ' '.join(('b_' + names[f]) if f in names and names[f] != '_' else '_' for f in fields)
        q = P(p.t, bound, param); q.i = p.i
        if q.peek() == '{':
            q.eat('{'); e = q.block(); q.eat('}')
        else:
            e = q.expr()
        p.i = q.i
        if p.peek() == ',':
            p.eat()
        if lean in arms:
            raise TrErr(f'two arms for {c}')
        arms[lean] = (pats, e)
    p.eat('}')
    missing = [l for l, _ in CTORS.values() if l not in arms]
    if missing:
        raise TrErr(f'no arm for {missing}')
    return arms


def gen_rust_judgements():
    problems = []
    src = strip_comments(open(os.path.join(core.REPO, 'rust/src/lib.rs')).read())
    defs = {}
    for f in FUNCS:
        try:
            param, body = find_fn(src, f)
            defs[f] = parse_arms(body, param)
        except TrErr as e:
            problems.append(f'RustJudge: {f}: {e}')
    lines = ['import Pi2.Pattern',
             '/-! GENERATED by /verif/vlib/transrust.py from `impl Pattern` in rust/src/lib.rs (the four syntactic judgements,',
             'arm by arm) — do not edit.  `Pi2/RustTie.lean` proves these equal to `Pat.eFresh`, `Pat.sFresh`, `Pat.pos`, `Pat.ng`. -/',
             'namespace Gen.Rust', 'set_option linter.unusedVariables false']

    def emit(f):
        out = [f'def {f} : Pat → VId → Bool']
        for lean, (pats, e) in defs[f].items():
            out.append(f'  | .{lean} {pats}, q => {e}')
        return out
    if len(defs) == len(FUNCS):
        calls = {f: {g for g in FUNCS if re.search(r'\(' + g + r' ', ' '.join(e for _, e in defs[f].values()))} for f in FUNCS}
        done = []
        # functions that only call themselves (or already emitted ones) first, the rest as one mutual block
        for f in FUNCS:
            if calls[f] <= set(done) | {f}:
                lines += emit(f); done.append(f)
        rest = [f for f in FUNCS if f not in done]
        if rest:
            lines.append('mutual')
            for f in rest:
                lines += emit(f)
            lines.append('end')
        lines.append('def translated : Bool := true')
    else:
        lines.append('def translated : Bool := false')
    lines.append('end Gen.Rust')
    from .translate import _write_if_changed, GEN
    _write_if_changed(os.path.join(GEN, 'RustJudge.lean'), '\n'.join(lines) + '\n')
    return problems


if __name__ == '__main__':
    print(gen_rust_judgements())


# ---------------------------------------------------------------------------------------------------------
# apply_esubst / apply_ssubst: Rc<Pattern>-valued functions with guards, asserts and helper constructors
# ---------------------------------------------------------------------------------------------------------

TOK2 = re.compile(r'\s*("(?:[^"\\]|\\.)*"|=>|&&|\|\||==|!=|\.\.|::|[{}()\[\],;.!*&=|]|[A-Za-z_][A-Za-z0-9_]*|\d+)')
HELPERS = {'implies': ('imp', 'pp'), 'app': ('app', 'pp'), 'exists': ('ex', 'vp'), 'mu': ('mu', 'vp'),
           'esubst': ('esub', 'pvp'), 'ssubst': ('ssub', 'pvp')}
SUBST_FUNCS = ['apply_esubst', 'apply_ssubst']


def lex2(s):
    out, pos = [], 0
    s = s.strip()
    while pos < len(s):
        m = TOK2.match(s, pos)
        if not m:
            raise TrErr(f'cannot tokenize near {s[pos:pos + 30]!r}')
        out.append(m.group(1)); pos = m.end()
    return out


class P2(P):
    """expressions of type Rc<Pattern> are translated to Lean terms of type `Option Pat` (none = panic); `self.var_id`
    and `self.plug` are the names of the Id and plug parameters, `self.closures` the `let f = || e;` definitions"""
    counter = 0

    def fresh(self):
        P2.counter += 1
        return f't{P2.counter}'

    def bexpr(self):
        """a boolean expression (reuses the judgement-expression grammar; method calls on `plug`/fields)"""
        return self.expr()

    def postfix(self):
        # booleans / ids: allow the Id parameter and `plug`
        if self.peek() not in ('(',) and re.fullmatch(r'[A-Za-z_]\w*', self.peek() or '') and self.peek() == self.var_id:
            self.eat(); a = 'x'
        elif self.peek() == self.plug:
            self.eat(); a = 'plug'
        else:
            return P.postfix(self)
        return self.methods(a)

    def methods(self, a):
        while self.peek() == '.':
            self.eat(); f = self.eat(); self.eat('(')
            args = []
            while self.peek() != ')':
                args.append(self.expr())
                if self.peek() == ',':
                    self.eat()
            self.eat(')')
            if f in FUNCS and len(args) == 1:
                a = f'({f} {a} {args[0]})'
            elif f == 'contains' and len(args) == 1:
                a = f'(List.contains {a} {args[0]})'
            else:
                raise TrErr(f'unsupported method .{f}/{len(args)}')
        return a

    # pattern-valued expressions
    def pexpr(self):
        t = self.peek()
        if t == 'if':
            self.eat(); c = self.bexpr(); self.eat('{'); a = self.pblock(); self.eat('}'); self.eat('else'); self.eat('{'); b = self.pblock(); self.eat('}')
            return f'(if {c} then {a} else {b})'
        if t == 'Rc':
            self.eat(); self.eat('::'); self.eat('clone'); self.eat('(')
            v = self.eat(); self.eat(')')
            return f'(some {self.pname(v)})'
        if t in self.closures and self.peek(1) == '(' and self.peek(2) == ')':
            self.eat(); self.eat('('); self.eat(')')
            return self.closures[t]
        if t in SUBST_FUNCS:
            self.eat(); self.eat('(')
            a = self.parg(); self.eat(','); v = self.varg(); self.eat(','); b = self.parg(); self.eat(')')
            return f'({t} {a} {v} {b})'
        if t in HELPERS:
            self.eat(); self.eat('(')
            lean, sig = HELPERS[t]
            args, binds = [], []
            for k, kind in enumerate(sig):
                if k:
                    self.eat(',')
                if kind == 'v':
                    args.append(self.varg())
                else:
                    e = self.pexpr()
                    m = re.fullmatch(r'\(some (\w+)\)', e)
                    if m:
                        args.append(m.group(1))
                    else:
                        v = self.fresh(); binds.append((v, e)); args.append(v)
            if self.peek() == ',':
                self.eat()
            self.eat(')')
            body = f'some (Pat.{lean} {" ".join(args)})'
            for v, e in reversed(binds):
                body = f'Option.bind {e} (fun {v} => {body})'
            return f'({body})'
        raise TrErr(f'unsupported pattern expression starting with {t!r}')

    def pname(self, v):
        if v == self.self_name:
            return 'p'
        if v == self.plug:
            return 'plug'
        if v in self.bound:
            return self.bound[v]
        raise TrErr(f'unknown pattern name {v!r}')

    def parg(self):
        """an argument of type &Rc<Pattern>: a name, possibly with & """
        if self.peek() == '&':
            self.eat()
        return self.pname(self.eat())

    def varg(self):
        if self.peek() == '*':
            self.eat()
        v = self.eat()
        if v == self.var_id:
            return 'x'
        if v in self.bound:
            return self.bound[v]
        raise TrErr(f'unknown id {v!r}')

    def pblock(self):
        """statements `assert!(cond, ...);` then a pattern expression"""
        if self.peek() == 'assert' and self.peek(1) == '!':
            self.eat(); self.eat('!'); self.eat('(')
            c = self.bexpr()
            depth = 1
            while depth:                     # skip the message and its arguments
                t = self.eat()
                if t == '(':
                    depth += 1
                elif t == ')':
                    depth -= 1
            self.eat(';')
            return f'(if {c} then {self.pblock()} else none)'
        return self.pexpr()


def find_subst_fn(src, name):
    m = re.search(r'fn\s+' + name + r'\s*\(\s*(\w+)\s*:\s*&Rc<Pattern>\s*,\s*(\w+)\s*:\s*Id\s*,\s*(\w+)\s*:\s*&Rc<Pattern>\s*\)\s*->\s*Rc<Pattern>\s*\{', src)
    if not m:
        raise TrErr(f'fn {name}(&Rc<Pattern>, Id, &Rc<Pattern>) -> Rc<Pattern> not found')
    i = m.end()
    depth, j = 1, i
    while depth:
        if src[j] == '{':
            depth += 1
        elif src[j] == '}':
            depth -= 1
        j += 1
    return m.group(1), m.group(2), m.group(3), src[i:j - 1]


def parse_subst_fn(src, name):
    self_name, var_id, plug, body = find_subst_fn(src, name)
    toks = lex2(body)
    p = P2(toks, {}, None)
    p.self_name, p.var_id, p.plug, p.closures = self_name, var_id, plug, {}
    # leading closures
    while p.peek() == 'let':
        p.eat(); nm = p.eat(); p.eat('='); p.eat('||')
        e = p.pexpr(); p.eat(';')
        p.closures[nm] = e
    p.eat('match'); p.eat(self_name); p.eat('.'); p.eat('as_ref'); p.eat('('); p.eat(')'); p.eat('{')
    arms = []          # (lean ctor or None for `_`, {field: name}, guard or None, expr)
    while p.peek() != '}':
        names = {}
        if p.peek() == '_':
            p.eat(); lean, fields = None, []
        else:
            p.eat('Pattern'); p.eat('::'); c = p.eat()
            if c not in CTORS:
                raise TrErr(f'unknown constructor {c}')
            lean, fields = CTORS[c]
            if p.peek() == '(':
                p.eat(); names['0'] = p.eat(); p.eat(')')
            elif p.peek() == '{':
                p.eat()
                while p.peek() != '}':
                    if p.peek() == '..':
                        p.eat()
                    else:
                        f = p.eat()
                        if f not in fields:
                            raise TrErr(f'unknown field {f} of {c}')
                        names[f] = f
                    if p.peek() == ',':
                        p.eat()
                p.eat('}')
        p.bound = {v: 'b_' + (f if f != '0' else 'a') for f, v in names.items()}
        guard = None
        if p.peek() == 'if':
            p.eat(); guard = p.bexpr()
        p.eat('=>')
        if p.peek() == '{':
            p.eat('{'); e = p.pblock(); p.eat('}')
        else:
            e = p.pexpr()
        if p.peek() == ',':
            p.eat()
        arms.append((lean, guard, e))
    p.eat('}')
    return arms


def emit_subst_fn(name, arms):
    out = [f'def {name} : Pat → VId → Pat → Option Pat']
    for rust, (lean, fields) in CTORS.items():
        binders = ' '.join('b_' + (f if f != '0' else 'a') for f in fields)
        chain = [a for a in arms if a[0] in (lean, None)]
        body = None
        # first applicable arm without a guard ends the chain
        exprs = []
        for (_, guard, e) in chain:
            exprs.append((guard, e))
            if guard is None:
                break
        else:
            raise TrErr(f'{name}: constructor {rust} is not covered')
        body = exprs[-1][1]
        for guard, e in reversed(exprs[:-1]):
            body = f'(if {guard} then {e} else {body})'
        out.append(f'  | p@(.{lean} {binders}), x, plug => {body}')
    return out


def gen_rust_subst():
    problems = []
    src = strip_comments(open(os.path.join(core.REPO, 'rust/src/lib.rs')).read())
    lines = ['import Pi2.Gen.RustJudge',
             '/-! GENERATED by /verif/vlib/transrust.py from `apply_esubst` / `apply_ssubst` in rust/src/lib.rs (arm by arm; a panic is',
             '`none`) — do not edit.  `Pi2/RustTie.lean` proves these equal to `Pat.applyESubst` / `Pat.applySSubst`. -/',
             'namespace Gen.Rust', 'set_option linter.unusedVariables false']
    okk = True
    for f in SUBST_FUNCS:
        try:
            lines += emit_subst_fn(f, parse_subst_fn(src, f))
        except TrErr as e:
            problems.append(f'RustSubst: {f}: {e}')
            okk = False
    lines.append(f'def substTranslated : Bool := {"true" if okk else "false"}')
    lines.append('end Gen.Rust')
    from .translate import _write_if_changed, GEN
    _write_if_changed(os.path.join(GEN, 'RustSubst.lean'), '\n'.join(lines) + '\n')
    return problems
